"""Program model over the driver's facts: normalised HIR trees, parents, guard chains,
expression descriptors (canonical strings), quote! call sites, call graph.

Nothing in here knows anything about bindgen; repository knowledge lives in cNN.py.
"""
import os
import re
from collections import defaultdict

from facts import REPO

CHILD_KEYS = ("e", "l", "r", "f", "recv", "base", "idx", "cond", "then", "else", "body", "scrut", "init",
              "tail", "els", "iter", "guard")
LIST_KEYS = ("es", "args", "stmts")


def kids(n):
    """Yield (role, child) for every child expression/statement node of n (patterns are not nodes)."""
    k = n.get("k")
    if k == "Match":
        yield ("scrut", n["scrut"])
        for i, a in enumerate(n["arms"]):
            if "guard" in a:
                yield (("armguard", i), a["guard"])
            yield (("arm", i), a["body"])
        return
    if k == "Struct":
        for i, f in enumerate(n["fs"]):
            yield (("field", f["f"]), f["e"])
        if "base" in n:
            yield ("base", n["base"])
        return
    if k == "Block":
        for i, c in enumerate(n.get("stmts", [])):
            yield (("stmts", i), c)
        if isinstance(n.get("tail"), dict):
            yield ("tail", n["tail"])
        return
    for key in CHILD_KEYS:
        c = n.get(key)
        if isinstance(c, dict) and "k" in c:
            yield (key, c)
    for key in LIST_KEYS:
        cs = n.get(key)
        if isinstance(cs, list):
            for i, c in enumerate(cs):
                if isinstance(c, dict) and "k" in c:
                    yield ((key, i), c)


def _normalise(n):
    """Rewrite desugared for / ? / while back into single nodes (in place, returns node)."""
    if isinstance(n, list):
        for i, x in enumerate(n):
            n[i] = _normalise(x)
        return n
    if not isinstance(n, dict):
        return n
    for key, v in list(n.items()):
        if isinstance(v, (dict, list)) and key not in ("s", "ns"):
            n[key] = _normalise(v)
    k = n.get("k")
    if k == "Match" and n.get("src") == "for":
        try:
            it = n["scrut"]["args"][0]
            loop = n["arms"][0]["body"]
            inner = loop["body"]["stmts"][0]["e"]
            some = inner["arms"][1]
            pat = some["pat"]["fs"][0]["p"]
            return {"k": "For", "iter": it, "pat": pat, "body": some["body"], "s": n["s"], "t": n.get("t"), **({"m": n["m"]} if "m" in n else {})}
        except (KeyError, IndexError, TypeError):
            return n
    if k == "Match" and n.get("src") == "try":
        try:
            return {"k": "Try", "e": n["scrut"]["args"][0], "s": n["s"], "t": n.get("t"), **({"m": n["m"]} if "m" in n else {})}
        except (KeyError, IndexError, TypeError):
            return n
    if k == "Loop" and n.get("src") == "While":
        try:
            iff = n["body"]["tail"]
            if iff["k"] == "If":
                return {"k": "While", "cond": iff["cond"], "body": iff["then"], "s": n["s"], "t": n.get("t"), **({"m": n["m"]} if "m" in n else {})}
        except (KeyError, TypeError):
            return n
    return n


class Body:
    """One body owner (fn / const / static) with indexed nodes."""

    def __init__(self, prog, fact):
        self.prog = prog
        self.fact = fact
        self.path = fact["path"]
        self.kind = fact["kind"]
        self.file = prog.files[fact["s"][0]]
        self.line = fact["s"][1]
        self.macros = fact["macros"]
        self.root = _normalise(fact["body"])
        self.params = fact["params"]
        self.nodes = []
        self.parent = {}
        self.role = {}
        self.local_def = {}  # local id -> ("let", stmt) | ("param", i, pat) | ("pat", holder-node, pat, path) ...
        self.local_mut = set()
        self.local_assigned = set()
        self.local_alts = {}  # local id -> [pattern path of every or-pattern alternative binding that name]
        self._index(self.root, None, None)
        for i, p in enumerate(self.params):
            self._bind_pat(p, ("param", i), [])
        self._guards = {}

    # ---- indexing -------------------------------------------------------------------------
    def _index(self, n, parent, role):
        n["_i"] = len(self.nodes)
        self.nodes.append(n)
        self.parent[n["_i"]] = parent
        self.role[n["_i"]] = role
        k = n["k"]
        if k == "Let":
            self._bind_pat(n["pat"], ("let", n), [])
        elif k == "LetCond":
            self._bind_pat(n["pat"], ("letcond", n), [])
        elif k == "For":
            self._bind_pat(n["pat"], ("for", n), [])
        elif k == "Match":
            for i, a in enumerate(n["arms"]):
                self._bind_pat(a["pat"], ("arm", n, i), [])
        elif k == "Closure":
            for i, p in enumerate(n["params"]):
                self._bind_pat(p, ("cparam", n, i), [])
        elif k in ("Assign", "AssignOp"):
            l = n["l"]
            while l.get("k") in ("Field", "Index", "Unary"):
                l = l.get("base") or l.get("e")
            if l.get("k") == "Local":
                self.local_assigned.add(l["id"])
        for r, c in kids(n):
            self._index(c, n, r)

    def _bind_pat(self, p, origin, path):
        k = p.get("k")
        if k == "Bind":
            self.local_def[p["id"]] = (origin, tuple(path), p)
            self.local_alts.setdefault(p["id"], []).append(tuple(path))
            if "Mut" in p["mode"].split(",")[-1]:
                self.local_mut.add(p["id"])
            if "sub" in p:
                self._bind_pat(p["sub"], origin, path)
        elif k == "PStruct":
            res = p["res"].get("def")
            for f in p["fs"]:
                self._bind_pat(f["p"], origin, path + [(res, f["f"])])
        elif k == "PTupleStruct":
            res = p["res"].get("def")
            for i, q in enumerate(p["ps"]):
                self._bind_pat(q, origin, path + [(res, str(i))])
        elif k == "POr":
            # uses of an or-bound name resolve to the binding in the FIRST alternative;
            # remember the pattern paths of the same name in the other alternatives
            first = {}
            for i, q in enumerate(p["ps"]):
                before = set(self.local_def)
                self._bind_pat(q, origin, path)
                new = [x for x in self.local_def if x not in before]
                for lid in new:
                    nm = self.local_def[lid][2]["name"]
                    if i == 0:
                        first[nm] = lid
                    elif nm in first:
                        self.local_alts[first[nm]].append(self.local_def[lid][1])
        elif k in ("PTuple", "PSlice"):
            for i, q in enumerate(p["ps"]):
                self._bind_pat(q, origin, path + ([("tuple", str(i))] if k == "PTuple" else []))
        elif k in ("PRef", "PGuard"):
            self._bind_pat(p["p"], origin, path)

    # ---- navigation -----------------------------------------------------------------------
    def walk(self, n=None):
        """preorder iteration over all nodes below n (inclusive)."""
        if n is None:
            return iter(self.nodes)
        return self._walk(n)

    def _walk(self, n):
        stack = [n]
        while stack:
            x = stack.pop()
            yield x
            cs = [c for _, c in kids(x)]
            stack.extend(reversed(cs))

    def ancestors(self, n):
        p = self.parent[n["_i"]]
        while p is not None:
            yield p
            p = self.parent[p["_i"]]

    def loc(self, n):
        s = n.get("s") or n.get("ns")
        if not s:
            for a in self.ancestors(n):
                if a.get("s"):
                    s = a["s"]
                    break
        if not s:
            return "%s:%d" % (self.file, self.line)
        return "%s:%d" % (self.prog.files[s[0]], s[1])

    def ty(self, n):
        t = n.get("t")
        return self.prog.types[t] if t is not None else None

    def calls(self, pred=None, within=None):
        for n in self.walk(within):
            if n["k"] in ("Call", "MCall") and (pred is None or pred(n)):
                yield n

    # ---- macro call sites -----------------------------------------------------------------
    def macro_name(self, n):
        """outermost macro (bang) name that produced n, or None."""
        m = n.get("m")
        if m is None:
            m = n.get("fm")
        if m is None:
            return None
        return self.macros[m]["chain"].split("<")[-1]

    def macro_site(self, n):
        m = n.get("m")
        if m is None:
            m = n.get("fm")
        if m is None:
            return None
        return tuple(self.macros[m]["site"])

    def macro_roots(self, names):
        """Top-most nodes of each invocation of the named macros: list of (site, name, node)."""
        out = []
        seen = set()
        for n in self.nodes:
            nm = self.macro_name(n)
            if nm in names:
                site = self.macro_site(n)
                p = self.parent[n["_i"]]
                while p is not None and p["k"] in ("Let", "Semi", "ExprStmt"):
                    p = self.parent[p["_i"]]
                if p is not None and self.macro_site(p) == site:
                    continue
                # first node of that site in preorder is the root
                if (site, n["_i"]) in seen:
                    continue
                seen.add((site, n["_i"]))
                out.append((site, nm, n))
        return out

    # ---- guards ---------------------------------------------------------------------------
    def diverges(self, n):
        if n is None:
            return False
        t = self.ty(n)
        if t == "!":
            return True
        k = n["k"]
        if k in ("Ret", "Break", "Continue"):
            return True
        if k == "Block":
            if n.get("tail") is not None:
                return self.diverges(n["tail"])
            if n["stmts"]:
                last = n["stmts"][-1]
                return self.diverges(last.get("e")) if last["k"] in ("Semi", "ExprStmt") else False
        if k in ("Call", "MCall"):
            return False
        return False

    def guards(self, n, nested=False):
        """Conjunction of conditions under which n executes (nested=True: also the negated paths to `return`s nested inside
        earlier statements — kinds 'notarm' / 'notall', see _nested_exits).

        list of (polarity: bool, kind, payload)
          kind 'cond'  payload = condition expression node
          kind 'arm'   payload = (match node, arm index)           (polarity True)
          kind 'letelse' payload = Let stmt node                   (pattern matched)
        ordered outermost first."""
        i = (n["_i"], nested)
        if i in self._guards:
            return self._guards[i]
        out = []
        child = n
        p = self.parent[n["_i"]]
        while p is not None:
            role = self.role[child["_i"]]
            k = p["k"]
            if k == "If":
                if role == "then":
                    out.append((True, "cond", p["cond"]))
                elif role == "else":
                    out.append((False, "cond", p["cond"]))
            elif k == "While":
                if role == "body":
                    out.append((True, "cond", p["cond"]))
            elif k == "Match":
                if isinstance(role, tuple) and role[0] in ("arm", "armguard"):
                    out.append((True, "arm", (p, role[1])))
                    if role[0] == "arm" and "guard" in p["arms"][role[1]]:
                        out.append((True, "cond", p["arms"][role[1]]["guard"]))
            elif k == "Binary" and p["op"] in ("&&", "||") and role == "r":
                out.append((p["op"] == "&&", "cond", p["l"]))
            elif k == "Block" and isinstance(role, tuple) and role[0] == "stmts" or (k == "Block" and role == "tail"):
                upto = role[1] if isinstance(role, tuple) else len(p["stmts"])
                for st in reversed(p["stmts"][:upto]):
                    if st["k"] == "Let" and "els" in st:
                        out.append((True, "letelse", st))
                    e = st.get("e")
                    if e is not None and e["k"] == "If":
                        if "else" not in e and self.diverges(e["then"]):
                            out.append((False, "cond", e["cond"]))
                        elif "else" in e and self.diverges(e["else"]) and not self.diverges(e["then"]):
                            out.append((True, "cond", e["cond"]))
                        elif "else" in e and self.diverges(e["then"]) and not self.diverges(e["else"]):
                            out.append((False, "cond", e["cond"]))
                    # function exits nested deeper inside an earlier statement (`let x = match y { None => return, .. }`,
                    # `let n = if c { .. if d { return; } .. } else { .. }`): afterwards the path to that exit was not taken
                    if nested:
                        for neg in self._nested_exits(st):
                            if neg not in out:
                                out.append(neg)
            elif k == "MCall" and p.get("name") in ("then", "then_some") and isinstance(role, tuple) and role[0] == "args":
                if self.ty(p["recv"]) == "bool":
                    out.append((True, "cond", p["recv"]))
            child = p
            p = self.parent[p["_i"]]
        out.reverse()
        self._guards[i] = out
        return out

    def _nested_exits(self, st):
        """Negated path conditions of every `return` nested inside statement st (closures excluded).
        A single condition c gives (not pol, 'cond', c); a single match arm gives (False, 'notarm', (match, i)); a longer
        path gives (False, 'notall', [guards...]).  Exits already described by the statement-level forms are skipped."""
        cached = st.get("_nx")
        if cached is not None:
            return cached
        out = []
        top = st.get("e") if st["k"] in ("Semi", "ExprStmt") else st.get("init")
        if top is None:
            st["_nx"] = out
            return out
        base = None
        stack = [top]
        rets = []
        while stack:
            x = stack.pop()
            if x["k"] == "Closure":
                continue
            if x["k"] == "Ret":
                rets.append(x)
                continue
            if x["k"] in ("Break", "Continue"):
                # leaves the statement only when the loop it targets is outside the statement
                inner_loop = False
                for a in self.ancestors(x):
                    if a is top:
                        inner_loop = inner_loop or a["k"] in ("For", "While", "Loop")
                        break
                    if a["k"] in ("For", "While", "Loop"):
                        inner_loop = True
                        break
                if not inner_loop and x is not top:
                    rets.append(x)
                continue
            stack.extend(c for _, c in kids(x))
        if not rets:
            st["_nx"] = out
            return out
        base = self.guards(top)
        for r in rets:
            rel = [g for g in self.guards(r) if g not in base]
            # drop the guards contributed by earlier statements of inner blocks that are themselves negations (keep path only)
            if not rel:
                continue
            if len(rel) == 1:
                pol, kind, payload = rel[0]
                if kind == "cond":
                    # statement-level `if c { return }` is already handled by the caller
                    if st["k"] in ("Semi", "ExprStmt") and top["k"] == "If" and payload is top["cond"]:
                        continue
                    out.append((not pol, "cond", payload))
                elif kind == "arm" and pol:
                    out.append((False, "notarm", payload))
                elif kind == "letelse":
                    continue
            else:
                out.append((False, "notall", tuple(rel)))
        st["_nx"] = out
        return out

    # ---- expression descriptors -----------------------------------------------------------
    def canon(self, n, depth=6):
        """Canonical string of an expression with locals resolved to their definitions."""
        return self.prog.canon(self, n, depth)

    def local_init(self, lid):
        """The single initialiser expression of an immutable let-bound local, else None."""
        d = self.local_def.get(lid)
        if not d:
            return None
        origin, path, pat = d
        if origin[0] == "let" and not path and lid not in self.local_assigned:
            return origin[1].get("init")
        return None


def strip(n):
    """Peel reference / deref / cast / clone / into wrappers."""
    while True:
        k = n.get("k")
        if k in ("AddrOf", "Cast"):
            n = n["e"]
        elif k == "Unary" and n.get("op") == "*":
            n = n["e"]
        elif k == "MCall" and n.get("name") in ("clone", "as_ref", "as_mut", "borrow", "borrow_mut", "to_owned",
                                                 "into", "as_deref", "as_str", "as_slice", "iter", "copied", "cloned", "by_ref") and not n["args"]:
            n = n["recv"]
        elif k == "Block" and not n["stmts"] and n.get("tail") is not None:
            n = n["tail"]
        else:
            return n


class Program:
    def __init__(self, facts):
        self.facts = facts
        self.files = facts["files"]
        self.types = facts["types"]
        self.bodies = {}
        self.by_name = defaultdict(list)
        for f in facts["fns"]:
            b = Body(self, f)
            # paths are unique except for anon consts; keep first, suffix others
            key = b.path
            j = 1
            while key in self.bodies:
                j += 1
                key = "%s#%d" % (b.path, j)
            self.bodies[key] = b
        self.adts = {a["path"]: a for a in facts["adts"]}
        self.impls = facts["impls"]
        self.traits = {t["path"]: t for t in facts["traits"]}
        self.statics = facts["statics"]
        self._src = {}
        self._getters = None
        self._callers = None

    # ---- lookup ---------------------------------------------------------------------------
    def fn(self, path):
        return self.bodies.get(path)

    def fns(self, pred):
        return [b for p, b in self.bodies.items() if pred(b)]

    def impls_of(self, trait_path):
        return [i for i in self.impls if i["trait"] == trait_path]

    def impl_fn(self, trait_path, self_ty, name):
        for b in self.bodies.values():
            f = b.fact
            if f.get("impl_trait") == trait_path and f.get("impl_self") == self_ty and b.path.endswith("::" + name):
                return b
        return None

    def methods_of(self, self_ty, trait_path=None):
        return [b for b in self.bodies.values()
                if b.fact.get("impl_self") == self_ty and b.fact.get("impl_trait") == trait_path]

    # ---- source text ----------------------------------------------------------------------
    def src_lines(self, file):
        if file not in self._src:
            p = file if os.path.isabs(file) else os.path.join(REPO, file)
            try:
                with open(p, encoding="utf-8") as fh:
                    self._src[file] = fh.read().split("\n")
            except OSError:
                self._src[file] = None
        return self._src[file]

    def text(self, span):
        """source text of [file, l1, c1, l2, c2] (columns are char offsets)."""
        lines = self.src_lines(self.files[span[0]])
        if lines is None:
            return ""
        l1, c1, l2, c2 = span[1] - 1, span[2], span[3] - 1, span[4]
        if l1 == l2:
            return lines[l1][c1:c2]
        return "\n".join([lines[l1][c1:]] + lines[l1 + 1:l2] + [lines[l2][:c2]])

    # ---- getters --------------------------------------------------------------------------
    def getters(self):
        """fn path -> (adt, field) for trivial accessors `fn f(&self) -> T { [&]self.field[.clone()] }`."""
        if self._getters is None:
            g = {}
            for p, b in self.bodies.items():
                if b.kind != "AssocFn" or len(b.params) != 1:
                    continue
                r = b.root
                if r["k"] != "Block" or r["stmts"] or r.get("tail") is None:
                    continue
                t = strip(r["tail"])
                if t["k"] == "Field" and strip(t["base"]).get("k") == "Local" and strip(t["base"]).get("name") == "self" and "adt" in t:
                    g[p] = (t["adt"], t["f"])
            self._getters = g
        return self._getters

    # ---- canonical expression strings -----------------------------------------------------
    def canon(self, body, n, depth=6, inline_locals=True):
        n = strip(n)
        k = n.get("k")
        if depth <= 0:
            return "…"
        c = lambda x, d=depth - 1: self.canon(body, x, d, inline_locals)
        if k == "Local":
            lid = n["id"]
            d = body.local_def.get(lid)
            if d is None:
                return "local:" + n["name"]
            origin, path, pat = d
            if origin[0] == "let":
                init = origin[1].get("init")
                if init is not None and lid not in body.local_assigned and inline_locals:
                    base = c(init)
                    if path:
                        return base + "".join("~%s.%s" % (a or "?", f) for a, f in path)
                    return base
                return "local:" + n["name"]
            if origin[0] == "param":
                base = "param:" + (pat["name"] if not path else str(origin[1]))
            elif origin[0] == "cparam":
                base = "cparam:%s" % pat["name"]
            elif origin[0] == "arm":
                base = "match(" + c(origin[1]["scrut"]) + ")"
            elif origin[0] == "letcond":
                base = c(origin[1]["init"])
            elif origin[0] == "for":
                base = "elem(" + c(origin[1]["iter"]) + ")"
            else:
                base = "local:" + n["name"]
            if path:
                return base + "".join("~%s.%s" % (a or "?", f) for a, f in path)
            return base
        if k == "Path":
            return n["def"]
        if k == "Lit":
            return "lit:%r" % (n.get("v"),)
        if k == "Field":
            return "%s.%s::%s" % (c(n["base"]), n.get("adt", "?"), n["f"])
        if k == "MCall":
            callee = n.get("resolved") or n.get("callee") or ("?." + n["name"])
            g = self.getters().get(callee)
            if g and not n["args"]:
                return "%s.%s::%s" % (c(n["recv"]), g[0], g[1])
            return "%s(%s)" % (callee, ", ".join([c(n["recv"])] + [c(a) for a in n["args"]]))
        if k == "Call":
            callee = n.get("resolved") or n.get("callee") or n.get("ctor") or (c(n["f"]) if "f" in n else "?")
            g = self.getters().get(callee)
            if g and len(n["args"]) == 1:
                return "%s.%s::%s" % (c(n["args"][0]), g[0], g[1])
            return "%s(%s)" % (callee, ", ".join(c(a) for a in n["args"]))
        if k == "Binary":
            return "(%s %s %s)" % (c(n["l"]), n["op"], c(n["r"]))
        if k == "Unary":
            return "(%s%s)" % (n["op"], c(n["e"]))
        if k == "Try":
            return c(n["e"]) + "?"
        if k == "LetCond":
            return "let %s = %s" % (pat_str(n["pat"]), c(n["init"]))
        if k == "Match":
            return "match(%s){%s}" % (c(n["scrut"]), "|".join(pat_str(a["pat"]) + "=>" + c(a["body"], 2) for a in n["arms"]))
        if k == "If":
            return "if(%s){%s}else{%s}" % (c(n["cond"]), c(n["then"], 2), c(n["else"], 2) if "else" in n else "")
        if k == "Closure":
            return "closure@" + n["def"]
        if k == "Struct":
            return "%s{%s}" % (n["res"].get("def"), ",".join("%s:%s" % (f["f"], c(f["e"], 2)) for f in n["fs"]))
        if k in ("Tup", "Array"):
            return "(%s)" % ", ".join(c(e) for e in n["es"])
        if k == "Index":
            return "%s[%s]" % (c(n["base"]), c(n["idx"]))
        if k == "Block":
            return "{…}"
        return k or "?"

    # ---- call graph -----------------------------------------------------------------------
    def callees_of(self, body):
        out = set()
        for n in body.nodes:
            if n["k"] in ("Call", "MCall"):
                for key in ("resolved", "callee"):
                    if key in n:
                        out.add(n[key])
            elif n["k"] == "Path" and n.get("dk") in ("Fn", "AssocFn"):
                out.add(n["def"])
        return out

    def call_graph(self):
        if self._callers is None:
            g = {}
            # trait method -> impl methods (dynamic / generic dispatch over-approximation)
            impls_of_item = defaultdict(set)
            for p, b in self.bodies.items():
                ti = b.fact.get("trait_item")
                if ti:
                    impls_of_item[ti].add(p)
            for p, b in self.bodies.items():
                cs = set()
                for c in self.callees_of(b):
                    cs.add(c)
                    cs |= impls_of_item.get(c, set())
                g[p] = cs
            self._callers = g
        return self._callers

    def precise_call_graph(self):
        """Like call_graph, but a call the compiler resolved to one impl method has that method as its only target; the fan-out
        from a trait item to all of its impls is kept for calls that stayed unresolved (generic / dyn dispatch)."""
        g = getattr(self, "_precise_cg", None)
        if g is None:
            g = {}
            impls_of_item = defaultdict(set)
            for p, b in self.bodies.items():
                ti = b.fact.get("trait_item")
                if ti:
                    impls_of_item[ti].add(p)
            for p, b in self.bodies.items():
                cs = set()
                for n in b.nodes:
                    if n["k"] in ("Call", "MCall"):
                        r, c = n.get("resolved"), n.get("callee")
                        if r and r != c:
                            cs.add(r)
                        else:
                            for x in (r, c):
                                if x:
                                    cs.add(x)
                                    cs |= impls_of_item.get(x, set())
                    elif n["k"] == "Path" and n.get("dk") in ("Fn", "AssocFn"):
                        cs.add(n["def"])
                        cs |= impls_of_item.get(n["def"], set())
                g[p] = cs
            self._precise_cg = g
        return g

    def reachable(self, roots, stop=None, precise=False):
        g = self.precise_call_graph() if precise else self.call_graph()
        seen = set()
        stack = list(roots)
        while stack:
            x = stack.pop()
            if x in seen:
                continue
            seen.add(x)
            if stop and stop(x):
                continue
            for y in g.get(x, ()):
                if y not in seen:
                    stack.append(y)
        return seen


def pat_str(p):
    k = p.get("k")
    if k == "Bind":
        return ("%s@%s" % (p["name"], pat_str(p["sub"]))) if "sub" in p else "_b"
    if k in ("Wild", "Missing"):
        return "_"
    if k == "PStruct":
        return "%s{%s%s}" % (p["res"].get("def"), ",".join("%s:%s" % (f["f"], pat_str(f["p"])) for f in p["fs"]), ",.." if p.get("rest") else "")
    if k == "PTupleStruct":
        return "%s(%s)" % (p["res"].get("def"), ",".join(pat_str(q) for q in p["ps"]))
    if k == "POr":
        return "|".join(pat_str(q) for q in p["ps"])
    if k in ("PTuple", "PSlice"):
        return "(%s)" % ",".join(pat_str(q) for q in p["ps"])
    if k == "PRef":
        return pat_str(p["p"])
    if k == "PGuard":
        return pat_str(p["p"]) + " if …"
    if k == "PLit":
        return ("-" if p.get("neg") else "") + repr(p.get("v"))
    if k == "PPath":
        return p["res"].get("def")
    if k == "PRange":
        return "%s..%s" % (pat_str(p["lo"]) if "lo" in p else "", pat_str(p["hi"]) if "hi" in p else "")
    return k or "?"


def pat_variants(p):
    """Set of resolved variant/struct/const paths a pattern can match at top level; '_' for catch-all."""
    k = p.get("k")
    if k in ("Bind",):
        return pat_variants(p["sub"]) if "sub" in p else {"_"}
    if k in ("Wild", "Missing"):
        return {"_"}
    if k in ("PStruct", "PTupleStruct", "PPath"):
        return {p["res"].get("def")}
    if k == "POr":
        s = set()
        for q in p["ps"]:
            s |= pat_variants(q)
        return s
    if k in ("PRef", "PGuard"):
        return pat_variants(p["p"])
    if k == "PLit":
        return {"lit:%r" % (p.get("v"),) if not p.get("neg") else "lit:-%r" % (p.get("v"),)}
    if k == "PTuple":
        return {"tuple"}
    return {"?"}


# ---- tokenising macro call-site text (quote! bodies) -------------------------------------------
TOKEN_RE = re.compile(r"""
    (?P<ws>\s+|//[^\n]*|/\*.*?\*/)
  | (?P<interp>\#\s*[A-Za-z_][A-Za-z0-9_]*)
  | (?P<rep>\#\s*\()
  | (?P<str>b?"(?:[^"\\]|\\.)*")
  | (?P<char>'(?:[^'\\]|\\.)')
  | (?P<life>'[A-Za-z_][A-Za-z0-9_]*)
  | (?P<ident>r\#[A-Za-z_][A-Za-z0-9_]*|[A-Za-z_][A-Za-z0-9_]*)
  | (?P<num>[0-9][A-Za-z0-9_.]*)
  | (?P<punct>::|->|=>|==|!=|<=|>=|&&|\|\||\.\.=|\.\.\.|\.\.|<<|>>|[-+*/%^!&|=<>@.,;:\#$?~(){}\[\]])
""", re.X | re.S)


def tokenize(text):
    out = []
    pos = 0
    while pos < len(text):
        m = TOKEN_RE.match(text, pos)
        if not m:
            pos += 1
            continue
        pos = m.end()
        kind = m.lastgroup
        if kind == "ws":
            continue
        tok = m.group(kind)
        if kind == "interp":
            tok = "#" + tok[1:].strip()
        out.append(tok)
    return out


def macro_body_tokens(text):
    """tokens between the outer delimiters of `name! { ... }` / `name!( ... )`."""
    m = re.match(r"\s*[A-Za-z_:0-9]+\s*!\s*[\(\[\{]", text, re.S)
    if not m:
        return tokenize(text)
    inner = text[m.end():]
    inner = inner.rstrip()
    if inner and inner[-1] in ")]}":
        inner = inner[:-1]
    return tokenize(inner)
