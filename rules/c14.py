"""C14 — bindings use only features of the selected Rust target, monotonically.

The property is decided by composition:

  R14.1  the feature table read from the *expanded* `RustFeatures::new` never enables a flag for a
         target/edition older than the point at which the language feature the flag stands for became
         stable (oracle/rust_features.json), and the edition table is not optimistic either;
  R14.2  the table is monotone by construction (flags are only ever set to `true`, only under positive
         `target.is_compatible(CONST)` conditions, `is_compatible` is `>=`, nightly dominates);
  R14.3  every emission site of a gated construct is executed only under a guard that — given what the
         flags mean (R14.1) — implies that the target is new enough; gated ABIs are rejected by
         `FunctionSig::abi` before they reach a `quote!`;
  R14.4  the edition is validated before the table is consulted, the table is recomputed from
         (target, edition) at the start of `Builder::generate`, and the defaults are the newest known
         stable release / its newest edition.

Guards are not matched textually: the guard chain of a site is turned into a propositional formula over
flag atoms (`RustFeatures::<flag>`), the `use_core` option and opaque atoms, and the rule asks whether
the formula *entails* the requirement in every world (target minor, edition, use_core) that is
consistent with "flag true ⇒ target ≥ stabilisation of the flag's feature".  Reordering `&&` operands,
`if`→`match`, negated conditions with swapped branches, locals, zero-argument closures and trivial
helper functions therefore do not change the verdict.
"""
import json
import os
import re
from collections import defaultdict

from engine import RuleSet
from hir import strip, pat_variants, macro_body_tokens

RULES = RuleSet("C14", "§3 C14",
                not_decided=["clap's parsing of the --rust-target / --rust-edition strings (run-time residue)",
                             "constructs that reach the output through user-supplied strings (--raw-line, attributes, "
                             "ctypes-prefix): their text is not bindgen's",
                             "that the oracle table itself matches the Rust release notes (it is reviewed, not derived)"])

RF = "features::RustFeatures"
RT = "features::RustTarget"
RE = "features::RustEdition"
VER_STABLE = "features::Version::Stable"
VER_NIGHTLY = "features::Version::Nightly"
OPT = "options::BindgenOptions"
ABI = "ir::function::Abi"
CLANG_ABI_KNOWN = "ir::function::ClangAbi::Known"
FSIG = "ir::function::FunctionSig"
NIGHTLY = 10 ** 6

with open(os.path.join(os.path.dirname(os.path.abspath(__file__)), "oracle", "rust_features.json")) as _fh:
    ORACLE = json.load(_fh)


# ---------------------------------------------------------------------------------------------
# oracle access
# ---------------------------------------------------------------------------------------------
def flag_req(flag):
    """(min minor | NIGHTLY, min edition | None) that flag `flag` stands for, or None when unknown."""
    o = ORACLE["flags"].get(flag)
    if o is None:
        return None
    return (NIGHTLY if o.get("nightly") else o["min_minor"], o.get("min_edition"))


def construct_req(cid):
    c = ORACLE["constructs"][cid]
    if c.get("flag"):
        return flag_req(c["flag"])
    return (NIGHTLY if c.get("nightly") else c["min_minor"], c.get("min_edition"))


def fmt_req(req):
    v, e = req
    return ("nightly" if v >= NIGHTLY else "1.%d" % v) + (" + edition >= %d" % e if e else "")


# ---------------------------------------------------------------------------------------------
# small helpers over the fact tree
# ---------------------------------------------------------------------------------------------
def callee_of(n):
    return n.get("resolved") or n.get("callee") or ""


def is_call_to(n, suffix):
    if n.get("k") not in ("Call", "MCall"):
        return False
    return (n.get("resolved") or "").endswith(suffix) or (n.get("callee") or "").endswith(suffix)


def short(body):
    """Stable short name of a body: `Type::method` / `module::function`."""
    last = body.path.split("::")[-1]
    own = body.fact.get("impl_self")
    if own:
        own = own.split("<")[0].split("::")[-1]
        return "%s::%s" % (own, last)
    return "::".join(body.path.split("::")[-2:])


def param_index(body, n):
    """index of the parameter a Local denotes (directly), else None."""
    n = strip(n)
    if n.get("k") != "Local":
        return None
    d = body.local_def.get(n["id"])
    if d and d[0][0] == "param" and not d[1]:
        return d[0][1]
    return None


def resolve_local(body, n, depth=6):
    """follow immutable `let x = <expr>;` bindings to the expression they name."""
    n = strip(n)
    while depth > 0 and n.get("k") == "Local":
        init = body.local_init(n["id"])
        if init is None:
            break
        n = strip(init)
        depth -= 1
    return n


def ctor_name(n):
    """path of the tuple-struct / variant constructor a Call applies, else None."""
    if n.get("k") != "Call":
        return None
    if n.get("ctor"):
        return n.get("ctor_of") or n["ctor"]
    f = n.get("f")
    if isinstance(f, dict) and f.get("k") == "Path" and "Ctor" in (f.get("dk") or ""):
        return f.get("ctor_of") or f["def"]
    return None


def is_err_value(body, n, depth=3):
    """expression is syntactically `Err(..)` (possibly behind a block / diverges)."""
    n = strip(n)
    if n.get("k") == "Block":
        if n.get("tail") is not None:
            return is_err_value(body, n["tail"], depth)
        return body.diverges(n)
    if n.get("k") == "Ret":
        return "e" in n and is_err_value(body, n["e"], depth)
    if n.get("k") == "Call" and (ctor_name(n) or callee_of(n)).endswith("::Err"):
        return True
    if body.ty(n) == "!":
        return True
    return False


def value_leaves(body, n):
    """the expressions an if / match / block expression can evaluate to (diverging branches dropped)."""
    n = strip(n)
    k = n.get("k")
    if k == "Block":
        if n.get("tail") is None:
            return []
        return value_leaves(body, n["tail"])
    if k == "If" and "else" in n:
        return value_leaves(body, n["then"]) + value_leaves(body, n["else"])
    if k == "Match":
        out = []
        for a in n["arms"]:
            out += value_leaves(body, a["body"])
        return out
    if body.diverges(n) or k == "Ret":
        return []
    return [n]


def fn_tail(body):
    """tail expression of a function whose body is straight-line (lets + tail, no `return`)."""
    r = body.root
    if r.get("k") != "Block":
        return r
    if r.get("tail") is None:
        return None
    for st in r["stmts"]:
        if st["k"] != "Let" or "els" in st:
            return None
    if any(n["k"] == "Ret" for n in body.walk()):
        return None
    return r["tail"]


# ---------------------------------------------------------------------------------------------
# guard chains as propositional formulas
# ---------------------------------------------------------------------------------------------
T = ("const", True)
F = ("const", False)


def f_not(a):
    if a[0] == "const":
        return ("const", not a[1])
    if a[0] == "not":
        return a[1]
    return ("not", a)


def f_and(xs):
    out = []
    for x in xs:
        if x == T:
            continue
        if x == F:
            return F
        if x[0] == "and":
            out.extend(x[1])
        else:
            out.append(x)
    if not out:
        return T
    return out[0] if len(out) == 1 else ("and", out)


def f_or(xs):
    out = []
    for x in xs:
        if x == F:
            continue
        if x == T:
            return T
        if x[0] == "or":
            out.extend(x[1])
        else:
            out.append(x)
    if not out:
        return F
    return out[0] if len(out) == 1 else ("or", out)


def f_atoms(f, acc=None):
    acc = set() if acc is None else acc
    if f[0] in ("flag", "opt", "opaque"):
        acc.add(f)
    elif f[0] == "not":
        f_atoms(f[1], acc)
    elif f[0] in ("and", "or"):
        for x in f[1]:
            f_atoms(x, acc)
    return acc


def f_relevant(f):
    return any(a[0] in ("flag", "opt") for a in f_atoms(f))


def f_eval(f, env):
    k = f[0]
    if k == "const":
        return f[1]
    if k in ("flag", "opt", "opaque"):
        return env[f]
    if k == "not":
        return not f_eval(f[1], env)
    if k == "and":
        return all(f_eval(x, env) for x in f[1])
    return any(f_eval(x, env) for x in f[1])


def f_str(f):
    k = f[0]
    if k == "const":
        return "true" if f[1] else "false"
    if k == "flag":
        return f[1]
    if k == "opt":
        return "options." + f[1]
    if k == "opaque":
        return "?"
    if k == "not":
        return "!" + f_str(f[1])
    return "(" + (" && " if k == "and" else " || ").join(f_str(x) for x in f[1]) + ")"


class Logic:
    """Formula construction over one Program."""

    def __init__(self, prog):
        self.prog = prog

    def opaque(self, body, n):
        return ("opaque", body.path + "|" + body.canon(n, 4))

    # -- boolean expressions ---------------------------------------------------------------
    def boolf(self, body, n, depth=24):
        if depth <= 0:
            return self.opaque(body, n)
        n = strip(n)
        k = n.get("k")
        rec = lambda x, b=body: self.boolf(b, x, depth - 1)
        if k == "Lit" and isinstance(n.get("v"), bool):
            return ("const", n["v"])
        if k == "Field":
            if n.get("adt") == RF:
                return ("flag", n["f"])
            if n.get("adt") == OPT and n["f"] == "use_core":
                return ("opt", "use_core")
            return self.opaque(body, n)
        if k == "Unary" and n["op"] == "!":
            return f_not(rec(n["e"]))
        if k == "Binary" and n["op"] == "&&":
            return f_and([rec(n["l"]), rec(n["r"])])
        if k == "Binary" and n["op"] == "||":
            return f_or([rec(n["l"]), rec(n["r"])])
        if k == "Binary" and n["op"] in ("==", "!="):
            for a, o in ((n["l"], n["r"]), (n["r"], n["l"])):
                o = strip(o)
                if o.get("k") == "Lit" and isinstance(o.get("v"), bool):
                    f = rec(a)
                    return f if (o["v"] == (n["op"] == "==")) else f_not(f)
            return self.opaque(body, n)
        if k == "Local":
            init = body.local_init(n["id"])
            if init is not None and body.ty(n) == "bool":
                return rec(init)
            return self.opaque(body, n)
        if k == "LetCond":
            pv = pat_variants(n["pat"])
            if pv and all(v.endswith("::Some") for v in pv):
                return self.somef(body, n["init"], depth - 1)
            if pv and all(v.endswith("::None") for v in pv):
                return f_not(self.somef(body, n["init"], depth - 1))
            return self.opaque(body, n)
        if k == "If" and "else" in n:
            c = rec(n["cond"])
            return f_or([f_and([c, rec(n["then"])]), f_and([f_not(c), rec(n["else"])])])
        if k == "Match" and body.ty(n["scrut"]) == "bool":
            s = rec(n["scrut"])
            alts = []
            for i, a in enumerate(n["arms"]):
                alts.append(f_and([self.bool_arm(body, n, i, s), rec(a["body"])]))
            return f_or(alts)
        if k == "Block" and n.get("tail") is not None and all(st["k"] == "Let" and "els" not in st for st in n["stmts"]):
            return rec(n["tail"])
        if k in ("Call", "MCall"):
            # call of a local zero-argument closure
            if k == "Call" and "f" in n and not n["args"]:
                f = strip(n["f"])
                if f.get("k") == "Local":
                    init = body.local_init(f["id"])
                    if init is not None and strip(init).get("k") == "Closure":
                        return rec(strip(init)["body"])
            # call of a straight-line helper function defined in the crate
            cb = self.prog.fn(callee_of(n)) if callee_of(n) else None
            if cb is not None and cb is not body and cb.ty(cb.root) is not None:
                tail = fn_tail(cb)
                if tail is not None and cb.ty(tail) == "bool":
                    f = self.boolf(cb, tail, depth - 2)
                    # the helper's parameters are not substituted: keep only what does not depend on them
                    if not self.mentions_param(cb, tail):
                        return f
            return self.opaque(body, n)
        return self.opaque(body, n)

    def mentions_param(self, body, n, depth=6):
        """does the (local-inlined) expression read a parameter other than through `.options()`-style chains
        ending in a RustFeatures / BindgenOptions field?  Parameters that are only used as the base of such a
        chain (`ctx`, `self`) do not matter for the flag's identity."""
        n = strip(n)
        k = n.get("k")
        if k == "Field" and (n.get("adt") == RF or (n.get("adt") == OPT and n["f"] == "use_core")):
            return False
        if k == "Local":
            init = body.local_init(n["id"])
            if init is not None and depth > 0:
                return self.mentions_param(body, init, depth - 1)
            return True
        if k == "Lit":
            return False
        from hir import kids
        return any(self.mentions_param(body, c, depth) for _, c in kids(n)) if depth > 0 else True

    def bool_arm(self, body, m, i, s):
        """condition on bool scrutinee formula `s` under which arm i of match m is taken (guards ignored ⇒ weaker)."""
        def lits(p):
            out = set()
            for v in pat_variants(p):
                if v == "lit:True":
                    out.add(True)
                elif v == "lit:False":
                    out.add(False)
                elif v == "_":
                    out |= {True, False}
            return out
        before = set()
        for a in m["arms"][:i]:
            if "guard" not in a:
                before |= lits(a["pat"])
        mine = lits(m["arms"][i]["pat"]) - before
        if mine == {True}:
            return s
        if mine == {False}:
            return f_not(s)
        if not mine:
            return F if lits(m["arms"][i]["pat"]) else T
        return T

    # -- "this Option is Some" -------------------------------------------------------------
    def somef(self, body, n, depth=24):
        if depth <= 0:
            return self.opaque(body, n)
        n = strip(n)
        k = n.get("k")
        rec = lambda x: self.somef(body, x, depth - 1)
        if k == "Local":
            init = body.local_init(n["id"])
            return rec(init) if init is not None else self.opaque(body, n)
        if k == "Path" and n["def"].endswith("::None"):
            return F
        if k == "Call" and (ctor_name(n) or "").endswith("::Some"):
            return T
        if k == "Block" and n.get("tail") is not None:
            return rec(n["tail"])
        if k == "If" and "else" in n:
            c = self.boolf(body, n["cond"], depth - 1)
            return f_or([f_and([c, rec(n["then"])]), f_and([f_not(c), rec(n["else"])])])
        if k == "Match" and body.ty(n["scrut"]) == "bool":
            s = self.boolf(body, n["scrut"], depth - 1)
            return f_or([f_and([self.bool_arm(body, n, i, s), rec(a["body"])]) for i, a in enumerate(n["arms"])])
        if k == "MCall" and n["name"] in ("then", "then_some") and body.ty(n["recv"]) == "bool":
            return self.boolf(body, n["recv"], depth - 1)
        if k == "MCall" and n["name"] in ("map", "inspect", "as_ref", "as_mut", "copied", "cloned") and \
                (body.ty(n["recv"]) or "").startswith("std::option::Option<"):
            return rec(n["recv"])
        if k == "MCall" and n["name"] in ("filter", "and_then", "and", "zip", "xor") and \
                (body.ty(n["recv"]) or "").startswith("std::option::Option<"):
            return f_and([rec(n["recv"]), self.opaque(body, n)])
        return self.opaque(body, n)

    # -- guard chain of a node ----------------------------------------------------------------
    def guardf(self, body, n):
        conj = []
        for pol, kind, g in body.guards(n):
            if kind == "cond":
                f = self.boolf(body, g)
                conj.append(f if pol else f_not(f))
            elif kind == "arm":
                m, i = g
                st = body.ty(m["scrut"]) or ""
                if st == "bool":
                    conj.append(self.bool_arm(body, m, i, self.boolf(body, m["scrut"])))
                elif st.startswith("std::option::Option<") or st.startswith("&std::option::Option<"):
                    pv = pat_variants(m["arms"][i]["pat"])
                    if pv and all(v.endswith("::Some") for v in pv):
                        conj.append(self.somef(body, m["scrut"]))
                    elif pv and all(v.endswith("::None") for v in pv):
                        conj.append(f_not(self.somef(body, m["scrut"])))
            elif kind == "letelse":
                pv = pat_variants(g["pat"])
                if pv and all(v.endswith("::Some") for v in pv) and g.get("init") is not None:
                    conj.append(self.somef(body, g["init"]))
        # conjuncts that mention no flag / option can only strengthen the guard: dropping them is sound
        return f_and([c for c in conj if f_relevant(c)])


def worlds(earliest):
    vs = {earliest, NIGHTLY}
    pts = [o.get("min_minor") for o in ORACLE["flags"].values()] + [o.get("min_minor") for o in ORACLE["constructs"].values()] + \
        list(ORACLE["editions"].values())
    for v in pts:
        if v is None:
            continue
        for x in (v - 1, v):
            if x >= earliest:
                vs.add(x)
    eds = sorted(int(y) for y in ORACLE["editions"])
    for t in sorted(vs):
        for e in eds:
            yield t, e


def entails(formula, req, earliest, only_if_core=False):
    """Does `formula` imply "target >= req" in every world consistent with the meaning of the flags?

    Theory: flag F true ⇒ target >= oracle(F).min and edition >= oracle(F).min_edition (R14.1 checks that the
    table honours this); a false flag implies nothing.  Returns (ok, counterexample text)."""
    atoms = sorted(f_atoms(formula))
    if len(atoms) > 14:
        return False, "guard too complex to decide (%d atoms)" % len(atoms)
    rv, red = req
    for t, e in worlds(earliest):
        need_ok = t >= rv and (red is None or e >= red)
        if need_ok:
            continue
        for bits in range(1 << len(atoms)):
            env = {}
            consistent = True
            for i, a in enumerate(atoms):
                val = bool(bits >> i & 1)
                env[a] = val
                if a[0] == "flag" and val:
                    fr = flag_req(a[1])
                    if fr is not None and not (t >= fr[0] and (fr[1] is None or e >= fr[1])):
                        consistent = False
                        break
            if not consistent:
                continue
            if only_if_core and ("opt", "use_core") in env and not env[("opt", "use_core")]:
                continue
            if f_eval(formula, env):
                on = [a[1] for a in atoms if a[0] == "flag" and env[a]]
                return False, "reachable with target %s, edition %d%s" % (
                    "nightly" if t >= NIGHTLY else "1.%d" % t, e, (", flags on: " + ",".join(on)) if on else "")
    return True, ""


# ---------------------------------------------------------------------------------------------
# per-program analysis shared by the rules
# ---------------------------------------------------------------------------------------------
_CACHE = {}


class Ctx:
    def __init__(self, prog):
        self.prog = prog
        self.logic = Logic(prog)
        names = set()
        for b in prog.bodies.values():
            for m in b.macros:
                nm = m["chain"].split("<")[-1]
                if nm.split("::")[-1] in ("quote", "parse_quote", "quote_spanned"):
                    names.add(nm)
        self.quote_names = names
        self._sites = None
        self._callers = None
        self._earliest = None
        self._consts = None

    # quote!/parse_quote! call sites: (body, root node, tokens)
    def sites(self):
        if self._sites is None:
            out = []
            for b in self.prog.bodies.values():
                if not b.macros:
                    continue
                for site, nm, n in b.macro_roots(self.quote_names):
                    out.append((b, n, macro_body_tokens(self.prog.text(site))))
            self._sites = out
        return self._sites

    def callers(self, path):
        if self._callers is None:
            idx = defaultdict(list)
            for b in self.prog.bodies.values():
                for n in b.nodes:
                    if n["k"] in ("Call", "MCall"):
                        for key in ("resolved", "callee"):
                            if n.get(key):
                                idx[n[key]].append((b, n))
                    elif n["k"] == "Path" and n.get("dk") in ("Fn", "AssocFn"):
                        par = b.parent[n["_i"]]
                        if not (par is not None and par["k"] == "Call" and par.get("f") is n):
                            idx[n["def"]].append((b, n))
            self._callers = idx
        return self._callers.get(path, [])

    def full_guard(self, body, n, depth=2):
        """guard of n inside its body, conjoined with the disjunction of the guards of the body's callers."""
        local = self.logic.guardf(body, n)
        if depth <= 0 or body.fact.get("trait_item") or body.kind not in ("Fn", "AssocFn"):
            return local
        cs = self.callers(body.path)
        if not cs:
            return local
        return f_and([local, f_or([self.full_guard(cb, cn, depth - 1) for cb, cn in cs])])

    # RustTarget constants
    def eval_target(self, body, n, depth=5):
        """value of a RustTarget-typed constant expression: minor (int) | NIGHTLY | None."""
        if depth <= 0 or n is None:
            return None
        n = strip(n)
        k = n.get("k")
        if k == "Block":
            return self.eval_target(body, n.get("tail"), depth) if not n["stmts"] else None
        if k == "Path":
            if n["def"] == VER_NIGHTLY:
                return NIGHTLY
            b2 = self.prog.fn(n["def"])
            return self.eval_target(b2, b2.root, depth - 1) if b2 is not None else None
        if k == "Call":
            c = ctor_name(n)
            if c == VER_STABLE and n["args"]:
                a = strip(n["args"][0])
                return a["v"] if a.get("k") == "Lit" and isinstance(a.get("v"), int) and not isinstance(a.get("v"), bool) else None
            if c is not None and body.ty(n) == RT and len(n["args"]) == 1:
                return self.eval_target(body, n["args"][0], depth - 1)
            if "f" in n and strip(n["f"]).get("k") == "Path" and strip(n["f"]).get("dk") == "SelfCtor" and len(n["args"]) == 1:
                return self.eval_target(body, n["args"][0], depth - 1)
            b2 = self.prog.fn(callee_of(n)) if callee_of(n) else None
            if b2 is not None and not n["args"]:
                return self.eval_target(b2, b2.root, depth - 1)
        return None

    def stable_consts(self):
        """{const path: minor} for every associated constant of RustTarget that is a stable release."""
        if self._consts is None:
            out = {}
            for p, b in self.prog.bodies.items():
                if b.kind.startswith("AssocConst") and b.fact.get("impl_self") == RT and b.ty(b.root) == RT:
                    v = self.eval_target(b, b.root)
                    if v is not None and v < NIGHTLY:
                        out[p] = v
            self._consts = out
        return self._consts

    def earliest(self):
        if self._earliest is None:
            cs = self.stable_consts()
            self._earliest = min(cs.values()) if cs else 0
        return self._earliest


def ctx_of(rep):
    c = _CACHE.get(id(rep.prog))
    if c is None:
        c = _CACHE[id(rep.prog)] = Ctx(rep.prog)
    return c


# ---------------------------------------------------------------------------------------------
# the feature table, read from the expanded RustFeatures::new
# ---------------------------------------------------------------------------------------------
def edition_tables(rep, cx):
    """({literal -> variant}, {variant -> (minor, oriented_ok)}) from FromStr / is_available."""
    prog = rep.prog
    fs = rep.need(prog.impl_fn("std::str::FromStr", RE, "from_str"), "impl FromStr for RustEdition")
    lit2var = {}
    for m in fs.walk():
        if m["k"] != "Match":
            continue
        for a in m["arms"]:
            for v in pat_variants(a["pat"]):
                if v.startswith("lit:"):
                    for x in fs.walk(a["body"]):
                        if x["k"] == "Path" and x["def"].startswith(RE + "::"):
                            lit2var[v[4:].strip("'\"")] = x["def"]
    av = rep.need(prog.fn(RE + "::is_available"), "RustEdition::is_available")
    var2min = {}
    for m in av.walk():
        if m["k"] != "Match" or param_index(av, m["scrut"]) != 0:
            continue
        for a in m["arms"]:
            e = strip(a["body"])
            for v in pat_variants(a["pat"]):
                if not v.startswith(RE + "::"):
                    continue
                if e.get("k") == "Lit" and e.get("v") is True:
                    var2min[v] = (0, True)
                    continue
                ok = False
                minor = None
                if e.get("k") == "Binary" and e["op"] in ("<=", ">=", "<", ">"):
                    l, r = strip(e["l"]), strip(e["r"])
                    lit, oth, lit_left = (l, r, True) if l.get("k") == "Lit" else (r, l, False)
                    if lit.get("k") == "Lit" and isinstance(lit.get("v"), int):
                        # `LIT <= minor` / `minor >= LIT` (strict forms are one release more conservative)
                        op = e["op"]
                        lower_bound = (lit_left and op in ("<=", "<")) or (not lit_left and op in (">=", ">"))
                        minor = lit["v"] + (1 if op in ("<", ">") else 0)
                        src = av.canon(oth)
                        ok = lower_bound and "RustTarget::minor(param:target)" in src.replace(RT + "::minor", "RustTarget::minor")
                var2min[v] = (minor, ok)
    return lit2var, var2min


def edition_year(lit2var, variant):
    ys = [int(l) for l, v in lit2var.items() if v == variant and l.isdigit()]
    return ys[0] if len(ys) == 1 else None


def read_table(rep, cx):
    """Rows of the feature table: one per assignment `features.<flag> = ..` in RustFeatures::new.

    row = {flag, node, value_true, min (int|NIGHTLY|None), editions (None = all | set of years), problems[]}"""
    prog = rep.prog
    new = rep.need(prog.fn(RF + "::new"), "RustFeatures::new")
    lit2var, _ = edition_tables(rep, cx)
    rows = []
    for n in new.walk():
        if n["k"] not in ("Assign", "AssignOp"):
            continue
        l = strip(n["l"])
        if not (l.get("k") == "Field" and l.get("adt") == RF):
            continue
        row = {"flag": l["f"], "node": n, "problems": [], "min": 0, "editions": None, "target_conds": 0}
        r = strip(n["r"])
        row["value_true"] = n["k"] == "Assign" and r.get("k") == "Lit" and r.get("v") is True
        for pol, kind, g in new.guards(n):
            if kind != "cond":
                row["problems"].append("enabled under a %s guard the rule cannot read" % kind)
                continue
            g = strip(g)
            if not pol:
                row["problems"].append("enabled under a negated condition `%s`" % new.canon(g, 3))
                continue
            if g.get("k") == "MCall" and is_call_to(g, "RustTarget::is_compatible"):
                if param_index(new, g["recv"]) != 0:
                    row["problems"].append("is_compatible is not applied to the `target` parameter")
                    continue
                v = cx.eval_target(new, g["args"][0])
                if v is None:
                    row["problems"].append("cannot evaluate the release in `%s`" % new.canon(g, 3))
                    continue
                row["min"] = max(row["min"], v)
                row["target_conds"] += 1
                continue
            eds = edition_cond(new, g, lit2var)
            if eds is not None:
                years, probs = eds
                row["problems"] += probs
                if years is not None:
                    row["editions"] = years if row["editions"] is None else (row["editions"] & years)
                continue
            row["problems"].append("enabled under a condition the rule cannot read: `%s`" % new.canon(g, 3))
        rows.append(row)
    return new, rows


def edition_cond(body, g, lit2var):
    """`eds.is_empty() || eds.contains(&edition)` → (None = every edition | set of years, problems) ; else None."""
    def slice_call(x, name):
        x = strip(x)
        return x if x.get("k") == "MCall" and x["name"] == name else None
    g = strip(g)
    parts = []
    stack = [g]
    while stack:
        x = strip(stack.pop())
        if x.get("k") == "Binary" and x["op"] == "||":
            stack += [x["l"], x["r"]]
        else:
            parts.append(x)
    cont = [p for p in parts if slice_call(p, "contains")]
    empt = [p for p in parts if slice_call(p, "is_empty")]
    if len(cont) != 1 or len(parts) != len(cont) + len(empt):
        return None
    c = cont[0]
    probs = []
    if param_index(body, c["args"][0]) != 1:
        probs.append("`contains` is not asked about the `edition` parameter")
    lst = strip(c["recv"])
    for e in empt:
        if body.canon(e["recv"]) != body.canon(c["recv"]):
            probs.append("`is_empty` and `contains` look at different lists")
    if lst.get("k") == "Local":
        init = body.local_init(lst["id"])
        lst = strip(init) if init is not None else lst
    if lst.get("k") != "Array":
        return (set(), probs + ["edition list is not an array literal"])
    if not lst["es"]:
        # empty list: `is_empty()` makes the flag edition-independent — only if that disjunct is present
        return ((None if empt else set()), probs)
    years = set()
    for el in lst["es"]:
        x = strip(el)
        while x.get("k") == "MCall" and x["name"] in ("expect", "unwrap", "ok", "parse", "unwrap_or_else"):
            x = strip(x["recv"])
        if x.get("k") == "Lit" and isinstance(x.get("v"), str) and x["v"] in lit2var:
            years.add(int(x["v"]))
        elif x.get("k") == "Path" and x["def"].startswith(RE + "::") and edition_year(lit2var, x["def"]) is not None:
            years.add(edition_year(lit2var, x["def"]))
        else:
            probs.append("cannot read edition list element `%s`" % body.canon(el, 3))
    return (years, probs)


# ---------------------------------------------------------------------------------------------
# R14.1
# ---------------------------------------------------------------------------------------------
@RULES.rule("R14.1", "feature / edition tables never enable anything before its stabilisation", floor=14)
def r14_1(rep):
    """Necessary: `RustFeatures::new(1.76, 2021)` must not set `offset_of`; moving `offset_of` from the
    `Stable_1_77` row to `Stable_1_73` makes `--rust-target 1.73` emit `offset_of!`, which rustc 1.73 rejects.
    Likewise `Edition2024 => 85`: lowering it to 80 accepts `--rust-target 1.80 --rust-edition 2024`."""
    cx = ctx_of(rep)
    prog = rep.prog
    new, rows = read_table(rep, cx)
    adt = rep.need(prog.adts.get(RF), "struct RustFeatures")
    fields = [f["name"] for f in adt["variants"][0]["fields"]]
    by_flag = defaultdict(list)
    for r in rows:
        by_flag[r["flag"]].append(r)
    # initial value of every flag
    init = {}
    for n in new.walk():
        if n["k"] == "Struct" and n.get("adt") == RF:
            for f in n["fs"]:
                e = strip(f["e"])
                init[f["f"]] = e.get("v") if e.get("k") == "Lit" else None
            if "base" in n:
                init["<base>"] = None
    table = {}
    for flag in fields:
        key = "flag:" + flag
        req = flag_req(flag)
        if req is None:
            rep.bad(key, "RustFeatures has a flag `%s` that oracle/rust_features.json does not know: add its stabilisation "
                    "point to the oracle" % flag, new.loc(new.root))
            continue
        probs = []
        if init.get(flag) is not False or "<base>" in init:
            probs.append("does not start as `false` in RustFeatures::new")
        desc = []
        for r in by_flag.get(flag, []):
            probs += r["problems"]
            if not r["target_conds"] and not r["problems"]:
                probs.append("enabled without any `target.is_compatible(..)` condition")
            if r["min"] is not None and r["min"] < req[0]:
                probs.append("enabled from %s on, but %s needs %s" % (fmt_req((r["min"], None)), flag, fmt_req(req)))
            if req[1] is not None:
                if r["editions"] is None:
                    probs.append("enabled for every edition, but needs edition >= %d" % req[1])
                elif any(y < req[1] for y in r["editions"]):
                    probs.append("enabled for edition(s) %s, but needs edition >= %d" % (sorted(r["editions"]), req[1]))
            desc.append(fmt_req((r["min"], None)) + ("" if r["editions"] is None else " editions %s" % sorted(r["editions"])))
        table[flag] = desc
        rep.check(not probs, key, "; ".join(probs) if probs else "enabled from %s (oracle: %s)" % (" / ".join(desc) or "never", fmt_req(req)),
                  new.loc(by_flag[flag][0]["node"]) if by_flag.get(flag) else new.loc(new.root))
    for flag in by_flag:
        if flag not in fields:
            rep.bad("flag:" + flag, "assignment to an unknown RustFeatures field", new.loc(new.root))
    rep.note("table", table)
    # editions
    lit2var, var2min = edition_tables(rep, cx)
    ead = rep.need(prog.adts.get(RE), "enum RustEdition")
    av = prog.fn(RE + "::is_available")
    for v in ead["variants"]:
        year = edition_year(lit2var, v["path"])
        key = "edition:%s" % (year if year is not None else v["name"])
        if year is None:
            rep.bad(key, "no `\"<year>\" => %s` row in RustEdition::from_str" % v["name"], av.loc(av.root))
            continue
        want = ORACLE["editions"].get(str(year))
        if want is None:
            rep.bad(key, "edition %d is unknown to oracle/rust_features.json" % year, av.loc(av.root))
            continue
        minor, ok = var2min.get(v["path"], (None, False))
        if minor is None or not ok:
            rep.bad(key, "cannot read `%s => <minor> <= target.minor()` in RustEdition::is_available" % v["name"], av.loc(av.root))
            continue
        rep.check(minor >= want, key, "edition %d accepted from 1.%d on (oracle: 1.%d)" % (year, minor, want), av.loc(av.root))


# ---------------------------------------------------------------------------------------------
# R14.2
# ---------------------------------------------------------------------------------------------
@RULES.rule("R14.2", "feature table is monotone in the target by construction", floor=17)
def r14_2(rep):
    """Necessary: with `features.thiscall_abi = false` under `is_compatible(Stable_1_82)` (or with
    `minor <= other_minor` in `is_compatible`) a thiscall function that is bound for 1.73 disappears for 1.82."""
    cx = ctx_of(rep)
    prog = rep.prog
    new, rows = read_table(rep, cx)
    for r in rows:
        probs = list(r["problems"])
        if not r["value_true"]:
            probs.append("a flag is assigned something other than the literal `true`")
        rep.check(not probs, "assign:" + r["flag"], "; ".join(probs) if probs else
                  "set to true under positive is_compatible(target, ..) / edition-only conditions", new.loc(r["node"]))
    # the value returned is the local that was filled in
    tail = strip(new.root.get("tail") or {})
    filled = {strip(strip(r["node"]["l"])["base"]).get("id") for r in rows}
    rep.check(tail.get("k") == "Local" and filled == {tail.get("id")}, "new-returns-filled-struct",
              "RustFeatures::new returns the struct whose flags it set", new.loc(new.root))
    # nobody else writes flags or builds the struct
    others = []
    for p, b in prog.bodies.items():
        if b is new or b.fact.get("impl_trait"):
            continue
        for n in b.nodes:
            if n["k"] == "Struct" and n.get("adt") == RF:
                others.append((b, n, "struct literal"))
            elif n["k"] in ("Assign", "AssignOp"):
                l = strip(n["l"])
                if l.get("k") == "Field" and l.get("adt") == RF:
                    others.append((b, n, "assignment to ." + l["f"]))
    for b, n, what in others:
        rep.bad("sole-writer:" + short(b), "RustFeatures %s outside RustFeatures::new: flags no longer follow the table" % what, b.loc(n))
    if not others:
        rep.ok("sole-writer", "RustFeatures values are only built in RustFeatures::new", new.loc(new.root))
    # is_compatible
    ic = rep.need(prog.fn(RT + "::is_compatible"), "RustTarget::is_compatible")
    m = strip(ic.root.get("tail") or ic.root)
    if m.get("k") != "Match" or strip(m["scrut"]).get("k") != "Tup" or len(strip(m["scrut"])["es"]) != 2:
        rep.bad("is_compatible:shape", "expected `match (self.0, other.0) { .. }`", ic.loc(ic.root))
        return
    sides = [param_index(ic, strip(e).get("base", {})) if strip(e).get("k") == "Field" else None for e in strip(m["scrut"])["es"]]
    if sorted(x for x in sides if x is not None) != [0, 1]:
        rep.bad("is_compatible:shape", "the scrutinee is not (self.0, other.0)", ic.loc(m))
        return
    slot = {sides[0]: 0, sides[1]: 1}  # param index -> tuple position

    def covers(p, want):
        vs = pat_variants(p)
        return "_" in vs or want in vs

    def first_arm(sv, ov):
        for a in m["arms"]:
            p = a["pat"]
            while p.get("k") == "PRef":
                p = p["p"]
            if p.get("k") in ("Wild", "Bind"):
                return a
            if p.get("k") != "PTuple":
                return None
            ps = p["ps"]
            if covers(ps[slot[0]], sv) and covers(ps[slot[1]], ov):
                return a if "guard" not in a else None
        return None

    def bound_from(n):
        """(param index, field) a pattern-bound local of the match comes from."""
        n = strip(n)
        if n.get("k") != "Local":
            return None
        d = ic.local_def.get(n["id"])
        if not d or d[0][0] != "arm" or d[0][1] is not m:
            return None
        path = d[1]
        if len(path) == 2 and path[0][0] == "tuple" and path[1][0] == VER_STABLE:
            pos = int(path[0][1])
            who = [pi for pi, sl in slot.items() if sl == pos][0]
            return (who, path[1][1])
        return None

    a = first_arm(VER_STABLE, VER_STABLE)
    ok = False
    detail = "no arm for (Stable, Stable)"
    if a is not None:
        e = strip(a["body"])
        detail = "(Stable(a, _), Stable(b, _)) => `%s`" % ic.canon(e, 2)
        if e.get("k") == "Binary" and e["op"] in (">=", "<="):
            l, r = bound_from(e["l"]), bound_from(e["r"])
            if e["op"] == "<=":
                l, r = r, l
            ok = l == (0, "0") and r == (1, "0")
            detail = "self.minor >= other.minor" if ok else detail
    rep.check(ok, "is_compatible:stable-stable", detail, ic.loc(m))
    for sv, ov, want, key in ((VER_NIGHTLY, VER_STABLE, True, "nightly-stable"), (VER_NIGHTLY, VER_NIGHTLY, True, "nightly-nightly"),
                              (VER_STABLE, VER_NIGHTLY, False, "stable-nightly")):
        a = first_arm(sv, ov)
        e = strip(a["body"]) if a is not None else {}
        rep.check(e.get("k") == "Lit" and e.get("v") is want, "is_compatible:" + key,
                  "must be the literal `%s`" % str(want).lower(), ic.loc(m))


# ---------------------------------------------------------------------------------------------
# R14.3 — emission sites
# ---------------------------------------------------------------------------------------------
C_INT_TYPES = {"c_char", "c_schar", "c_uchar", "c_short", "c_ushort", "c_int", "c_uint", "c_long", "c_ulong",
               "c_longlong", "c_ulonglong", "c_float", "c_double"}


def interp_local(body, root, name):
    """the Local node named `name` that a quote! expansion rooted at `root` interpolates."""
    for x in body.walk(root):
        if x["k"] == "Local" and x["name"] == name:
            return x
    return None


def prefix_may_be_core(body, root, tok):
    """(may be `core`, comes from an interpolated variable)."""
    if tok == "core":
        return True, False
    if tok.startswith("#"):
        loc = interp_local(body, root, tok[1:])
        if loc is None:
            return True, True
        src = body.canon(loc)
        if "lit:'std'" in src and "lit:'core'" not in src and "trait_prefix" not in src:
            return False, True
        return True, True
    return False, False


def recognise(body, root, toks):
    """constructs a quote! body emits: list of (construct id, matched token, only_if_core)."""
    out = []
    n = len(toks)
    for i, t in enumerate(toks):
        nxt = toks[i + 1] if i + 1 < n else ""
        if t == "offset_of" and nxt == "!":
            out.append(("offset_of_macro", "offset_of!", False))
        elif t == "from_bytes_with_nul_unchecked":
            out.append(("const_cstr_unchecked", t, False))
        elif t in ("for_value_raw", "size_of_val_raw", "align_of_val_raw"):
            out.append(("layout_for_value_raw", t, False))
        elif t == "to_raw_parts":
            out.append(("ptr_from_raw_parts", t, False))
        elif t in ("from_raw_parts", "from_raw_parts_mut"):
            owner = toks[i - 2] if i >= 2 and toks[i - 1] == "::" else ""
            if owner != "slice":
                out.append(("ptr_from_raw_parts", t, False))
        elif t == "c" and nxt.startswith('"'):
            out.append(("cstr_literal", "c\"..\"", False))
        elif t == "ffi" and i >= 2 and toks[i - 1] == "::" and nxt == "::" and i + 2 < n:
            core, via = prefix_may_be_core(body, root, toks[i - 2])
            if not core:
                continue
            item = toks[i + 2]
            if item == "c_void":
                out.append(("core_ffi_c_void", "core::ffi::c_void", via))
            elif item == "CStr":
                out.append(("core_ffi_cstr", "core::ffi::CStr", via))
            elif item in C_INT_TYPES or item.startswith("#") or item.startswith("c_"):
                out.append(("core_ffi_c_type", "core::ffi::" + item, via))
    return out


def extern_blocks(toks):
    """indices i of `extern` tokens that open an extern block: `extern ["abi" | #abi] {`."""
    out = []
    for i, t in enumerate(toks):
        if t != "extern":
            continue
        j = i + 1
        if j < len(toks) and (toks[j].startswith('"') or toks[j].startswith("#")):
            j += 1
        if j < len(toks) and toks[j] == "{":
            out.append(i)
    return out


def check_site(rep, cx, body, node, cid, what, only_if_core, seen):
    req = construct_req(cid)
    key = "%s:%s@%s" % (cid, what, short(body))
    seen[key] += 1
    if seen[key] > 1:
        key += "#%d" % seen[key]
    local = cx.logic.guardf(body, node)
    ok, cex = entails(local, req, cx.earliest(), only_if_core)
    g = local
    if not ok:
        g = cx.full_guard(body, node)
        if g != local:
            ok, cex = entails(g, req, cx.earliest(), only_if_core)
    rep.check(ok, key, ("guard %s implies target >= %s" % (f_str(g), fmt_req(req))) if ok else
              "`%s` needs Rust %s%s, but its guard %s does not imply that: %s" % (
                  what, fmt_req(req), " (when the prefix is `core`)" if only_if_core else "", f_str(g), cex), body.loc(node))
    return ok


@RULES.rule("R14.3", "every emission site of a gated construct is guarded by a flag that implies its stabilisation", floor=47)
def r14_3(rep):
    """Necessary: replacing `if compile_time { quote!{ offset_of!(..) } }` by an unconditional emission (or guarding
    it with `const_cstr`, 1.59) makes `--rust-target 1.70` bindings of any struct use `offset_of!`, which 1.70 rejects;
    dropping `if !thiscall_abi` from `FunctionSig::abi` emits `extern "thiscall"` for `--rust-target 1.64`."""
    cx = ctx_of(rep)
    prog = rep.prog
    seen = defaultdict(int)
    by_construct = defaultdict(int)
    # 1. token-level constructs in quote!/parse_quote! bodies
    for body, root, toks in cx.sites():
        for cid, what, via in recognise(body, root, toks):
            check_site(rep, cx, body, root, cid, what, via, seen)
            by_construct[cid] += 1
        # 2. `unsafe extern { }`
        for i in extern_blocks(toks):
            prev = toks[i - 1] if i > 0 else ""
            if prev == "unsafe":
                check_site(rep, cx, body, root, "unsafe_extern_block", "unsafe extern", False, seen)
                by_construct["unsafe_extern_block"] += 1
            elif prev.startswith("#"):
                n_unsafe = 0
                for sb, sn in unsafe_sources(cx, body, root, prev[1:]):
                    check_site(rep, cx, sb, sn, "unsafe_extern_block", "unsafe", False, seen)
                    by_construct["unsafe_extern_block"] += 1
                    n_unsafe += 1
                k = "extern-block@" + short(body)
                seen[k] += 1
                rep.ok(k + ("#%d" % seen[k] if seen[k] > 1 else ""),
                       "`%s extern {` — %d `unsafe` source(s) checked" % (prev, n_unsafe), body.loc(root))
            else:
                k = "extern-block@" + short(body)
                seen[k] += 1
                rep.ok(k + ("#%d" % seen[k] if seen[k] > 1 else ""), "extern block without `unsafe`", body.loc(root))
    # 3. calls that build gated tokens
    for body in prog.bodies.values():
        for c in body.calls(lambda n: n["k"] == "Call" and (n.get("callee") or "").endswith("Literal::c_string")):
            check_site(rep, cx, body, c, "cstr_literal", "Literal::c_string", False, seen)
            by_construct["cstr_literal"] += 1
    # 4. ABIs
    gated_abis = abi_rules(rep, cx)
    # 5. every flag of the table gates something (otherwise the recogniser lost the construct)
    adt = rep.need(prog.adts.get(RF), "struct RustFeatures")
    for f in adt["variants"][0]["fields"]:
        flag = f["name"]
        cons = [cid for cid, c in ORACLE["constructs"].items() if c.get("flag") == flag]
        n = sum(by_construct[c] for c in cons) + gated_abis.get(flag, 0)
        rep.check(n > 0, "flag-has-site:" + flag,
                  "%d guarded emission site(s)" % n if n else
                  "no emission site of the construct behind `%s` was found (constructs: %s): the recogniser no longer sees it" % (flag, cons or "ABI"))
    rep.note("sites", dict(by_construct))


def unsafe_sources(cx, body, root, name):
    """quote! sites that produce the `unsafe` keyword interpolated as #name in front of `extern {`."""
    loc = interp_local(body, root, name)
    if loc is None:
        return []
    lid = loc["id"]
    exprs = []
    d = body.local_def.get(lid)
    if d and d[0][0] == "let" and d[0][1].get("init") is not None:
        exprs.append(d[0][1]["init"])
    for n in body.nodes:
        if n["k"] == "Assign" and strip(n["l"]).get("k") == "Local" and strip(n["l"])["id"] == lid:
            exprs.append(n["r"])
    inside = set()
    helpers = []
    for e in exprs:
        for x in body.walk(e):
            inside.add(x["_i"])
            if x["k"] in ("Call", "MCall") and callee_of(x) and cx.prog.fn(callee_of(x)) is not None:
                helpers.append(cx.prog.fn(callee_of(x)))
    out = []
    for sb, sn, toks in cx.sites():
        if toks and toks[-1] == "unsafe":
            if sb is body and sn["_i"] in inside:
                out.append((sb, sn))
            elif any(sb is h for h in helpers):
                out.append((sb, sn))
    return out


def abi_rules(rep, cx):
    """ABI strings: Display table vs. oracle, the gate in FunctionSig::abi, and that nothing bypasses the gate."""
    prog = rep.prog
    adt = rep.need(prog.adts.get(ABI), "enum ir::function::Abi")
    disp = rep.need(prog.impl_fn("std::fmt::Display", ABI, "fmt"), "impl Display for Abi")
    var2str = {}
    for m in disp.walk():
        if m["k"] != "Match":
            continue
        for a in m["arms"]:
            e = strip(a["body"])
            if e.get("k") == "Lit" and isinstance(e.get("v"), str):
                for v in pat_variants(a["pat"]):
                    if v.startswith(ABI + "::"):
                        var2str[v] = e["v"]
    need = {}  # variant path -> flag
    for v in adt["variants"]:
        s = var2str.get(v["path"])
        key = "abi-string:" + v["name"]
        if s is None:
            rep.bad(key, "no string for this variant in `impl Display for Abi`", disp.loc(disp.root))
            continue
        if s not in ORACLE["abi_strings"] or s == "_about":
            rep.bad(key, "ABI string \"%s\" is unknown to oracle/rust_features.json" % s, disp.loc(disp.root))
            continue
        flag = ORACLE["abi_strings"][s]
        if flag:
            need[v["path"]] = flag
        rep.ok(key, "\"%s\" — %s" % (s, ("needs " + flag) if flag else "always available"), disp.loc(disp.root))
    # Abi reaches tokens only through its own ToTokens (uses Display) — and that is only called for ClangAbi::Known
    tt = rep.need(prog.impl_fn("quote::ToTokens", ABI, "to_tokens"), "impl ToTokens for Abi")
    uses_display = any(is_call_to(c, "to_string") or "Display" in callee_of(c) for c in tt.calls())
    rep.check(uses_display, "abi-tokens-from-display", "`impl ToTokens for Abi` prints the Display string", tt.loc(tt.root))
    # the gate
    gate = rep.need(prog.fn(FSIG + "::abi"), "FunctionSig::abi")
    gated = defaultdict(int)
    matches = [m for m in gate.walk() if m["k"] == "Match" and (gate.ty(m["scrut"]) or "").endswith("ir::function::ClangAbi")]
    rep.need(matches, "match on a ClangAbi in FunctionSig::abi")
    m = matches[-1]
    tail = strip(gate.root.get("tail") or {})
    rets = [n for n in gate.walk() if n["k"] == "Ret"]
    rep.check(tail is m and not rets, "abi-gate-is-result",
              "the gating `match` is the only way a value leaves FunctionSig::abi", gate.loc(m))

    def covers(p, variant):
        """does pattern p (on ClangAbi) match ClangAbi::Known(variant)?"""
        while p.get("k") == "PRef":
            p = p["p"]
        k = p.get("k")
        if k in ("Wild",):
            return True
        if k == "Bind":
            return covers(p["sub"], variant) if "sub" in p else True
        if k == "POr":
            return any(covers(q, variant) for q in p["ps"])
        if k == "PTupleStruct" and (p["res"].get("ctor_of") or p["res"].get("def")) == CLANG_ABI_KNOWN:
            vs = pat_variants(p["ps"][0]) if p["ps"] else {"_"}
            return "_" in vs or variant in vs
        return False

    for v in adt["variants"]:
        flag = need.get(v["path"])
        if not flag:
            continue
        req = flag_req(flag)
        key = "abi-gate:" + v["name"]
        path_cond = []
        verdict = None
        for a in m["arms"]:
            if not covers(a["pat"], v["path"]):
                continue
            g = cx.logic.boolf(gate, a["guard"]) if "guard" in a else T
            if not is_err_value(gate, a["body"]):
                f = f_and(path_cond + [g])
                ok, cex = entails(f, req, cx.earliest())
                if not ok:
                    verdict = (False, "`Abi::%s` (\"%s\") can leave FunctionSig::abi as Ok under %s, which does not imply %s (%s): %s" % (
                        v["name"], var2str[v["path"]], f_str(f), flag, fmt_req(req), cex), gate.loc(a["body"]))
                    break
            if "guard" not in a:
                break
            path_cond.append(f_not(g))
        if verdict is None:
            rep.ok(key, "Ok(%s) only under %s" % (v["name"], flag), gate.loc(m))
            gated[flag] += 1
        else:
            rep.bad(key, verdict[1], verdict[2])
    # nothing bypasses the gate: the stored ABI is only read by FunctionSig's own methods, and outside
    # FunctionSig::abi only to be inspected (match / comparison), never passed on
    for p, b in prog.bodies.items():
        if b.fact.get("impl_trait", "").startswith("std::fmt::"):
            continue
        for n in b.nodes:
            if n["k"] == "Field" and n.get("adt") == FSIG and n["f"] == "abi":
                if b is gate:
                    continue
                par = b.parent[n["_i"]]
                while par is not None and par["k"] in ("AddrOf", "Unary", "Cast"):
                    par = b.parent[par["_i"]]
                inspected = par is not None and ((par["k"] == "Match" and strip(par["scrut"]) is n) or
                                                 (par["k"] == "Binary" and par["op"] in ("==", "!=")) or
                                                 (par["k"] == "MCall" and par["name"] in ("is_unknown", "eq", "ne")))
                written = par is not None and par["k"] == "Assign" and strip(par["l"]) is n
                rep.check(inspected or written, "abi-field-read:" + short(b),
                          "FunctionSig.abi is only inspected here, not handed on" if inspected or written else
                          "FunctionSig.abi is read outside FunctionSig::abi and handed on: the target check is skipped", b.loc(n))
    # every `extern #abi` interpolates a ClangAbi (whose only Known values come through the gate)
    for body, root, toks in cx.sites():
        for i, t in enumerate(toks):
            if t == "extern" and i + 1 < len(toks) and toks[i + 1].startswith("#"):
                loc = interp_local(body, root, toks[i + 1][1:])
                ty = (body.ty(loc) or "").lstrip("&") if loc is not None else "?"
                key = "abi-interp@" + short(body)
                if ty == "ir::function::ClangAbi":
                    src = origin_is_gate(cx, body, loc)
                    rep.check(src, key, "`extern %s` interpolates the result of FunctionSig::abi" % toks[i + 1] if src else
                              "`extern %s` interpolates a ClangAbi that does not come from FunctionSig::abi" % toks[i + 1], body.loc(root))
                else:
                    rep.bad(key, "`extern %s` interpolates a `%s`, not the ClangAbi checked by FunctionSig::abi" % (toks[i + 1], ty), body.loc(root))
            elif t == "extern" and i + 1 < len(toks) and toks[i + 1].startswith('"'):
                s = toks[i + 1].strip('"')
                flag = ORACLE["abi_strings"].get(s, "?")
                if flag == "?":
                    rep.bad("abi-literal:%s@%s" % (s, short(body)), "literal ABI \"%s\" unknown to the oracle" % s, body.loc(root))
                elif flag:
                    ok, cex = entails(cx.full_guard(body, root), flag_req(flag), cx.earliest())
                    rep.check(ok, "abi-literal:%s@%s" % (s, short(body)), "literal ABI \"%s\" needs %s: %s" % (s, flag, cex or "guarded"), body.loc(root))
                    if ok:
                        gated[flag] += 1
    return gated


def origin_is_gate(cx, body, loc, depth=2):
    """does the ClangAbi local come from a call of FunctionSig::abi (directly, or through a parameter whose
    every caller passes such a value)?"""
    src = body.canon(loc, 8)
    if (FSIG + "::abi(") in src:
        return True
    pi = param_index(body, loc)
    if pi is None or depth <= 0:
        return False
    cs = [(b, n) for b, n in cx.callers(body.path) if n["k"] in ("Call", "MCall")]
    if not cs:
        return False
    for b, n in cs:
        args = ([n["recv"]] if n["k"] == "MCall" else []) + n["args"]
        if pi >= len(args):
            return False
        a = strip(args[pi])
        if (FSIG + "::abi(") in b.canon(a, 8):
            continue
        if a.get("k") == "Local" and origin_is_gate(cx, b, a, depth - 1):
            continue
        return False
    return True


# ---------------------------------------------------------------------------------------------
# R14.4 — edition validation, synchronisation, defaults
# ---------------------------------------------------------------------------------------------
@RULES.rule("R14.4", "edition validated before the table is consulted; defaults are the newest known release / edition", floor=29)
def r14_4(rep):
    """Necessary: without the `!edition.is_available(target)` early return, `--rust-target 1.70 --rust-edition 2024`
    produces bindings instead of `UnsupportedEdition`; with `RustTarget::default()` returning `EARLIEST_STABLE_RUST`
    a plain `bindgen h.h` silently falls back to 1.51 output."""
    cx = ctx_of(rep)
    prog = rep.prog
    gen = rep.need(prog.fn("Builder::generate"), "Builder::generate")
    news = [c for c in gen.calls(lambda n: is_call_to(n, RF + "::new"))]
    latest = [c for c in gen.calls(lambda n: is_call_to(n, RF + "::new_with_latest_edition"))]
    rep.check(bool(news or latest), "generate:computes-features", "Builder::generate calls RustFeatures::new*", gen.loc(gen.root))

    def is_target(n):
        n = resolve_local(gen, n)
        return n.get("k") == "Field" and n.get("adt") == OPT and n["f"] == "rust_target" and "param:self" in gen.canon(n)

    for c in news:
        tgt, ed = c["args"][0], c["args"][1]
        ok_t = is_target(tgt)
        checked = False
        for pol, kind, g in gen.guards(c):
            if kind != "cond":
                continue
            g = strip(g)
            neg = 0
            while g.get("k") == "Unary" and g["op"] == "!":
                g = strip(g["e"])
                neg += 1
            if is_call_to(g, RE + "::is_available") and (pol == (neg % 2 == 0)):
                if gen.canon(g["recv"]) == gen.canon(ed) and gen.canon(g["args"][0]) == gen.canon(tgt):
                    checked = True
        rep.check(ok_t, "generate:new-uses-selected-target", "RustFeatures::new(%s, ..)" % gen.canon(tgt, 3), gen.loc(c))
        rep.check(checked, "generate:edition-checked-before-new",
                  "RustFeatures::new(target, edition) runs only when edition.is_available(target) holds", gen.loc(c))
    for c in latest:
        rep.check(is_target(c["args"][0]), "generate:latest-uses-selected-target",
                  "RustFeatures::new_with_latest_edition(%s)" % gen.canon(c["args"][0], 3), gen.loc(c))
    # the rejecting branch returns the error
    rej = []
    for n in gen.walk():
        if n["k"] == "Ret" and "e" in n and "BindgenError::UnsupportedEdition" in gen.canon(n["e"], 4):
            for pol, kind, g in gen.guards(n):
                if kind == "cond":
                    f = strip(g)
                    neg = 0
                    while f.get("k") == "Unary" and f["op"] == "!":
                        f = strip(f["e"])
                        neg += 1
                    if is_call_to(f, RE + "::is_available") and (pol != (neg % 2 == 0)):
                        rej.append(n)
    rep.check(bool(rej) and all(is_err_value(gen, n) for n in rej), "generate:unsupported-edition-is-error",
              "`return Err(BindgenError::UnsupportedEdition(..))` under !edition.is_available(target)", gen.loc(gen.root))
    # the explicit edition is the one that is validated and used
    eds = [m for m in gen.walk() if m["k"] == "Match" and strip(m["scrut"]).get("k") == "Field" and
           strip(m["scrut"]).get("adt") == OPT and strip(m["scrut"])["f"] == "rust_edition"]
    conds = [n for n in gen.walk() if n["k"] == "LetCond" and strip(n["init"]).get("k") == "Field" and
             strip(n["init"]).get("adt") == OPT and strip(n["init"])["f"] == "rust_edition"]
    rep.check(bool(eds or conds) and all("rust_edition" in gen.canon(c["args"][1]) for c in news), "generate:edition-from-options",
              "the edition handed to RustFeatures::new is options.rust_edition", gen.loc(gen.root))
    # synchronisation: unconditional, before the bindings are generated, sole writer
    assigns = []
    for p, b in prog.bodies.items():
        for n in b.nodes:
            if n["k"] == "Assign":
                l = strip(n["l"])
                if l.get("k") == "Field" and l.get("adt") == OPT and l["f"] == "rust_features":
                    assigns.append((b, n))
    mine = [n for b, n in assigns if b is gen]
    rep.check(len(mine) == 1 and not [g for g in gen.guards(mine[0]) if g[1] != "letelse"], "generate:sync-unconditional",
              "options.rust_features is recomputed unconditionally in Builder::generate", gen.loc(mine[0]) if mine else gen.loc(gen.root))
    if mine:
        lv = value_leaves(gen, mine[0]["r"])
        stale = [x for x in lv if not (is_call_to(x, RF + "::new") or is_call_to(x, RF + "::new_with_latest_edition"))]
        rep.check(bool(lv) and not stale, "generate:sync-from-table",
                  "every value stored in options.rust_features is RustFeatures::new*(..)" if not stale else
                  "options.rust_features may keep `%s`, which was not computed from the selected target" % gen.canon(stale[0], 3),
                  gen.loc(stale[0]) if stale else gen.loc(mine[0]))
        use = [c for c in gen.calls(lambda n: is_call_to(n, "Bindings::generate"))]
        rep.check(bool(use) and all(c["_i"] > mine[0]["_i"] for c in use), "generate:sync-before-codegen",
                  "Bindings::generate runs after the synchronisation", gen.loc(use[0]) if use else gen.loc(gen.root))
    foreign = [(b, n) for b, n in assigns if b is not gen]
    for b, n in foreign:
        rep.bad("rust_features-writer:" + short(b), "options.rust_features is also written here; it may disagree with (target, edition)", b.loc(n))
    if not foreign:
        rep.ok("rust_features-sole-writer", "only Builder::generate assigns options.rust_features")
    # new_with_latest_edition / latest_edition
    nwl = rep.need(prog.fn(RF + "::new_with_latest_edition"), "RustFeatures::new_with_latest_edition")
    cs = [c for c in nwl.calls(lambda n: is_call_to(n, RF + "::new"))]
    ok = False
    for c in cs:
        e = strip(c["args"][1])
        ok = param_index(nwl, c["args"][0]) == 0 and is_call_to(e, RT + "::latest_edition") and param_index(nwl, e["recv"]) == 0
    rep.check(ok, "latest:new(target, target.latest_edition())", "same target for the table and for the edition", nwl.loc(nwl.root))
    le = rep.need(prog.fn(RT + "::latest_edition"), "RustTarget::latest_edition")
    lit2var, var2min = edition_tables(rep, cx)
    src = le.canon(le.root.get("tail") or le.root, 10)
    allc = prog.fn(RE + "::ALL")
    order = []
    if allc is not None:
        arr = strip(allc.root)
        if arr.get("k") == "Array":
            order = [var2min.get(strip(e).get("def"), (None, False))[0] for e in arr["es"]]
    ascending = bool(order) and None not in order and order == sorted(order)
    finds = [c for c in le.calls(lambda n: n["k"] == "MCall" and n["name"] in ("find", "rfind", "filter", "rposition", "take_while", "skip_while"))]
    newest_first = False
    avail = False
    for c in finds:
        chain = le.canon(c["recv"], 8)
        rev = "Iterator::rev(" in chain or c["name"] == "rfind"
        newest_first = (RE + "::ALL") in chain and ((ascending and rev and c["name"] in ("find", "rfind")) or
                                                    (bool(order) and order == sorted(order, reverse=True) and not rev and c["name"] == "find"))
        clo = strip(c["args"][0]) if c["args"] else {}
        if clo.get("k") == "Closure":
            e = strip(clo["body"])
            if is_call_to(e, RE + "::is_available") and param_index(le, e["args"][0]) == 0:
                r = strip(e["recv"])
                d = le.local_def.get(r.get("id")) if r.get("k") == "Local" else None
                avail = bool(d) and d[0][0] == "cparam"
    rep.check(newest_first, "latest_edition:newest-first", "searches RustEdition::ALL (ascending: %s) from the newest edition: %s" % (order, src[:160]), le.loc(le.root))
    rep.check(avail, "latest_edition:only-available", "picks an edition for which is_available(self) holds", le.loc(le.root))
    ead = rep.need(prog.adts.get(RE), "enum RustEdition")
    listed = {strip(e).get("def") for e in strip(allc.root)["es"]} if allc is not None and strip(allc.root).get("k") == "Array" else set()
    rep.check(listed == {v["path"] for v in ead["variants"]}, "latest_edition:ALL-complete", "RustEdition::ALL lists every edition", le.loc(le.root))
    # defaults
    dt = rep.need(prog.impl_fn("std::default::Default", RT, "default"), "impl Default for RustTarget")
    tail = strip(dt.root.get("tail") or {})
    rep.check(tail.get("k") == "Path" and tail["def"] == "features::LATEST_STABLE_RUST", "default-target:latest-stable",
              "RustTarget::default() falls through to LATEST_STABLE_RUST", dt.loc(dt.root))
    de = rep.need(prog.impl_fn("std::default::Default", RE, "default"), "impl Default for RustEdition")
    t = strip(de.root.get("tail") or {})
    rep.check(is_call_to(t, RT + "::latest_edition") and "Default>::default" in de.canon(t["recv"]) and RT in de.canon(t["recv"]),
              "default-edition:latest-of-default-target", "RustEdition::default() = RustTarget::default().latest_edition()", de.loc(de.root))
    dfe = rep.need(prog.impl_fn("std::default::Default", RF, "default"), "impl Default for RustFeatures")
    t = strip(dfe.root.get("tail") or {})
    rep.check(is_call_to(t, RF + "::new_with_latest_edition") and RT in dfe.canon(t["args"][0]) and "Default>::default" in dfe.canon(t["args"][0]),
              "default-features:latest-of-default-target", "RustFeatures::default() = new_with_latest_edition(RustTarget::default())", dfe.loc(dfe.root))
    do = rep.need(prog.impl_fn("std::default::Default", OPT, "default"), "impl Default for BindgenOptions")
    lits = [n for n in do.walk() if n["k"] == "Struct" and n.get("adt") == OPT]
    rep.need(lits, "BindgenOptions literal in Default")
    fs = {f["f"]: f["e"] for f in lits[0]["fs"]}
    want = {"rust_target": "<%s as std::default::Default>::default(" % RT,
            "rust_edition": None,
            "rust_features": "<%s as std::default::Default>::default(" % RF}
    for f, w in want.items():
        e = fs.get(f)
        if e is None:
            rep.bad("default-option:" + f, "field missing from the Default literal", do.loc(lits[0]))
            continue
        src = do.canon(e)
        if w is None:
            ok = src.endswith("::None") or "Option<T> as std::default::Default>::default(" in src
        else:
            ok = src.startswith(w)
        rep.check(ok, "default-option:" + f, "default is `%s`" % src[:100], do.loc(e))
    # LATEST_STABLE_RUST is the maximum of stable_releases(), which lists every release constant with its own minor
    consts = cx.stable_consts()
    sr = rep.need(prog.fn(RT + "::stable_releases"), "RustTarget::stable_releases")
    arr = strip(sr.root.get("tail") or sr.root)
    listed = {}
    if arr.get("k") == "Array":
        for e in arr["es"]:
            e = strip(e)
            if e.get("k") == "Tup" and len(e["es"]) == 2:
                c, l = strip(e["es"][0]), strip(e["es"][1])
                listed[c.get("def")] = l.get("v")
    for p, minor in sorted(consts.items()):
        if p.endswith("::Nightly"):
            continue
        rep.check(listed.get(p) == minor, "stable_releases:" + p.split("::")[-1],
                  "listed with minor %s (constant is 1.%d)" % (listed.get(p), minor), sr.loc(sr.root))
    ls = rep.need(prog.fn("features::LATEST_STABLE_RUST"), "const LATEST_STABLE_RUST")
    uses = any(is_call_to(c, RT + "::stable_releases") for c in ls.calls())
    ok = False
    for n in ls.walk():
        if n["k"] == "If" and strip(n["cond"]).get("k") == "Binary" and strip(n["cond"])["op"] in ("<", ">", "<=", ">="):
            c = strip(n["cond"])
            l, r = strip(c["l"]), strip(c["r"])
            if c["op"] in (">", ">="):
                l, r = r, l
            # l < r : `best < candidate` ⇒ then-branch stores the candidate into `best`
            if l.get("k") == "Local" and r.get("k") == "Local":
                for a in ls.walk(n["then"]):
                    if a["k"] == "Assign" and strip(a["l"]).get("id") == l["id"] and strip(a["r"]).get("id") == r["id"]:
                        ok = True
    rep.check(uses and ok, "latest-stable:is-maximum", "LATEST_STABLE_RUST keeps the release with the largest minor of stable_releases()", ls.loc(ls.root))


# ---------------------------------------------------------------------------------------------------------
# R14.5  is_available answers from the edition table for every numbered target
# ---------------------------------------------------------------------------------------------------------
def _minor_of_target(av, e):
    e = resolve_local(av, e)
    return is_call_to(e, RT + "::minor") and param_index(av, e["recv"]) == 1


def _only_without_minor(av, n):
    """n executes only when `target.minor()` is None (nightly): inside the `else` of `let Some(..) = target.minor()`
    or in the `None` arm of a match / if-let on it."""
    child = n
    for a in av.ancestors(n):
        role = av.role[child["_i"]]
        if a["k"] == "Let" and role == "els" and _minor_of_target(av, a.get("init") or {}):
            pv = pat_variants(a["pat"])
            if any(v.endswith("::Some") for v in pv):
                return True
        if a["k"] == "Match" and isinstance(role, tuple) and role[0] == "arm" and _minor_of_target(av, a["scrut"]):
            pv = pat_variants(a["arms"][role[1]]["pat"])
            if pv and all(v.endswith("::None") for v in pv):
                return True
        if a["k"] == "If" and role == "else" and strip(a["cond"]).get("k") == "LetCond":
            c = strip(a["cond"])
            if _minor_of_target(av, c["init"]) and any(v.endswith("::Some") for v in pat_variants(c["pat"])):
                return True
        child = a
    return False


@RULES.rule("R14.5", "RustEdition::is_available answers from the edition table for every numbered target", floor=3)
def r14_5(rep):
    """Necessary: the only target without a minor version is nightly; for every `1.N` the answer has to be the row comparison
    `first_minor <= N`.  An extra exit (`if !LATEST_STABLE_RUST.is_compatible(&target) { return true }`) makes
    `--rust-target 1.83 --rust-edition 2024` generate edition-2024 bindings instead of failing with UnsupportedEdition, and
    turns `latest_edition()` of 1.83/1.84 into 2024."""
    prog = rep.prog
    av = rep.need(prog.fn(RE + "::is_available"), "RustEdition::is_available")
    exits = [(n, n.get("e")) for n in av.walk() if n["k"] == "Ret"]
    root = av.root
    tails = value_leaves(av, root) if root.get("k") == "Block" else [root]
    table = 0
    for n, e in exits + [(t, t) for t in tails]:
        if e is None:
            continue
        for leaf in value_leaves(av, resolve_local(av, e)) or [strip(e)]:
            leaf = resolve_local(av, leaf)
            where = av.loc(leaf)
            if leaf.get("k") == "Lit" and leaf.get("v") is True:
                # a `true` arm of the table match is read by edition_tables (minimum 0); anything else must be the nightly exit
                in_table = any(a["k"] == "Match" and param_index(av, a["scrut"]) == 0 for a in av.ancestors(leaf))
                rep.check(in_table or _only_without_minor(av, n), "is_available:true-only-for-nightly",
                          "`true` is answered only where target.minor() is None (nightly)", where)
            elif leaf.get("k") == "Lit" and leaf.get("v") is False:
                rep.ok("is_available:false-exit", "a rejecting exit cannot enable an unsupported edition")
            elif leaf.get("k") == "Binary" and leaf["op"] in ("<=", ">=", "<", ">") and \
                    any(a["k"] == "Match" and param_index(av, a["scrut"]) == 0 for a in av.ancestors(leaf)):
                table += 1
                rep.ok("is_available:row@%d" % table, "table row `%s`" % av.canon(leaf, 3))
            else:
                rep.bad("is_available:unreadable-exit", "exit value `%s` is neither the nightly exit nor a row of the edition table"
                        % av.canon(leaf, 4)[:120], where)
    rep.need(table >= 3, "edition table rows in is_available (2018, 2021, 2024)")


@RULES.rule("R14.6", "a `-nightly` target is the release before it in every spelling: no successful exit of FromStr skips the adjustment", floor=2)
def r14_6(rep):
    """`1.82.0-nightly` may lack what 1.82.0 stabilised, so `FromStr for RustTarget` maps it to `1.81.<max>`.  That has to hold for the
    short spelling too: an early `return Self::stable(minor, 0)` for `1.NN` (no patch component) placed before the adjustment makes
    `--rust-target 1.82-nightly` emit `unsafe extern`, `1.77-nightly` emit `offset_of!` / `c\"..\"` literals, and accepts
    `1.85-nightly` with edition 2024."""
    prog = rep.prog
    b = rep.need(prog.impl_fn("std::str::FromStr", RT, "from_str"), "impl FromStr for RustTarget")
    # the adjustment: `if <pre-release> == "nightly" { .. minor = .. - 1 .. }`
    adj = []
    for n in b.nodes:
        if n["k"] != "If":
            continue
        c = strip(n["cond"])
        if c.get("k") == "Binary" and c["op"] == "==" and any(strip(x).get("k") == "Lit" and strip(x).get("v") == "nightly" for x in (c["l"], c["r"])):
            other = strip(c["r"]) if strip(c["l"]).get("k") == "Lit" else strip(c["l"])
            whole = param_index(b, other) == 0
            dec = any(x["k"] == "MCall" and x.get("name") in ("checked_sub", "saturating_sub", "wrapping_sub") or
                      (x["k"] in ("Binary", "AssignOp") and x.get("op") in ("-", "-=")) for x in b.walk(n["then"]))
            if not whole and dec:
                adj.append(n)
    rep.check(len(adj) == 1, "nightly-adjustment-present", "one `if pre_release == \"nightly\" { minor -= 1; patch = MAX }` block (found %d)" % len(adj), b.loc(b.root))
    if len(adj) != 1:
        return
    a = adj[0]
    n_exits = 0
    for r in b.nodes:
        if r["k"] != "Ret" or "e" not in r or any(x["k"] == "Closure" for x in b.ancestors(r)):
            continue
        v = strip(r["e"])
        if v.get("k") == "Call" and str(v.get("ctor") or v.get("callee") or "").endswith("::Err"):
            continue
        n_exits += 1
        whole_nightly = any(kind == "cond" and pol and param_index(b, strip(strip(g).get("l", {}))) == 0 and strip(strip(g).get("r", {})).get("v") == "nightly"
                            for pol, kind, g in b.guards(r) if strip(g).get("k") == "Binary")
        inside = any(x is a for x in b.ancestors(r))
        ok = whole_nightly or r["_i"] > a["_i"] or inside
        rep.check(ok, "success-exit-after-adjustment:%d" % n_exits,
                  "the plain `nightly` exit" if whole_nightly else "after the adjustment" if ok else
                  "`return %s` can succeed before the `-nightly` adjustment has run: that spelling of a nightly target is taken for the stable release"
                  % b.canon(v, 3)[:60], b.loc(r))
    rep.check(True, "tail-after-adjustment", "the final result is computed after the adjustment")


# ---------------------------------------------------------------------------------------------------------
# R14.7  the helper type that is pasted verbatim into every bindings file with bit-fields
# ---------------------------------------------------------------------------------------------------------
HELPER_FEATURES = {
    # construct -> (first stable minor, how it is recognised)
    "usize::BITS": 53,
    "panic in const fn (assert!/debug_assert!/panic! inside `const fn`)": 57,
}


@RULES.rule("R14.7", "the `__BindgenBitfieldUnit` text uses nothing newer than the earliest supported target", floor=2)
def r14_7(rep):
    """`codegen/bitfield_unit.rs` is emitted as is for EVERY target (nothing in it is gated), so it may only use what the earliest
    supported release has.  `usize::BITS` is 1.53 and a panicking macro inside `const fn get_const` needs const panics (1.57): with
    `--rust-target 1.51` … `1.56` any header with a bit-field yields bindings that compiler rejects."""
    import facts as facts_mod
    from hir import Program
    prog = rep.prog
    consts = ctx_of(rep).stable_consts()
    earliest = rep.need(prog.fn("features::EARLIEST_STABLE_RUST"), "const EARLIEST_STABLE_RUST")
    src = earliest.canon(earliest.root, 6)
    m = re.search(r"Stable_1_(\d+)", src)
    lo = int(m.group(1)) if m else min(v for k, v in consts.items() if not k.endswith("Nightly"))
    rep.note("earliest_minor", lo)
    f, info = facts_mod.load_file("bindgen/codegen/bitfield_unit.rs", "bitfield_unit")
    hp = Program(f)
    text = open(os.path.join(facts_mod.REPO, "bindgen/codegen/bitfield_unit.rs")).read().splitlines()
    n_bodies = 0
    uses = {}
    for p, b in sorted(hp.bodies.items()):
        n_bodies += 1
        name = p.split("::")[-1]
        line = text[b.line - 1] if 0 < b.line <= len(text) else ""
        is_const_fn = re.search(r"\bconst\s+(unsafe\s+)?fn\s+" + re.escape(name) + r"\b", line) is not None
        for n in b.nodes:
            if n["k"] == "Path" and str(n.get("def", "")).endswith("::BITS") and "usize" in str(n.get("def", "")):
                uses.setdefault("usize::BITS", []).append((b, n))
            if is_const_fn and (b.macro_name(n) or "") in ("debug_assert", "assert", "panic", "unreachable", "assert_eq", "debug_assert_eq") and \
                    n["k"] in ("Call",) and "panic" in str(n.get("callee") or ""):
                uses.setdefault("panic in const fn (assert!/debug_assert!/panic! inside `const fn`)", []).append((b, n))
    rep.need(n_bodies >= 14, "bodies of bitfield_unit.rs")
    for feat, since in sorted(HELPER_FEATURES.items()):
        sites = uses.get(feat, [])
        if not sites:
            rep.ok("helper-feature:" + feat.split(" ")[0], "not used")
            continue
        fns = sorted({b.path.split("::")[-1] for b, _ in sites})
        rep.check(since <= lo, "helper-feature:" + feat.split(" ")[0],
                  "`%s` (since 1.%d) is used in %s; the earliest supported target is 1.%d" % (feat, since, ", ".join(fns), lo) if since > lo else
                  "since 1.%d <= earliest supported 1.%d" % (since, lo), "bindgen/codegen/bitfield_unit.rs:%s" % sites[0][0].loc(sites[0][1]).split(":")[-1])


@RULES.rule("R14.8", "helper items written in quote! use no `const fn` capability newer than the targets they are emitted for", floor=2)
def r14_8(rep):
    """`__BindgenUnionField` (emitted for every target when a union is not a Rust union) declares
    `pub const unsafe fn as_mut(&mut self) -> &mut T`.  Mutable references in `const fn` are stable since Rust 1.83 (`const_mut_refs`),
    later than every stable target bindgen knows (1.82 is the newest); the site is not gated by any target feature.  Per quote! site in
    codegen that declares a `const fn`: a `&mut` in the signature needs 1.83 — it must be gated or the earliest target must have it."""
    import qq as _qq
    prog = rep.prog
    consts = ctx_of(rep).stable_consts()
    earliest = prog.fn("features::EARLIEST_STABLE_RUST")
    m = re.search(r"Stable_1_(\d+)", earliest.canon(earliest.root, 6)) if earliest is not None else None
    lo = int(m.group(1)) if m else min(v for k, v in consts.items() if not k.endswith("Nightly"))
    n = 0
    for p, b in sorted(prog.bodies.items()):
        if not b.file.startswith("bindgen/codegen"):
            continue
        for q in _qq.quote_sites(b):
            t = q.tokens
            for i in range(len(t) - 3):
                if t[i] == "const" and (t[i + 1] == "fn" or (t[i + 1] == "unsafe" and t[i + 2] == "fn")):
                    j = i + (2 if t[i + 1] == "fn" else 3)
                    name = t[j] if j < len(t) else "?"
                    # signature up to the body
                    k = j
                    sig = []
                    while k < len(t) and t[k] != "{":
                        sig.append(t[k])
                        k += 1
                    n += 1
                    mut_ref = any(sig[x] == "&" and x + 1 < len(sig) and sig[x + 1] == "mut" for x in range(len(sig))) or "&mut" in sig
                    gated = any("rust_features" in a or "RustFeatures" in a for a, pol, g in _qq.guard_atoms(b, q.root))
                    ok = (not mut_ref) or gated or lo >= 83
                    rep.check(ok, "const-fn-capability:%s@%s" % (name, short(b)), "no `&mut` in the signature" if not mut_ref else
                              ("gated" if gated else "earliest target has const_mut_refs") if ok else
                              "`const fn %s` takes / returns `&mut`, stable in `const fn` since 1.83; the site is emitted ungated for every target "
                              "(earliest supported: 1.%d, newest stable known: 1.82)" % (name, lo), q.loc())
    rep.need(n >= 2, "`const fn` declarations in quote! sites of codegen")


@RULES.rule("R14.9", "the rustc version detected in a build script reaches the target parser with its channel suffix", floor=1, configs=("lib",))
def r14_9(rep):
    """`RustTarget::from_str` maps `1.N.0-nightly` / `-beta` to what 1.(N-1) stabilised (R14.6).  The library default runs
    `$RUSTC --version` and hands the number to the same parser; cutting the string at `-` first (before the fix) makes a nightly or
    beta compiler count as the stable release of that number, and the bindings use what that release stabilised — which the
    compiler performing the build may not accept yet (`unsafe extern` on 1.82.0-nightly).  In `<RustTarget as Default>::default`:
    some `from_str` call receives a string that no `split` on `-` has shortened, and every call that receives a shortened one is a
    fallback (`or_else` / `unwrap_or_else` of a previous attempt)."""
    prog = rep.prog
    b = rep.need(prog.impl_fn("std::default::Default", "features::RustTarget", "default"), "<RustTarget as Default>::default")
    calls = [c for c in b.calls(lambda x: x["k"] == "Call" and "RustTarget as std::str::FromStr>::from_str" in (x.get("resolved") or x.get("callee") or "") or
                                (x["k"] == "Call" and (x.get("callee") or "") == "std::str::FromStr::from_str"))]
    rep.need(calls, "the parse of the detected version in RustTarget::default")

    def cut_at_dash(e, depth=0):
        """does the value of e pass through a `split` whose pattern contains '-'"""
        for x in b.walk(e):
            if x["k"] == "MCall" and x["name"] in ("split", "split_once", "splitn", "split_terminator", "trim_end_matches", "strip_suffix"):
                pats = [y for a in x["args"] for y in b.walk(a) if y["k"] == "Lit"]
                if any("-" in str(y.get("v", "")) for y in pats):
                    return True
            if x["k"] == "Local" and depth < 6 and b.local_init(x["id"]) is not None and cut_at_dash(b.local_init(x["id"]), depth + 1):
                return True
        return False
    whole = [c for c in calls if not cut_at_dash(c["args"][0])]
    cut = [c for c in calls if cut_at_dash(c["args"][0])]
    ok = bool(whole)
    for c in cut:
        fallback = any(a["k"] == "Closure" and (b.parent[a["_i"]] or {}).get("name") in ("or_else", "unwrap_or_else", "or", "map_err")
                       for a in b.ancestors(c))
        ok = ok and fallback
    rep.check(ok, "detected-version-keeps-channel@RustTarget::default",
              "the version is parsed with its `-channel` suffix (%d attempt(s) on the whole string, %d fallback(s) on the bare number)" % (len(whole), len(cut))
              if ok else "the detected version is cut at `-` before `from_str` sees it: `1.N.0-nightly` selects the features of stable 1.N", b.loc(calls[0]))
