"""C07 — inferred facts are the least fixed point; declaration order is irrelevant.

The worklist in `analyze` pops LIFO from a list seeded in id order, so a dependant is normally evaluated
BEFORE its dependencies; the final answer is order-independent only if every fact `constrain` reads has a
re-queue edge, the state only grows, every growth is reported, and the driver re-queues on every report.
"""
import re

from engine import RuleSet
from hir import strip, pat_variants
import tracegraph as tg

RULES = RuleSet("C07", "§3 C07",
                assumptions=["every `is_opaque` call inside a Trace impl / constrain function refers to the item being traced / constrained",
                             "conditions other than is_opaque / should_be_traced_unconditionally / matches on the type kind are treated as "
                             "'may hold' when deciding whether an edge is emitted (e.g. the stdint early return in Type::trace)"],
                not_decided=["identity of the bindings generated for two declaration orders (a relation between two runs)",
                             "keys computed by resolving through aliases in UsedTemplateParameters::constrain_instantiation*"])

MF = "ir::analysis::MonotoneFramework"
CR = "ir::analysis::ConstrainResult::"
LOG = {"trace", "debug", "info", "warn", "error", "log", "extra_assert", "debug_assert", "debug_assert_eq"}
READ_METHODS = {"get", "contains", "contains_key"}
SHRINKERS = {"remove", "clear", "retain", "drain", "remove_entry", "pop", "truncate", "swap_remove", "take", "split_off", "shrink_to"}
GROWERS = {"insert", "extend", "push", "entry", "or_insert", "or_insert_with", "get_or_insert"}
# reads whose key is computed by resolving an id through aliases: the dependency is registered explicitly in `new`
COMPUTED_KEY_OK = {
    "UsedTemplateParameters": "template arguments are resolved through type refs/aliases before the lookup.  The instantiation is "
                              "re-queued through the UNRESOLVED argument (a Trace edge): every alias / reference on the way joins its "
                              "target's set and is itself re-queued when the target grows, so by the time the instantiation runs again "
                              "the resolved id's set is current.  This transitivity argument is stated, not decided",
}


def short(self_ty):
    return re.sub(r"<.*", "", self_ty.split("::")[-1])


def adt_of(self_ty):
    return re.sub(r"<.*", "", self_ty)


class Analysis:
    def __init__(self, prog, impl):
        self.prog = prog
        self.self_ty = impl["self_ty"]
        self.name = short(self.self_ty)
        self.adt = adt_of(self.self_ty)
        self.methods = {}
        self.adt = adt_of(self.self_ty)
        for b in prog.bodies.values():
            if adt_of(b.fact.get("impl_self") or "") == self.adt:
                self.methods[b.path.split("::")[-1]] = b
        self.state = set()


def analyses(rep):
    prog = rep.prog
    out = []
    for impl in prog.impls_of(MF):
        a = Analysis(prog, impl)
        if "new" not in a.methods or "constrain" not in a.methods:
            continue
        # state fields: HashMap/HashSet fields of the analysis struct that are mutated outside `new`
        adt = prog.adts.get(a.adt)
        if not adt:
            continue
        cands = {f["name"] for v in adt["variants"] for f in v["fields"]
                 if re.search(r"Hash(Map|Set)<", prog.types[f["ty"]])}
        for nm, b in a.methods.items():
            if nm == "new":
                continue
            for c in b.calls(lambda n: n["k"] == "MCall" and n["name"] in GROWERS | SHRINKERS | {"get_mut"}):
                r = root_field(c["recv"])
                if r and r.get("adt") == a.adt and r["f"] in cands and r["f"] != "dependencies":
                    a.state.add(r["f"])
        out.append(a)
    rep.need(out, "impls of MonotoneFramework")
    return out


def root_field(n):
    """the `self.<field>` at the root of a receiver chain, if any."""
    while True:
        n = strip(n)
        k = n.get("k")
        if k == "Field":
            b = strip(n["base"])
            if b.get("k") == "Local" and b.get("name") == "self":
                return n
            n = n["base"]
        elif k == "MCall":
            n = n["recv"]
        elif k == "Index":
            n = n["base"]
        elif k == "Try":
            n = n["e"]
        else:
            return None


def in_macro(body, n, names):
    if body.macro_name(n) in names:
        return True
    return any(body.macro_name(a) in names for a in body.ancestors(n))


def is_log(body, n):
    if body.macro_name(n) in LOG:
        return True
    return any(body.macro_name(a) in LOG for a in body.ancestors(n))


def type_kinds_of(body, n):
    """TypeKind variants under whose match arms n executes (None = unconstrained)."""
    kinds = None
    for pol, kind, payload in body.guards(n):
        if kind == "arm":
            m, i = payload
            vs = {v[len(tg.TYPEKIND):] for v in pat_variants(m["arms"][i]["pat"]) if v.startswith(tg.TYPEKIND)}
            if not vs:
                # Some(TypeKind::X) / Some(&TypeKind::X)
                vs = nested_kinds(m["arms"][i]["pat"])
            if vs:
                kinds = vs if kinds is None else (kinds & vs)
    return kinds


def nested_kinds(p):
    out = set()
    k = p.get("k")
    if k in ("PTupleStruct", "PTuple", "POr"):
        for q in p["ps"]:
            out |= {v[len(tg.TYPEKIND):] for v in pat_variants(q) if v.startswith(tg.TYPEKIND)} | nested_kinds(q)
    elif k == "PStruct":
        for f in p["fs"]:
            out |= {v[len(tg.TYPEKIND):] for v in pat_variants(f["p"]) if v.startswith(tg.TYPEKIND)} | nested_kinds(f["p"])
    elif k == "PRef":
        out |= {v[len(tg.TYPEKIND):] for v in pat_variants(p["p"]) if v.startswith(tg.TYPEKIND)} | nested_kinds(p["p"])
    return out


def call_sites(a, helper_name):
    out = []
    for nm, b in a.methods.items():
        for c in b.calls(lambda n: n["k"] == "MCall" and (n.get("callee") or "").endswith("::" + helper_name)):
            if strip(c["recv"]).get("name") == "self":
                out.append((b, c))
    return out


def param_index(body, name):
    for i, p in enumerate(body.params):
        if p.get("k") == "Bind" and p["name"] == name:
            return i
    return None


def resolve_through_helpers(a, body, node, site, depth=3):
    """Expand `param:X` sites of a helper method into the sites of the arguments at its call sites.
    Yields (site, world_body, world_node) triples; world_* is where guards must be evaluated."""
    if not site.startswith("param:") or depth == 0:
        yield (site, [(body, node)])
        return
    pname = site[len("param:"):].split(".")[0].split("[")[0]
    rest = site[len("param:") + len(pname):]
    idx = param_index(body, pname)
    hname = body.path.split("::")[-1]
    if idx is None or hname == "constrain":
        yield (site, [(body, node)])
        return
    cs = call_sites(a, hname)
    if not cs:
        yield (site, [(body, node)])
        return
    for cb, c in cs:
        arg = c["args"][idx - 1] if idx >= 1 else c["recv"]
        for s in tg.sites(cb, arg):
            for s2, chain in resolve_through_helpers(a, cb, c, s + rest, depth - 1):
                yield (s2, chain + [(body, node)])


def dep_predicate(rep, a, graph):
    """(labelled accepted-kind sets, producer body, producer scope) of the dependency map built in `new`."""
    prog = rep.prog
    nb = a.methods["new"]
    gd = [c for c in nb.calls(lambda n: n["k"] == "Call" and (n.get("callee") or "").endswith("analysis::generate_dependencies"))]
    if gd:
        preds = tg.edge_predicate(prog, nb, gd[0]["args"][1])
        return preds, prog.fn("ir::analysis::generate_dependencies"), None
    # hand-built dependencies: `item.trace(ctx, &mut |sub, <kind>| { dependencies.entry(sub)...push(item) })`
    for c in nb.calls(lambda n: n["k"] == "MCall" and n.get("trait") == tg.TRACE_TRAIT):
        clo = strip(c["args"][1]) if len(c["args"]) > 1 else None
        if clo and clo.get("k") == "Closure":
            pushes = [x for x in nb.calls(lambda n: n["k"] == "MCall" and n["name"] == "push", clo["body"])
                      if "Vec<ir::context::ItemId>" in (nb.ty(root_local(x["recv"]) or {}) or "") and
                      "HashMap<ir::context::ItemId" in (nb.ty(root_local(x["recv"]) or {}) or "")]
            if pushes:
                kindpat = clo["params"][1] if len(clo["params"]) > 1 else {}
                unguarded = not [g for g in nb.guards(pushes[0]) if g not in nb.guards(c)]
                if kindpat.get("k") in ("Wild",) or unguarded:
                    return {"": set(tg.all_edge_kinds(prog))}, nb, c
    return None, None, None


def root_local(n):
    while True:
        n = strip(n)
        if n.get("k") == "MCall":
            n = n["recv"]
        elif n.get("k") in ("Field", "Index"):
            n = n["base"]
        elif n.get("k") == "Local":
            return n
        else:
            return None


@RULES.rule("R7.1", "every fact read by constrain has a re-queue edge (read ⊆ dependencies, per opacity and type kind)", floor=40)
def r7_1(rep):
    prog = rep.prog
    graph = tg.TraceGraph(prog)
    rep.need(graph.uncond, "Type::should_be_traced_unconditionally")
    rep.need(graph.emissions, "Tracer::visit_kind call sites")
    all_kinds = set(tg.all_edge_kinds(prog))
    rep.need(all_kinds, "enum EdgeKind")
    rep.note("emissions", sorted({"%s -> %s" % (s, e.kind) for es in graph.emissions.values() for e in es for s in e.sites}))
    for a in analyses(rep):
        preds, producer, scope = dep_predicate(rep, a, graph)
        if not rep.check(bool(preds) and producer is not None and all(v is not None for v in (preds or {}).values()),
                         "%s:dependency-predicate" % a.name,
                         "dependencies of %s are built from a traversal filtered by an evaluable edge predicate" % a.name,
                         a.methods["new"].loc(a.methods["new"].root)):
            continue
        dep_set = set.intersection(*preds.values()) if preds else set()
        rep.note("dep-kinds:" + a.name, sorted(dep_set))
        emit_cache = {}

        def produced(world):
            key = (world["opaque"], world.get("kind"))
            if key not in emit_cache:
                ems = graph.emitted(producer, world, scope)
                emit_cache[key] = {(s, e.kind) for e in ems for s in e.sites}
            return emit_cache[key]

        nreads = 0
        for nm, b in a.methods.items():
            if nm in ("new", "initial_worklist", "each_depending_on", "from"):
                continue
            for c in b.calls(lambda n: n["k"] == "MCall" and n["name"] in READ_METHODS):
                r = root_field(c["recv"])
                if not r or r.get("adt") != a.adt or r["f"] not in a.state or is_log(b, c):
                    continue
                if strip(c["recv"]) is not r and strip(c["recv"]).get("k") != "Field":
                    # e.g. self.used.get(..).as_ref().iter() — the read itself is the `get`
                    pass
                if c["name"] not in READ_METHODS or not c["args"]:
                    continue
                nreads += 1
                key_expr = c["args"][0]
                # join-style read inside the closure of `item.trace(..)`
                clo = enclosing_trace_closure(b, c)
                if clo is not None:
                    check_join_read(rep, a, b, c, clo, dep_set, all_kinds)
                    continue
                for s0 in tg.sites(b, key_expr):
                    for site, chain in resolve_through_helpers(a, b, c, s0):
                        check_direct_read(rep, a, graph, site, chain, dep_set, produced)
            for n in b.walk():
                if n["k"] == "Index":
                    r = root_field(n["base"])
                    if r and r.get("adt") == a.adt and r["f"] in a.state and not is_log(b, n):
                        nreads += 1
                        for s0 in tg.sites(b, n["idx"]):
                            for site, chain in resolve_through_helpers(a, b, n, s0):
                                check_direct_read(rep, a, graph, site, chain, dep_set, produced)
        rep.check(nreads > 0, "%s:reads-found" % a.name, "%d reads of the analysis state" % nreads)


def enclosing_trace_closure(b, n):
    for anc in b.ancestors(n):
        if anc["k"] == "Closure":
            p = b.parent[anc["_i"]]
            while p is not None and p["k"] in ("AddrOf",):
                p = b.parent[p["_i"]]
            if p is not None and p["k"] == "MCall" and p.get("trait") == tg.TRACE_TRAIT:
                return (anc, p)
    return None


def check_join_read(rep, a, b, c, clo, dep_set, all_kinds):
    """Read of the state for every edge delivered by `item.trace` that passes a predicate P: need P ⊆ dep kinds."""
    prog = rep.prog
    closure, tracecall = clo
    # find the predicate call in the closure's guards: (!pred(kind)) early return or `if pred(kind)`
    preds = None
    for pol, kind, g in b.guards(c):
        if kind != "cond":
            continue
        for e, epol in atoms(g, pol):
            e = strip(e)
            if e["k"] == "Call" and epol:
                if "f" in e:  # call through a fn-pointer local / param
                    f = strip(e["f"])
                    if f["k"] == "Local":
                        preds = pred_from_param(rep, a, b, f)
                elif e.get("callee"):
                    pb = prog.fn(e["callee"])
                    if pb is not None and pb.fact.get("inputs") and "EdgeKind" in prog.types[pb.fact["inputs"][0]]:
                        preds = {"": tg._pred_body(prog, pb, pb.root, None)}
    key = "%s:join-read@%s" % (a.name, b.path.split("::")[-1])
    if preds is None:
        # unfiltered read of every traced edge: needs every kind
        preds = {"": set(all_kinds)}
    for lab, s in preds.items():
        if s is None:
            rep.bad(key + ":" + lab, "edge predicate of the join cannot be evaluated", b.loc(c))
            continue
        extra = s - dep_set
        rep.check(not extra, key + (":" + lab if lab else ""),
                  "join reads the state of neighbours over edge kinds %s; dependencies only cover %s%s" %
                  (sorted(s), sorted(dep_set), ("; missing " + str(sorted(extra))) if extra else ""), b.loc(c))


def pred_from_param(rep, a, b, flocal):
    """The fn-pointer local is a parameter of a helper: evaluate the argument at every call site."""
    prog = rep.prog
    d = b.local_def.get(flocal["id"])
    if not d:
        return None
    origin, path, pat = d
    if origin[0] == "let":
        return tg.edge_predicate(prog, b, origin[1]["init"])
    if origin[0] != "param":
        return None
    idx = origin[1]
    hname = b.path.split("::")[-1]
    out = {}
    for cb, c in call_sites(a, hname):
        arg = c["args"][idx - 1]
        p = tg.edge_predicate(prog, cb, arg)
        if p is None:
            return None
        kinds = type_kinds_of(cb, c) or {"*"}
        for lab, s in p.items():
            out["%s[%s]" % (lab, "|".join(sorted(kinds)))] = s
    return out or None


def atoms(e, pol):
    """Split a condition under polarity into (atom, polarity) pairs that must ALL hold (conjunctive part only)."""
    e = strip(e)
    if e["k"] == "Unary" and e["op"] == "!":
        return atoms(e["e"], not pol)
    if e["k"] == "Binary" and e["op"] == "&&" and pol:
        return atoms(e["l"], True) + atoms(e["r"], True)
    if e["k"] == "Binary" and e["op"] == "||" and not pol:
        return atoms(e["l"], False) + atoms(e["r"], False)
    return [(e, pol)]


def check_direct_read(rep, a, graph, site, chain, dep_set, produced):
    b, node = chain[-1]
    where = b.loc(node)
    if site.startswith("param:"):
        # the node's own entry (constrain's parameter, or a value derived from it): no dependency needed
        rep.ok("%s:self-read" % a.name, "", where)
        return
    if site.startswith(("call:", "?", "cparam:", "path:")):
        if a.name in COMPUTED_KEY_OK:
            rep.ok("%s:computed-key" % a.name, COMPUTED_KEY_OK[a.name], where)
        else:
            rep.bad("%s:read:%s" % (a.name, site), "the key of this state read is computed (%s); no re-queue edge can be "
                    "established for it" % site, where)
        return
    # worlds under which the read executes: guards along the helper call chain
    kinds = None
    for cb, cn in chain:
        ks = type_kinds_of(cb, cn)
        if ks is not None:
            kinds = ks if kinds is None else kinds & ks
    m = re.match(r"ir::ty::TypeKind::(\w+)\.", site)
    if m:
        kinds = {m.group(1)} if kinds is None else (kinds & {m.group(1)} or {m.group(1)})
    # an item is opaque either because of what its type is ("type": every is_opaque impl says so) or because the user said so
    # ("user": only Item::is_opaque knows)
    for opaque in (False, "type", "user"):
        for kind in sorted(kinds) if kinds else [None]:
            world = {"opaque": opaque, "kind": kind}
            if not all(graph.reachable_under(cb, cn, world) for cb, cn in chain):
                continue
            prod = produced(world)
            kinds_for_site = {k for s, k in prod if s == site}
            ok = bool(kinds_for_site & dep_set)
            key = "%s:read:%s:%s" % (a.name, site, {False: "transparent", "type": "opaque", "user": "opaque-by-user"}[opaque])
            if ok:
                rep.ok(key, "", where)
            elif kinds_for_site:
                rep.bad(key, "`%s` is read by constrain, the edge is emitted as %s but the dependency predicate accepts only %s: "
                        "a change of that neighbour never re-queues this node" % (site, sorted(kinds_for_site), sorted(dep_set)), where)
            else:
                rep.bad(key, "`%s` is read by constrain (item %s, kind %s) but no dependency edge is produced for it under these "
                        "conditions: a change of that neighbour never re-queues this node" %
                        (site, "opaque" if opaque else "not opaque", kind or "any"), where)


# ---------------------------------------------------------------------------------------------------
@RULES.rule("R7.2", "analysis state only grows (inflationary updates)", floor=8)
def r7_2(rep):
    for a in analyses(rep):
        for nm, b in a.methods.items():
            if nm in ("new", "from"):
                continue
            for c in b.calls(lambda n: n["k"] == "MCall"):
                r = root_field(c["recv"])
                via_entry = None
                if r is None:
                    # entry handles: local bound from `self.state.entry(..)` match
                    l = root_local(c["recv"])
                    if l is not None and "Entry" in (b.ty(l) or ""):
                        via_entry = l
                if (r is None or r.get("adt") != a.adt or r["f"] not in a.state) and via_entry is None:
                    continue
                name = c["name"]
                key = "%s:%s@%s" % (a.name, name, nm)
                if name in SHRINKERS:
                    if name == "take" and is_take_put_back(a, b, c):
                        rep.ok(key + ":take-put-back", "set is taken out and put back (grown) at the end of constrain", b.loc(c))
                    else:
                        rep.bad(key, "`%s` can shrink the analysis state; constrain must be inflationary" % name, b.loc(c))
                elif name == "insert" and via_entry is not None and "OccupiedEntry" in (b.ty(via_entry) or ""):
                    ok = False
                    for pol, kind, g in b.guards(c):
                        if kind == "cond" and pol:
                            e = strip(g)
                            if e["k"] == "Binary" and e["op"] == "<":
                                l = strip(e["l"])
                                if l.get("k") == "MCall" and l["name"] == "get" and (root_local(l["recv"]) or {}).get("id") == via_entry["id"] \
                                        and b.canon(e["r"]) == b.canon(c["args"][0]):
                                    ok = True
                            if e["k"] == "Binary" and e["op"] == ">":
                                rr = strip(e["r"])
                                if rr.get("k") == "MCall" and rr["name"] == "get" and (root_local(rr["recv"]) or {}).get("id") == via_entry["id"] \
                                        and b.canon(e["l"]) == b.canon(c["args"][0]):
                                    ok = True
                    rep.check(ok, key + ":occupied", "an existing entry is overwritten only under `*entry.get() < new`", b.loc(c))
                elif name == "insert" and r is not None and "HashMap" in (b.ty(strip(c["recv"])) or ""):
                    # direct overwrite of a map entry: only the take/put-back idiom with a growth assertion
                    grown = any(n["k"] == "Binary" and n["op"] in (">=",) and in_macro(b, n, ("assert",)) for n in b.walk())
                    rep.check(grown and is_put_back(a, b, c), key + ":put-back",
                              "map entry overwritten: allowed only as put-back of the taken set under an `assert!(new_len >= original_len)`", b.loc(c))
                elif name in GROWERS:
                    rep.ok(key, "", b.loc(c))


def is_take_put_back(a, b, c):
    cons = a.methods.get("constrain")
    if cons is None:
        return False
    return any(x["k"] == "MCall" and x["name"] == "insert" and (root_field(x["recv"]) or {}).get("f") in a.state for x in cons.walk())


def is_put_back(a, b, c):
    return any((x.get("callee") or "").endswith("take_this_id_usage_set") or x.get("name") == "take" for x in b.calls()) or \
        any(x.get("name") == "take" for m in a.methods.values() for x in m.calls())


@RULES.rule("R7.3", "every growth of the state is reported as Changed and the report reaches the driver", floor=12)
def r7_3(rep):
    for a in analyses(rep):
        mutators = set()
        for nm, b in a.methods.items():
            if nm in ("new", "from"):
                continue
            ret = rep.prog.types[b.fact["output"]] if "output" in b.fact else ""
            for c in b.calls(lambda n: n["k"] == "MCall" and n["name"] == "insert"):
                r = root_field(c["recv"])
                l = root_local(c["recv"])
                if r is not None and "HashMap" in (b.ty(strip(c["recv"])) or ""):
                    continue  # direct map overwrite = take/put-back idiom, decided by R7.2
                is_state = (r is not None and r.get("adt") == a.adt and r["f"] in a.state) or \
                           (l is not None and "Entry" in (b.ty(l) or "") and "hash_map" in (b.ty(l) or ""))
                if not is_state or not ret.endswith("ConstrainResult"):
                    continue
                mutators.add(nm)
                # the value of the path through this mutation is Changed
                val = path_value(b, c)
                rep.check(val == CR + "Changed", "%s:mutation-reports-changed@%s" % (a.name, nm),
                          "a state mutation is followed by `%s` (must be ConstrainResult::Changed)" % val, b.loc(c))
        # transitive: helpers returning the result of a mutator
        changed = True
        while changed:
            changed = False
            for nm, b in a.methods.items():
                if nm in mutators or nm in ("new", "from"):
                    continue
                ret = rep.prog.types[b.fact["output"]] if "output" in b.fact else ""
                if ret.endswith("ConstrainResult") and nm != "constrain" and \
                        any((c.get("callee") or "").split("::")[-1] in mutators and strip(c["recv"]).get("name") == "self"
                            for c in b.calls(lambda n: n["k"] == "MCall")):
                    mutators.add(nm)
                    changed = True
        for nm, b in a.methods.items():
            if nm in ("new", "from"):
                continue
            for c in b.calls(lambda n: n["k"] == "MCall" and (n.get("callee") or "").split("::")[-1] in mutators):
                if strip(c["recv"]).get("name") != "self":
                    continue
                rep.check(in_result_position(b, c), "%s:result-used:%s@%s" % (a.name, c["name"], nm),
                          "the ConstrainResult of `self.%s(..)` must flow to the function result (not be discarded)" % c["name"], b.loc(c))


def path_value(b, c):
    """def-path of the ConstrainResult the innermost enclosing block evaluates to after statement c."""
    n = c
    for anc in b.ancestors(c):
        if anc["k"] == "Block":
            t = anc.get("tail")
            if t is not None and t is not n:
                t = strip(t)
                if t.get("k") == "Path":
                    return t["def"]
                return t.get("k")
            # a `return X;` statement later in the block
            for st in anc["stmts"]:
                e = st.get("e")
                if e is not None and e.get("k") == "Ret" and "e" in e and strip(e["e"]).get("k") == "Path":
                    return strip(e["e"])["def"]
            if t is n:
                return "value-of-call"
        if anc["k"] == "Closure":
            break
        n = anc
    return None


def in_result_position(b, c):
    n = c
    for anc in b.ancestors(c):
        k = anc["k"]
        role = b.role[n["_i"]]
        if k == "Block":
            if role != "tail":
                # `return self.insert(..);` is a Semi(Ret)
                if n["k"] == "Semi" and n["e"].get("k") == "Ret":
                    pass
                else:
                    return False
        elif k == "If":
            if role == "cond":
                return False
        elif k == "Match":
            if role == "scrut":
                return False
        elif k in ("Semi", "ExprStmt"):
            if not (k == "Semi" and anc["e"].get("k") == "Ret") and not (k == "ExprStmt"):
                return False
        elif k == "Ret":
            return True
        elif k == "Binary" and anc["op"] == "|":
            pass
        elif k == "Closure":
            return False
        elif k in ("Let", "Assign", "MCall", "Call"):
            return False
        n = anc
    return True


@RULES.rule("R7.4", "the driver re-queues every dependant on every Changed until the worklist is empty", floor=12)
def r7_4(rep):
    prog = rep.prog
    b = rep.need(prog.fn("ir::analysis::analyze"), "fn analyze")
    loops = [n for n in b.walk() if n["k"] in ("While", "Loop")]
    rep.need(loops, "worklist loop in analyze")
    w = loops[0]
    cond = strip(w.get("cond", {}))
    popok = cond.get("k") == "LetCond" and "Some" in str(pat_variants(cond["pat"])) and strip(cond["init"]).get("name") == "pop"
    rep.check(popok, "loop-until-empty", "`while let Some(node) = worklist.pop()`", b.loc(w))
    # the only way out of the loop is the empty worklist: a work budget / early `break` leaves nodes unprocessed (and which ones
    # depends on declaration order, because the worklist is a stack seeded in item order)
    exits = [n for n in b.walk(w["body"]) if n["k"] in ("Break", "Ret") and not any(a["k"] == "Closure" and a["_i"] > w["_i"] for a in b.ancestors(n))]
    rep.check(not exits, "loop-no-other-exit", "the worklist loop has no `break` / `return`" if not exits else
              "the worklist loop can stop before the worklist is empty: the result is then not a fixed point", b.loc(exits[0]) if exits else b.loc(w))
    cons = [c for c in b.calls(lambda n: n["k"] == "MCall" and n["name"] == "constrain")]
    edo = [c for c in b.calls(lambda n: n["k"] == "MCall" and n["name"] == "each_depending_on")]
    if cons:
        extra_c = [g for g in b.guards(cons[0]) if g not in b.guards(w["body"]) and g[1] in ("cond", "arm")]
        rep.check(not extra_c, "constrain-every-popped-node", "every popped node is constrained" if not extra_c else
                  "`constrain` is skipped for some popped nodes", b.loc(cons[0]))
    rep.check(len(cons) == 1 and len(edo) == 1, "single-constrain-and-requeue", "one constrain and one each_depending_on call", b.loc(w))
    if cons and edo:
        guarded = False
        for pol, kind, g in b.guards(edo[0]):
            if kind == "cond" and pol:
                e = strip(g)
                if e["k"] == "LetCond" and pat_variants(e["pat"]) == {CR + "Changed"} and strip(e["init"]) is cons[0]:
                    guarded = True
                if e["k"] == "Binary" and e["op"] == "==" and CR + "Changed" in b.canon(e):
                    guarded = True
            if kind == "arm":
                m, i = g
                if strip(m["scrut"]) is cons[0] and CR + "Changed" in pat_variants(m["arms"][i]["pat"]):
                    guarded = True
        extra = [g for g in b.guards(edo[0]) if g not in b.guards(cons[0])]
        rep.check(guarded and len(extra) == 1, "requeue-iff-changed", "each_depending_on runs exactly when constrain returned Changed", b.loc(edo[0]))
        same_node = b.canon(edo[0]["args"][0]) == b.canon(cons[0]["args"][0])
        rep.check(same_node, "requeue-same-node", "dependants of the node that changed are re-queued", b.loc(edo[0]))
        clo = strip(edo[0]["args"][1])
        pushes = [c for c in b.calls(lambda n: n["k"] == "MCall" and n["name"] in ("push", "push_back"), clo)] if clo.get("k") == "Closure" else []
        okp = bool(pushes) and b.canon(pushes[0]["recv"]) == b.canon(strip(cond["init"])["recv"]) and not \
            [g for g in b.guards(pushes[0]) if g not in b.guards(edo[0])]
        rep.check(okp, "requeue-pushes-worklist", "every dependant is pushed onto the same worklist, unconditionally", b.loc(edo[0]))
    # every each_depending_on walks the whole dependency list
    for a in analyses(rep):
        e = a.methods.get("each_depending_on")
        if e is None:
            rep.bad("%s:each_depending_on" % a.name, "missing")
            continue
        fors = [n for n in e.walk() if n["k"] == "For"]
        ok = False
        for f in fors:
            src = e.canon(f["iter"])
            cb_ids = {prm.get("id") for prm in e.params[-1:]}
            calls_f = [c for c in e.calls(lambda n: n["k"] == "Call" and "f" in n and strip(n["f"]).get("k") == "Local" and strip(n["f"])["id"] in cb_ids, f["body"])]
            exits = [n for n in e.walk(f["body"]) if n["k"] in ("Break", "Ret", "Continue")]
            if "::dependencies" in src and "::get(" in src and calls_f and not exits and \
                    not [g for g in e.guards(calls_f[0]) if g not in e.guards(f)] and \
                    not re.search(r"::(take|skip|step_by|filter|take_while|skip_while)\(", src):
                ok = True
        rep.check(ok, "%s:each_depending_on-complete" % a.name, "f is called for every element of dependencies[node]", e.loc(e.root))


@RULES.rule("R7.5", "an analysis that reads another analysis' result runs after it", floor=3)
def r7_5(rep):
    prog = rep.prog
    gen = rep.need(prog.fn("ir::context::BindgenContext::gen"), "BindgenContext::gen")
    CTX = "ir::context::BindgenContext"
    # result field written by each compute_* method, and the analysis it runs
    writers = {}  # field -> (compute fn path, analysis type)
    runs = {}  # compute fn path -> analysis name
    for b in prog.methods_of(CTX):
        an = None
        for c in b.calls(lambda n: n["k"] == "Call" and (n.get("callee") or "") == "ir::analysis::analyze"):
            m = re.search(r"analysis::\w+::(\w+)", c.get("gargs", ""))
            an = m.group(1) if m else None
        if not an:
            continue
        for n in b.walk():
            if n["k"] == "Assign":
                l = strip(n["l"])
                if l.get("k") == "Field" and l.get("adt") == CTX:
                    writers.setdefault(l["f"], []).append((b.path, an))
                    runs[b.path] = an
    rep.need(writers, "compute_* methods assigning analysis results")
    # order of compute calls in gen (transitively through helper methods of the context)
    order = []
    for c in gen.calls(lambda n: n["k"] == "MCall"):
        tgt = c.get("callee") or ""
        if tgt in runs or tgt in prog.bodies:
            order.append(tgt)
    pos = {}
    for i, p in enumerate(order):
        if p in runs:
            pos.setdefault(p, i)
    # readers of each result field
    readers = {}
    for b in prog.methods_of(CTX):
        for n in b.walk():
            if n["k"] == "Field" and n.get("adt") == CTX and n["f"] in writers and b.path not in [w[0] for w in writers[n["f"]]]:
                readers.setdefault(n["f"], set()).add(b.path)
    g = prog.call_graph()
    for a in analyses(rep):
        roots = [m.path for nm, m in a.methods.items() if nm not in ("new", "from")]
        reach = prog.reachable(roots, stop=lambda x: x.startswith("codegen::") or "::dot::" in x)
        mine = [p for p, an in runs.items() if an == a.name]
        for field, rs in readers.items():
            hit = rs & reach
            if not hit:
                continue
            for wpath, wan in writers[field]:
                if wan == a.name:
                    continue
                for mp in mine:
                    if mp in pos and wpath in pos:
                        rep.check(pos[wpath] < pos[mp], "%s-after-%s" % (a.name, wan),
                                  "%s reads `%s` (via %s), which %s fills; it must be computed earlier in BindgenContext::gen" %
                                  (a.name, field, sorted(hit)[0].split("::")[-1], wpath.split("::")[-1]), gen.loc(gen.root))


def bottom_variant(a):
    """The lattice bottom of an analysis with an `insert(id, value)` helper: the value for which insert stores nothing."""
    ins = a.methods.get("insert")
    if ins is None:
        return None
    for n in ins.walk():
        if n["k"] == "If":
            c = strip(n["cond"])
            if c.get("k") == "LetCond" and ins.diverges(n["then"]):
                vs = [v for v in pat_variants(c["pat"]) if "::" in v]
                rets = [x for x in ins.walk(n["then"]) if x["k"] == "Ret" and "e" in x and ins.canon(x["e"], 2) == CR + "Same"]
                if vs and rets:
                    return vs[0]
    return None


@RULES.rule("R7.6", "the worklist starts from every node; results are published unfiltered; a missing entry reads as the lattice bottom", floor=14)
def r7_6(rep):
    prog = rep.prog
    CTX = "ir::context::BindgenContext"
    ans = analyses(rep)
    bottoms = {}
    for a in ans:
        iw = a.methods.get("initial_worklist")
        if iw is None:
            rep.bad("%s:initial_worklist" % a.name, "missing")
            continue
        src = iw.canon(iw.root.get("tail") or iw.root, 14)
        # an analysis may compute its node set in a helper of its own (UsedTemplateParameters: closure through blocklisted items)
        for hc in iw.calls(lambda n: n["k"] == "Call" and (n.get("callee") or "") in prog.bodies and a.name in (n.get("callee") or "")):
            hb = prog.bodies[hc["callee"]]
            names = {(x.get("name") or "") for x in hb.walk() if x["k"] == "MCall"}
            if "allowlisted_items" in names:
                src += " BindgenContext::allowlisted_items(helper %s)" % hc["callee"].split("::")[-1]
            src += " " + " ".join("::%s(" % nm for nm in names if nm in ("skip", "take", "step_by", "filter", "take_while", "skip_while", "rev", "nth", "last", "find"))
        lossy = re.findall(r"::(skip|take|step_by|filter|take_while|skip_while|rev|nth|last|find)\(", src)
        fm_ok = True
        for c in iw.calls(lambda n: n["k"] == "MCall" and n["name"] == "filter_map"):
            clo = strip(c["args"][0])
            body = strip(clo["body"]) if clo.get("k") == "Closure" else {}
            fm_ok = fm_ok and body.get("k") == "MCall" and body.get("name") == "as_type_id"
        rep.check("BindgenContext::allowlisted_items" in src and not lossy and fm_ok, "%s:initial-worklist-complete" % a.name,
                  "the initial worklist is every allowlisted item%s (found %s)" % (" (types only, via as_type_id)" if not fm_ok or "filter_map" in src else "", src[:140]),
                  iw.loc(iw.root))
        fr = a.methods.get("from")
        if fr is not None:
            t = strip(fr.root.get("tail") or {})
            ok = t.get("k") == "Field" and t.get("adt") == a.adt and t["f"] in a.state
            if not ok:
                s = fr.canon(t, 10)
                ok = any(("::" + f) in s for f in a.state) and not re.search(r"::(filter|filter_map|skip|take|retain)\(", s)
            rep.check(ok, "%s:result-published-unfiltered" % a.name, "the analysis output is its whole state", fr.loc(fr.root))
        bv = bottom_variant(a)
        if bv:
            bottoms[a.name] = bv
            rep.ok("%s:bottom=%s" % (a.name, bv.split("::")[-1]))
    # lookups with a default
    writers = {}
    for b in prog.methods_of(CTX):
        an = None
        for c in b.calls(lambda n: n["k"] == "Call" and (n.get("callee") or "") == "ir::analysis::analyze"):
            m = re.search(r"analysis::\w+::(\w+)", c.get("gargs", ""))
            an = m.group(1) if m else None
        if an:
            for n in b.walk():
                if n["k"] == "Assign" and strip(n["l"]).get("k") == "Field" and strip(n["l"]).get("adt") == CTX:
                    writers[strip(n["l"])["f"]] = an
    nlook = 0
    for b in prog.methods_of(CTX):
        for c in b.calls(lambda n: n["k"] == "MCall" and n["name"] in ("unwrap_or", "unwrap_or_default", "unwrap_or_else")):
            r = root_field(c["recv"])
            if not r or r.get("adt") != CTX or r["f"] not in writers:
                continue
            an = writers[r["f"]]
            if an not in bottoms:
                continue
            nlook += 1
            got = b.canon(c["args"][0], 3) if c["args"] else "<Default>"
            rep.check(got == bottoms[an], "lookup-default:%s" % r["f"],
                      "a type without an entry in `%s` reads as `%s`; the analysis stores nothing for its bottom value `%s`" % (r["f"], got, bottoms[an]),
                      b.loc(c))
    rep.check(nlook >= 2, "lookup-defaults-found", "%d defaulted lookups of analysis results" % nlook)
    # derive: the set conversion drops exactly the bottom value
    acd = prog.fn("ir::analysis::derive::as_cannot_derive_set")
    if acd is not None and "CannotDerive" in bottoms:
        dropped = None
        for n in acd.walk():
            if n["k"] == "If" and strip(n["cond"]).get("k") == "Binary" and strip(n["cond"])["op"] == "==":
                then = acd.canon(n["then"], 3)
                if "None" in then:
                    c = strip(n["cond"])
                    dropped = [acd.canon(x, 2) for x in (c["l"], c["r"]) if "CanDerive::" in acd.canon(x, 2)]
        rep.check(dropped == [bottoms["CannotDerive"]], "cannot-derive-set-drops-bottom",
                  "as_cannot_derive_set drops exactly the entries equal to the bottom `%s` (found %s)" % (bottoms["CannotDerive"], dropped), acd.loc(acd.root))


def top_variant(prog, ty):
    """Last declared variant of a lattice enum (derived Ord follows declaration order)."""
    m = re.search(r"(ir::[\w:]+)", ty or "")
    if not m:
        return None
    adt = prog.adts.get(m.group(1))
    if not adt or adt["kind"] != "enum":
        return None
    return adt["variants"][-1]["path"]


@RULES.rule("R7.7", "constrain gives up early on a node only when that node is already at the top of the lattice", floor=4)
def r7_7(rep):
    prog = rep.prog
    n_exits = 0
    for a in analyses(rep):
        b = a.methods["constrain"]
        adt = prog.adts.get(a.adt)
        state_ty = {f["name"]: prog.types[f["ty"]] for v in adt["variants"] for f in v["fields"]}
        for n in b.walk():
            if n["k"] != "If" or "else" in n or not b.diverges(n["then"]):
                continue
            rets = [x for x in b.walk(n["then"]) if x["k"] == "Ret" and "e" in x and b.canon(x["e"], 2) == CR + "Same"]
            if not rets:
                continue
            c = strip(n["cond"])
            # is the condition a read of the analysis' own state for the node itself?
            reads = [x for x in b.walk(c) if x["k"] == "MCall" and x["name"] in READ_METHODS and (root_field(x["recv"]) or {}).get("adt") == a.adt
                     and (root_field(x["recv"]) or {}).get("f") in a.state]
            if not reads:
                continue
            r = reads[0]
            keysites = tg.sites(b, r["args"][0]) if r["args"] else ["?"]
            if not all(s.startswith("param:") for s in keysites):
                continue
            n_exits += 1
            f = root_field(r["recv"])["f"]
            ty = state_ty.get(f, "")
            key = "%s:early-exit" % a.name
            if "HashSet<" in ty:
                rep.check(r["name"] == "contains", key, "membership in the result set is final (two-point lattice)", b.loc(n))
                continue
            # map to a lattice enum: only the top value is final
            mval = re.search(r"HashMap<[^,]+, ([^,>]+)", ty)
            top = top_variant(prog, mval.group(1) if mval else "")
            ok = False
            if c.get("k") == "LetCond" and top:
                pv = set()
                p = c["pat"]
                stack = [p]
                while stack:
                    q = stack.pop()
                    pv |= {v for v in pat_variants(q) if "::" in v and "prelude" not in v and "option" not in v}
                    stack += q.get("ps", []) + ([q["p"]] if "p" in q else []) + [x["p"] for x in q.get("fs", [])]
                ok = pv == {top}
            elif c.get("k") == "Binary" and c["op"] == "==" and top:
                ok = top in b.canon(c, 6)
            elif c.get("k") == "Match" and top:
                # matches!(self.state.get(&id), Some(Top))
                pv = set()
                for arm in c["arms"]:
                    if strip(arm["body"]).get("v") is True:
                        stack = [arm["pat"]]
                        while stack:
                            q = stack.pop()
                            pv |= {v for v in pat_variants(q) if "::" in v and "prelude" not in v and "option" not in v}
                            stack += q.get("ps", []) + ([q["p"]] if "p" in q else []) + [x["p"] for x in q.get("fs", [])]
                ok = pv == {top}
            rep.check(ok, key, "the early `return Same` requires the node's own value to be the top `%s` of its lattice; any weaker test "
                      "freezes an intermediate value and makes the result depend on the visiting order" % (top or "?").split("::")[-1], b.loc(n))
    rep.check(n_exits >= 4, "early-exits-found", "%d early exits on the node's own state" % n_exits)


# =====================================================================================================
# R7.8  the lookups codegen uses are projections of the published results
# =====================================================================================================
ASSERTS = {"assert", "debug_assert", "assert_eq", "debug_assert_eq", "extra_assert", "assert_ne"}
LOOKUP_SELF_CALLS_OK = {"in_codegen_phase"}


@RULES.rule("R7.8", "what codegen reads through `lookup_*` is the analysis result itself, not the result adjusted by other context", floor=10)
def r7_8(rep):
    """The fixed point is only what the bindings are built from if `BindgenContext::lookup_*` hands it out unchanged.  A lookup
    that answers differently for some ids (not allowlisted, blocklisted, …) makes codegen act on a value the rules never produced,
    while `constrain` — which reads its own map — keeps using the other one: a base outside the allowlist was ZeroSized for the
    analysis and NonZeroSized for codegen in an independently seeded change.  Per lookup: no branch or early return outside
    assertions, and the only parts of `self` read are published analysis results (or other lookups)."""
    prog = rep.prog
    CTX = "ir::context::BindgenContext"
    published = set()
    for b in prog.methods_of(CTX):
        if any((c.get("callee") or "") == "ir::analysis::analyze" for c in b.calls(lambda n: n["k"] == "Call")):
            for n in b.walk():
                if n["k"] == "Assign" and strip(n["l"]).get("k") == "Field" and strip(n["l"]).get("adt") == CTX:
                    published.add(strip(n["l"])["f"])
    rep.need(len(published) >= 8, "fields of BindgenContext assigned from analyze::<..>()")
    n = 0
    for b in sorted(prog.methods_of(CTX), key=lambda x: x.path):
        nm = b.path.split("::")[-1]
        if not nm.startswith("lookup_"):
            continue
        n += 1
        probs = []
        for x in b.nodes:
            if in_macro(b, x, ASSERTS | LOG):
                continue
            if x["k"] in ("If", "Match", "Ret", "Loop", "While"):
                probs.append(("%s at %s" % (x["k"].lower(), b.loc(x)), x))
            if x["k"] == "Field" and x.get("adt") == CTX and x["f"] not in published:
                probs.append(("reads self.%s" % x["f"], x))
            if x["k"] == "MCall" and strip(x["recv"]).get("k") == "Local" and strip(x["recv"]).get("name") == "self":
                cal = (x.get("callee") or x.get("resolved") or x["name"]).split("::")[-1]
                if not (cal.startswith("lookup_") or cal in LOOKUP_SELF_CALLS_OK):
                    probs.append(("calls self.%s()" % cal, x))
        rep.check(not probs, "projection:" + nm,
                  "a projection of the published result" if not probs else
                  "the answer depends on more than the analysis result (%s): codegen then acts on a value the analysis' rules never "
                  "produced and `constrain` never sees" % "; ".join(p[0] for p in probs[:3]), b.loc(probs[0][1] if probs else b.root))
    rep.need(n >= 10, "BindgenContext::lookup_* functions")


# =====================================================================================================
# R7.9  "the same type under another name" is one case in every analysis
# =====================================================================================================
NAME_FORWARDERS = ("Alias", "TemplateAlias", "ResolvedTypeRef")


def _canon_noloc(b, n, depth=14):
    return re.sub(r"local:\w+", "local", b.canon(n, depth))


@RULES.rule("R7.9", "typedefs, alias templates and resolved type references are treated alike by every analysis", floor=18)
def r7_9(rep):
    """`TypeKind::Alias`, `TypeKind::TemplateAlias` and `TypeKind::ResolvedTypeRef` all stand for "the type `t` under another name";
    every fact an analysis computes for `t` holds for them.  Each analysis forwards them in one match arm.  When one of the three
    falls out of that arm (into the `_ => Same` catch-all, without any compiler warning) the fact stops at that kind of node: a class
    inheriting its vtable through `template<class U> using A = Base<U>` was given a second vtable pointer in a seeded change.
    Per analysis and per match over the type kind that names one of the three: all three are named, in arms with the same body."""
    prog = rep.prog
    n = 0
    for p, b in sorted(prog.bodies.items()):
        if not p.startswith("ir::analysis::") and "ir::analysis::" not in (b.fact.get("impl_self") or ""):
            continue
        for m in b.nodes:
            if m["k"] != "Match":
                continue
            where = {}
            for i, a in enumerate(m["arms"]):
                for v in pat_variants(a["pat"]):
                    if v.startswith(tg.TYPEKIND) and v[len(tg.TYPEKIND):] in NAME_FORWARDERS:
                        where.setdefault(v[len(tg.TYPEKIND):], []).append(i)
            if not where:
                continue
            who = short(b.fact.get("impl_self") or "")
            fn = (who + "::" if who else "") + p.split("::")[-1]
            for k in NAME_FORWARDERS:
                n += 1
                key = "forwards:%s@%s" % (k, fn)
                if k not in where:
                    rep.bad(key, "`TypeKind::%s` is not named in the match that forwards %s: it falls into the catch-all and the fact is not "
                            "propagated through this kind of node" % (k, "/".join(sorted(where))), b.loc(m))
                    continue
                ref = where[sorted(where)[0]][0]
                same = all(i == ref or _canon_noloc(b, m["arms"][i]["body"]) == _canon_noloc(b, m["arms"][ref]["body"]) for i in where[k])
                rep.check(same, key, "handled with the other name-forwarding kinds" if same else
                          "`TypeKind::%s` is handled differently from `TypeKind::%s` although both only rename a type" % (k, sorted(where)[0]), b.loc(m))
    rep.need(n >= 18, "matches over the type kind in ir::analysis that name Alias / TemplateAlias / ResolvedTypeRef")


# =====================================================================================================
# R7.10  the take / grow / put-back protocol of UsedTemplateParameters::constrain
# =====================================================================================================
def _only_grown(prog, b, lid, depth=2):
    """(ok, why): every use of local `lid` in body b is a read, a grower call, or a `&mut` hand-over to a crate function whose
    parameter is itself only grown."""
    for n in b.nodes:
        if n["k"] == "Local" and n["id"] == lid:
            par = b.parent[n["_i"]]
            while par is not None and par["k"] in ("AddrOf", "Unary"):
                hold = par
                par = b.parent[par["_i"]]
            if par is None:
                continue
            if par["k"] == "MCall" and strip(par["recv"]) is n:
                nm = par["name"]
                if nm in GROWERS or nm in ("len", "is_empty", "iter", "contains", "get", "clone", "fmt"):
                    continue
                if nm in SHRINKERS:
                    return False, "`%s` on the taken set at %s" % (nm, b.loc(par))
                continue
            if par["k"] in ("Call", "MCall"):
                cal = par.get("resolved") or par.get("callee") or ""
                cb = prog.bodies.get(cal)
                if cb is None:
                    continue        # std / formatting machinery
                args = ([par["recv"]] if par["k"] == "MCall" else []) + list(par.get("args") or [])
                idx = next((i for i, a in enumerate(args) if any(x is n for x in b.walk(a))), None)
                if idx is None or idx >= len(cb.params):
                    continue
                is_mut = "&mut" in (b.ty(args[idx]) or "")
                if not is_mut:
                    continue
                if depth <= 0:
                    return False, "handed to %s (not followed further)" % cal
                pid = cb.params[idx].get("id")
                ok, why = _only_grown(prog, cb, pid, depth - 1)
                if not ok:
                    return False, "in %s: %s" % (cal.split("::")[-1], why)
            if par["k"] in ("Assign",) and strip(par["l"]) is n:
                return False, "the taken set is overwritten at %s" % b.loc(par)
    return True, ""


@RULES.rule("R7.10", "UsedTemplateParameters::constrain: the set is taken, only grown, put back, and `Changed` means it grew", floor=6)
def r7_10(rep):
    """This analysis detects change by comparing the size of the item's set before and after (the other analyses report each insert).
    That is only right if nothing shrinks or replaces the set in between, if both sizes are read outside the mutation window, if the
    set is put back on every path, and if `Same` is answered exactly for equal sizes."""
    prog = rep.prog
    a = next((x for x in analyses(rep) if x.name == "UsedTemplateParameters"), None)
    rep.need(a, "the UsedTemplateParameters analysis")
    b = a.methods["constrain"]
    takes = [st for st in b.nodes if st["k"] == "Let" and st.get("init") is not None and strip(st["init"]).get("k") == "MCall" and
             "take" in (strip(st["init"]).get("name") or "") and st["pat"].get("k") == "Bind"]
    rep.need(takes, "`let mut used_by_this_id = self.take_..(id)`")
    S = takes[0]["pat"]["id"]
    lens = [st for st in b.nodes if st["k"] == "Let" and st.get("init") is not None and strip(st["init"]).get("k") == "MCall" and
            strip(st["init"])["name"] == "len" and strip(strip(st["init"])["recv"]).get("id") == S]
    rep.check(len(lens) == 2, "two-size-readings", "the size of the set is read twice (found %d)" % len(lens), b.loc(takes[0]))
    if len(lens) != 2:
        return
    first, second = sorted(lens, key=lambda x: x["_i"])
    muts = []
    for n in b.nodes:
        if n["k"] == "Local" and n["id"] == S:
            par = b.parent[n["_i"]]
            while par is not None and par["k"] in ("AddrOf", "Unary"):
                par = b.parent[par["_i"]]
            if par is not None and par["k"] in ("Call", "MCall") and not is_log(b, par):
                nm = par.get("name") or ""
                if nm in ("len", "is_empty", "fmt"):
                    continue
                if par["k"] == "MCall" and strip(par["recv"]) is n and nm in ("insert",) and "used" in b.canon(par, 3) and False:
                    continue
                muts.append(par)
    window = [m for m in muts if not (first["_i"] < m["_i"] < second["_i"])]
    putback = [c for c in b.calls(lambda x: x["k"] == "MCall" and x["name"] == "insert") if
               (root_field(c["recv"]) or {}).get("f") in a.state and any(x["k"] == "Local" and x["id"] == S for x in b.walk(c["args"][-1]))]
    window = [m for m in window if not any(m is p or any(x is m for x in b.walk(p)) for p in putback)]
    rep.check(not window, "sizes-bracket-the-mutations", "every mutation of the set lies between the two size readings" if not window else
              "the set is changed at %s, outside the window between the two `len()` readings: growth there is never reported" % b.loc(window[0]),
              b.loc(window[0]) if window else b.loc(first))
    ok, why = _only_grown(prog, b, S)
    rep.check(ok, "only-grown", "between the readings the set only receives inserts / extends (helpers followed)" if ok else
              "the set can shrink or be replaced (%s): equal sizes then no longer mean 'unchanged'" % why, b.loc(takes[0]))
    pb_guards = [g3 for g3 in b.guards(putback[0], nested=True) if not (g3[1] == "cond" and in_macro(b, g3[2], ASSERTS | LOG))] if putback else []
    rep.check(len(putback) == 1 and not pb_guards and putback[0]["_i"] > second["_i"], "put-back",
              "the set is put back into `used` once, unconditionally, after the second reading", b.loc(putback[0]) if putback else b.loc(b.root))
    rets = [n for n in b.walk() if n["k"] == "Ret" and not any(x["k"] == "Closure" for x in b.ancestors(n))]
    rep.check(not rets, "no-early-return", "no `return` between taking the set and putting it back", b.loc(rets[0]) if rets else b.loc(b.root))
    # the answer
    tail = strip(b.root.get("tail") or {})
    good = False
    if tail.get("k") == "If" and "else" in tail:
        c = strip(tail["cond"])
        ids = {strip(c.get("l", {})).get("id"), strip(c.get("r", {})).get("id")} if c.get("k") == "Binary" else set()
        both = ids == {first["pat"].get("id"), second["pat"].get("id")}
        t, e = b.canon(tail["then"], 3), b.canon(tail["else"], 3)
        if both and c.get("op") == "==":
            good = t.endswith("Same") and e.endswith("Changed")
        elif both and c.get("op") == "!=":
            good = t.endswith("Changed") and e.endswith("Same")
    rep.check(good, "changed-iff-grew", "`Same` exactly when the two sizes are equal", b.loc(tail) if tail else b.loc(b.root))


# =====================================================================================================
# R7.11  edges are emitted for every element of a stored collection
# =====================================================================================================
@RULES.rule("R7.11", "a Trace impl emits an edge for every element of the collection it walks", floor=11)
def r7_11(rep):
    """`constrain` reads whole collections (`info.base_members()`, `fields()`, `template_arguments()`); the re-queue map is built from
    the traced edges.  R7.1 matches reads to emissions per storage site and treats an unknown condition as "may hold", so an edge that
    is emitted for SOME elements only (virtual bases skipped "because they get no field") would satisfy it while the class is no longer
    re-queued when its virtual base changes: its vtable / destructor / float facts then depend on the item numbering (seeded change).
    Inside the loop (or iterator closure) that walks a collection, nothing may stand between the loop head and the `visit*` call."""
    prog = rep.prog
    g = tg.TraceGraph(prog)
    n = 0
    per = {}
    for p, ems in sorted(g.emissions.items()):
        b = prog.bodies[p]
        for e in ems:
            scope = next((a for a in b.ancestors(e.node) if a["k"] in ("For", "While", "Loop", "Closure")), None)
            if scope is None:
                continue
            n += 1
            body = scope["body"]
            base = b.guards(body, nested=True) if scope["k"] != "Closure" else b.guards(scope, nested=True)
            extra = [g3 for g3 in b.guards(e.node, nested=True) if g3 not in base and not (g3[1] == "cond" and is_log(b, g3[2]))]
            who = short(b.fact.get("impl_self") or "") or p.split("::")[-2]
            k0 = "every-element:%s::%s" % (who, e.kind)
            per[k0] = per.get(k0, 0) + 1
            key = k0 if per[k0] == 1 else "%s#%d" % (k0, per[k0] - 1)
            rep.check(not extra, key, "emitted for every element" if not extra else
                      "the %s edge is only emitted for elements with `%s`: the analyses read the whole collection, so an item is not "
                      "re-queued when one of the skipped neighbours changes" %
                      (e.kind, (b.canon(extra[0][2], 4)[:70] if extra[0][1] == "cond" else extra[0][1])), b.loc(e.node))
    rep.need(n >= 11, "edge emissions inside loops over stored collections")


# =====================================================================================================
# R7.12  UsedTemplateParameters covers everything reachable, also behind blocklisted items
# =====================================================================================================
@RULES.rule("R7.12", "UsedTemplateParameters: usage sets and the initial worklist cover the closure of the allowlisted items under tracing", floor=3)
def r7_12(rep):
    """This analysis also has to constrain items that are NOT allowlisted (an instantiation of a blocklisted template uses all its
    arguments).  `allowlisted_items()` stops at blocklisted items, so they have to be added by tracing from the allowlisted ones — to
    a fixed point, because a blocklisted item can sit behind another one (a type reference to `Wrap<A>` is blocklisted by name like the
    instantiation it refers to).  One step of tracing left that instantiation without a worklist slot: whether `Holder` kept its
    parameter depended on the declaration order (found by a seeding agent on the pinned tree, fixed).  Both `new` and
    `initial_worklist` must take their items from one helper that loops until nothing new is found."""
    prog = rep.prog
    a = next((x for x in analyses(rep) if x.name == "UsedTemplateParameters"), None)
    rep.need(a, "the UsedTemplateParameters analysis")
    used = {}
    for nm in ("new", "initial_worklist"):
        b = a.methods.get(nm)
        rep.need(b, "UsedTemplateParameters::" + nm)
        helpers = [c for c in b.calls(lambda x: x["k"] == "Call" and (x.get("callee") or "") in prog.bodies and
                                      "UsedTemplateParameters" in (x.get("callee") or "") and (x.get("callee") or "").split("::")[-1] not in ("new",))]
        own_trace = [c for c in b.calls(lambda x: x["k"] == "MCall" and x["name"] == "trace") if not in_macro(b, c, ASSERTS | {"cfg"})]
        used[nm] = {(c.get("callee") or "") for c in helpers}
        if nm == "initial_worklist":
            rep.check(bool(helpers) and not own_trace, "worklist-from-closure", "the initial worklist is the helper's closure" if helpers and not own_trace else
                      "initial_worklist traces one step from the allowlisted items itself: items behind a blocklisted item never get a turn", b.loc(b.root))
    common = used["new"] & used["initial_worklist"]
    rep.check(bool(common), "same-item-set", "`new` and `initial_worklist` take their items from %s" % ", ".join(sorted(x.split("::")[-1] for x in common)) if common else
              "`new` and `initial_worklist` compute their item sets separately", a.methods["new"].loc(a.methods["new"].root))
    for h in sorted(common):
        hb = prog.bodies[h]
        loops = [l for l in hb.walk() if l["k"] in ("While", "Loop")]
        ok = False
        for l in loops:
            pops = [c for c in hb.calls(lambda x: x["k"] == "MCall" and x["name"] in ("pop", "pop_front", "pop_back")) if any(y is c for y in hb.walk(l))]
            pushes = [c for c in hb.calls(lambda x: x["k"] == "MCall" and x["name"] in ("push", "push_back", "extend"), l["body"])]
            traces = [c for c in hb.calls(lambda x: x["k"] == "MCall" and x["name"] == "trace", l["body"])]
            same = any(strip(p["recv"]).get("id") is not None and strip(p["recv"]).get("id") == strip(q["recv"]).get("id") for p in pops for q in pushes)
            ok = ok or (bool(pops) and bool(traces) and same)
        rep.check(ok, "closure-to-fixpoint@%s" % h.split("::")[-1], "worklist loop: pop, trace, push what is new" if ok else
                  "`%s` does not iterate to a fixed point (no loop that pops an item, traces it and pushes the newly found ones)" % h.split("::")[-1], hb.loc(hb.root))
