"""C11 — output is a pure function of inputs across processes, repeats and threads.

What can be decided from the shape of the code (and only that):

  R11.1  every iteration over a hash container is classified by *type* (hasher + key type) into
         `unstable` (order differs between processes) or `hash-ordered-but-stable` (order is a function
         of the insertion history alone) and by *sink* (order-insensitive or ordered).  unstable -> ordered
         is a violation; stable -> ordered must be one of the frozen, individually justified flows.
  R11.2  no ambient mutable state (statics).
  R11.3  no nondeterminism source reachable from the generation entry points.
  R11.4  libclang is loaded (and re-installed for the calling thread) before any clang call of a
         public entry.
  R11.5  the containers that order the output are ordered containers.

All repository knowledge (frozen tables) lives in this file.
"""
import re
from collections import defaultdict

from engine import RuleSet
from hir import Program, kids, strip

RULES = RuleSet("C11", "§3 C11",
                not_decided=["byte identity of two concrete outputs (a relation between two runs)",
                             "thread interleavings inside libclang and the order in which libclang reports cursors",
                             "that a custom `Hash` impl hashes what its field types suggest (keys are classified by type)",
                             "history dependence through process-wide values that are initialised once from the "
                             "environment (CURRENT_RUST, LIBCLANG): later changes of RUSTC / LIBCLANG_PATH are not seen"])

# ==================================================================================================
# type strings
# ==================================================================================================

HASH_HEADS = ("std::collections::HashMap", "std::collections::HashSet", "hashbrown::HashMap", "hashbrown::HashSet")
ORDERED_SET_HEADS = ("std::collections::BTreeMap", "std::collections::BTreeSet")
WRAPPERS = ("std::cell::Ref", "std::cell::RefMut", "std::boxed::Box", "std::rc::Rc", "std::sync::Arc",
            "std::sync::MutexGuard", "std::sync::RwLockReadGuard", "std::sync::RwLockWriteGuard")
INT_TYPES = {"usize", "u8", "u16", "u32", "u64", "u128", "isize", "i8", "i16", "i32", "i64", "i128", "bool"}


def split_generic(t):
    """'a::B<X, Y<Z>>' -> ('a::B', ['X', 'Y<Z>'])   (lifetimes are dropped from the argument list)"""
    t = t.strip()
    i = t.find("<")
    if i <= 0 or not t.endswith(">"):
        return t, []
    head, inner = t[:i], t[i + 1:-1].replace("->", "→")
    args, depth, cur = [], 0, ""
    for ch in inner:
        if ch in "<([":
            depth += 1
        elif ch in ">)]":
            depth -= 1
        if ch == "," and depth == 0:
            args.append(cur.strip())
            cur = ""
        else:
            cur += ch
    if cur.strip():
        args.append(cur.strip())
    return head, [a.replace("→", "->") for a in args if not re.fullmatch(r"'\w+", a)]


def peel(t):
    """strip references and transparent smart-pointer / guard wrappers from a type string."""
    t = (t or "").strip()
    while True:
        m = re.match(r"&(?:'\w+ )?(?:mut )?", t)
        if m:
            t = t[m.end():].strip()
            continue
        head, args = split_generic(t)
        if head in WRAPPERS and args:
            t = args[0]
            continue
        return t


def hash_container(t):
    """(kind, key, hasher) when the peeled type string is a hash map / set, else None."""
    head, args = split_generic(peel(t))
    if head not in HASH_HEADS or not args:
        return None
    if head.endswith("HashMap"):
        hasher = args[2] if len(args) > 2 else "std::hash::RandomState"
    else:
        hasher = args[1] if len(args) > 1 else "std::hash::RandomState"
    return (head.split("::")[-1], args[0], hasher)


def flattened_hash_container(t):
    """the hash container type that `Flatten<I>` / `FlatMap<I, U, F>` iterates implicitly (None when there is none)."""
    head, args = split_generic((t or "").strip())
    if head == "std::iter::FlatMap" and len(args) > 1:
        return peel(args[1]) if hash_container(args[1]) else None
    if head != "std::iter::Flatten" or not args:
        return None
    src = args[0]
    for h in HASH_HEADS:
        i = src.find(h + "<")
        if i >= 0:
            depth = 0
            for j in range(i, len(src)):
                if src[j] == "<":
                    depth += 1
                elif src[j] == ">" and src[j - 1] != "-":
                    depth -= 1
                    if depth == 0:
                        return src[i:j + 1]
    return None


def is_setlike(t):
    head, _ = split_generic(peel(t))
    return head in HASH_HEADS or head in ORDERED_SET_HEADS


PATH_RE = re.compile(r"[A-Za-z_][A-Za-z0-9_]*(?:::[A-Za-z_][A-Za-z0-9_]*)+|[A-Za-z_][A-Za-z0-9_]*")


class Types:
    """queries over type strings that look through the crate's own ADTs."""

    def __init__(self, prog):
        self.prog = prog
        self._memo = {}

    def mentions(self, t, pred, tag):
        """does type string t, or a field of a crate ADT it names (transitively), satisfy pred(type string)?"""
        key = (tag, t)
        if key in self._memo:
            return self._memo[key]
        self._memo[key] = None  # cycle: no new information
        r = pred(t)
        if r is None:
            for p in set(PATH_RE.findall(t)):
                adt = self.prog.adts.get(p)
                if adt is None:
                    continue
                for v in adt["variants"]:
                    for f in v["fields"]:
                        r = self.mentions(self.prog.types[f["ty"]], pred, tag)
                        if r:
                            r = "%s.%s: %s" % (v["path"].split("::")[-1], f["name"], r)
                            break
                    if r:
                        break
                if r:
                    break
        self._memo[key] = r
        return r

    def address_dependent(self, t):
        """why hashing a value of type t depends on addresses (None when it does not)."""
        def pred(s):
            if "*const " in s or "*mut " in s:
                return "raw pointer"
            if "std::ptr::NonNull<" in s:
                return "NonNull pointer"
            if re.search(r"\bclang_sys::CX\w+", s):
                return "libclang handle " + re.search(r"clang_sys::CX\w+", s).group(0)
            if re.search(r"\bclang::(Cursor|Type)\b", s):
                # their Hash impls forward to clang_hashCursor / the CXType pointers
                return re.search(r"clang::(Cursor|Type)", s).group(0)
            if "fn(" in s:
                return "function pointer"
            return None
        return self.mentions(t, pred, "addr")

    def contains_hash_container(self, t):
        def pred(s):
            for h in HASH_HEADS:
                if h + "<" in s:
                    return "hash container"
            return None
        return self.mentions(t, pred, "hash")

    def classify(self, t):
        """('unstable'|'stable', reason) for a hash container type."""
        hc = hash_container(t)
        kind, key, hasher = hc
        if "RandomState" in hasher:
            return "unstable", "hasher %s is seeded per process" % hasher
        if not ("FxBuildHasher" in hasher or hasher.startswith("std::hash::BuildHasherDefault<")):
            return "unstable", "hasher %s is not known to be deterministic" % hasher
        why = self.address_dependent(key)
        if why:
            return "unstable", "key %s hashes an address (%s)" % (key, why)
        return "stable", "deterministic hasher over value key %s" % key


# ==================================================================================================
# effects / purity (is the order in which a region runs observable?)
# ==================================================================================================

LOG_MACROS = {"trace", "debug", "info", "warn", "error", "panic", "assert", "assert_eq", "assert_ne", "debug_assert",
              "debug_assert_eq", "debug_assert_ne", "unreachable", "unimplemented", "todo", "extra_assert",
              "extra_assert_eq", "eprintln", "eprint", "dbg"}
THROUGH = {"borrow_mut", "borrow", "as_mut", "as_ref", "unwrap", "expect", "deref", "deref_mut", "lock", "get_mut",
           "last_mut", "first_mut", "iter_mut", "as_mut_slice", "by_ref", "unwrap_or_default"}
MUTATORS = {"push", "push_str", "push_back", "push_front", "append", "extend", "extend_from_slice", "insert", "remove",
            "write", "write_str", "write_fmt", "write_all", "set", "replace", "take", "swap", "truncate", "clear", "pop",
            "drain", "sort", "sort_by", "sort_by_key", "sort_unstable", "sort_unstable_by", "sort_unstable_by_key",
            "dedup", "dedup_by", "dedup_by_key", "retain", "append_all", "to_tokens", "get_or_init", "get_or_insert_with",
            "get_or_insert", "entry", "or_insert", "or_insert_with", "or_default", "and_modify", "send", "fetch_add",
            "fetch_sub", "store", "push_punct", "push_value", "extend_one", "resize", "split_off", "next", "update",
            "build", "record_match"}
SET_COMMUTATIVE = {"insert", "remove", "entry", "extend", "get_or_insert_with", "retain", "clear", "or_insert",
                   "or_insert_with", "or_default", "and_modify"}
PURE_PREFIXES = ("std::str::", "core::str::", "str::", "std::iter::Iterator::", "std::string::String::replace",
                 "std::option::Option::<T>::take", "std::cmp::", "std::slice::<impl [T]>::iter")
IMPURE_PREFIXES = ("std::io::", "std::fs::", "std::process::", "std::env::set", "std::env::remove", "std::thread::",
                   "std::time::", "log::")
COMMUTATIVE_OPS = {"+", "|", "&", "^", "*", "+=", "|=", "&=", "^=", "*="}


class Effects:
    """A small, conservative prover: effects(b, region) lists what makes the order in which `region` is
    executed (relative to its siblings in an iteration) observable.  Empty list = order-insensitive."""

    def __init__(self, prog):
        self.prog = prog
        self._pure = {}
        self.impls_of_item = defaultdict(list)
        for p, b in prog.bodies.items():
            ti = b.fact.get("trait_item")
            if ti:
                self.impls_of_item[ti].append(p)
        self.getters = prog.getters()

    # -- ownership of the root of a place expression
    def root(self, n):
        while True:
            k = n.get("k")
            if k in ("Field", "Index"):
                n = n["base"]
            elif k in ("AddrOf", "Cast") or (k == "Unary" and n.get("op") == "*"):
                n = n["e"]
            elif k == "MCall" and n.get("name") in THROUGH:
                n = n["recv"]
            elif k == "Block" and not n["stmts"] and n.get("tail") is not None:
                n = n["tail"]
            else:
                return n

    def own(self, b, n, region, fn_level, direct=False):
        """is the place `n` (or, with direct=True, the variable `n` itself) private to `region`?"""
        if direct and n.get("k") == "Local":
            d = b.local_def.get(n["id"])
            if d and d[0][0] != "param":
                holder = d[0][1]
                if holder is region or any(a is region for a in b.ancestors(holder)):
                    return True
            elif d and fn_level:
                return True
        r = self.root(n)
        k = r.get("k")
        if k == "Local":
            d = b.local_def.get(r["id"])
            if d is None:
                return False
            origin = d[0]
            if origin[0] == "param":
                t = b.ty(r) or ""
                return fn_level and not (t.startswith("&") and not t.startswith("&mut"))
            holder = origin[1]
            if holder.get("body") is region and holder["k"] in ("For", "Closure"):
                # the loop variable / closure parameter of the region itself: own iff it is a value, not a reference
                return not (b.ty(r) or "&").startswith("&")
            if holder is region or any(a is region for a in b.ancestors(holder)):
                t = b.ty(r) or ""
                # a reference bound inside the region may still point outside it
                if t.startswith("&"):
                    init = b.local_init(r["id"])
                    return init is not None and self.own(b, init, region, fn_level)
                return True
            return False
        if k == "Path":
            return False
        # temporaries: literals, constructors, closures, results of calls
        return True

    def fn_pure(self, path):
        """no effect other than through its own by-value / `&mut` parameters and its result."""
        if path in self._pure:
            return self._pure[path]
        self._pure[path] = False  # recursion: assume impure
        b = self.prog.bodies.get(path)
        if b is None:
            impls = self.impls_of_item.get(path)
            r = bool(impls) and all(self.fn_pure(i) for i in impls)
        else:
            r = not self.effects(b, b.root, fn_level=True, limit=1)
        self._pure[path] = r
        return r

    def effects(self, b, region, fn_level=False, limit=4):
        out = []
        stack = [region]
        exits, accumulates = [], 0
        while stack and len(out) < limit:
            n = stack.pop()
            if b.macro_name(n) in LOG_MACROS:
                continue
            k = n["k"]
            why = None
            if k == "MCall":
                why = self._mcall(b, n, region, fn_level)
                if why is None and n["name"] in SET_COMMUTATIVE and not self.own(b, n["recv"], region, fn_level):
                    accumulates += 1
            elif k == "Call":
                why = self._call(b, n, region, fn_level)
            elif k == "Assign":
                if not self.own(b, n["l"], region, fn_level, direct=True) and strip(n["r"]).get("k") != "Lit":
                    why = "assignment to state outside the region"
            elif k == "AssignOp":
                if not self.own(b, n["l"], region, fn_level, direct=True):
                    if not (n.get("op") in COMMUTATIVE_OPS and (b.ty(n["l"]) or "") in INT_TYPES):
                        why = "non-commutative update `%s` of state outside the region" % n.get("op")
                    else:
                        accumulates += 1
            elif k == "Ret" and not fn_level:
                e = n.get("e")
                if e is not None and strip(e).get("k") not in ("Lit", "Path"):
                    why = "early return of a value that depends on the element"
                else:
                    exits.append(n)
            elif k == "Break" and n.get("e") is not None:
                why = "break with a value"
            elif k == "Break" and not fn_level:
                loops = [a for a in b.ancestors(n) if a["k"] in ("For", "While", "Loop")]
                inner_loop_inside = loops and any(a is region for a in b.ancestors(loops[0]))
                if not inner_loop_inside:
                    exits.append(n)
            elif k == "Try" and not fn_level:
                why = "`?` leaves the iteration at the first failing element"
            if why:
                out.append((n, why))
            stack.extend(c for _, c in kids(n))
        if exits and accumulates and not out:
            # `for x in set { if n == 3 { break } n += 1; seen.insert(x) }`: commutative updates are only order-insensitive
            # when every element is visited
            out.append((exits[0], "early exit after accumulating updates: which elements were processed depends on the order"))
        return out

    def _callee_inputs(self, path):
        b = self.prog.bodies.get(path)
        if b is None:
            return None
        return [self.prog.types[i] for i in b.fact.get("inputs", [])]

    def _mcall(self, b, n, region, fn_level):
        name = n["name"]
        callee = n.get("resolved") or n.get("callee") or ""
        recv = n["recv"]
        in_crate = callee in self.prog.bodies or callee in self.impls_of_item
        if in_crate:
            if callee in self.getters:
                return None
            ins = self._callee_inputs(callee)
            if ins and ins[0].startswith("&mut") and not self.own(b, recv, region, fn_level):
                return "`%s` takes `&mut self` of state outside the region" % callee
            for a in n["args"]:
                if (b.ty(a) or "").startswith("&mut") and not self.own(b, a, region, fn_level):
                    return "`&mut` argument of `%s` points outside the region" % callee
            if not self.fn_pure(callee):
                return "`%s` is not provably free of side effects" % callee
            return None
        if callee.startswith(IMPURE_PREFIXES):
            return "`%s`" % callee
        if callee.startswith(PURE_PREFIXES):
            return None
        for a in n["args"]:
            if (b.ty(a) or "").startswith("&mut") and not self.own(b, a, region, fn_level):
                return "`&mut` argument of `%s` points outside the region" % (callee or name)
        if name in MUTATORS and not self.own(b, recv, region, fn_level):
            rt = b.ty(recv) or ""
            if name in SET_COMMUTATIVE and (is_setlike(rt) or "hash_map::Entry<" in rt or "btree_map::Entry<" in rt):
                return None
            return "`%s` on state outside the region" % (callee or name)
        return None

    def _call(self, b, n, region, fn_level):
        callee = n.get("resolved") or n.get("callee")
        if "ctor" in n or n.get("ctor_of"):
            return None
        if callee is None:
            f = n.get("f")
            if f is not None and self.own(b, f, region, fn_level):
                return None
            return "call of a closure / function value defined outside the region"
        in_crate = callee in self.prog.bodies or callee in self.impls_of_item
        for a in n["args"]:
            if (b.ty(a) or "").startswith("&mut") and not self.own(b, a, region, fn_level):
                return "`&mut` argument of `%s` points outside the region" % callee
        if in_crate:
            if callee in self.getters or self.fn_pure(callee):
                return None
            return "`%s` is not provably free of side effects" % callee
        if callee.startswith(IMPURE_PREFIXES) or callee.split("::")[-1] in ("_print", "_eprint"):
            return "`%s`" % callee
        return None


# ==================================================================================================
# hash iteration sites and their sinks
# ==================================================================================================

# inherent methods of HashMap / HashSet that do not expose the iteration order
NON_ITERATING = {"contains", "contains_key", "get", "get_mut", "get_key_value", "insert", "remove", "remove_entry",
                 "entry", "len", "is_empty", "clear", "reserve", "shrink_to_fit", "shrink_to", "capacity", "hasher",
                 "take", "replace", "get_or_insert_with", "try_insert", "is_subset", "is_superset", "is_disjoint",
                 "new", "with_capacity", "with_hasher", "with_capacity_and_hasher", "default", "try_reserve"}
# foreign callees that take a hash container without iterating it / without exposing its order
TRANSPARENT_FOREIGN = ("std::clone::Clone::clone", "std::borrow::ToOwned::to_owned", "std::ops::Deref::deref",
                       "std::ops::DerefMut::deref_mut", "std::mem::take", "std::mem::replace", "std::mem::swap",
                       "std::mem::drop", "std::cmp::PartialEq::eq", "std::cmp::PartialEq::ne", "std::convert::From::from",
                       "std::convert::Into::into", "std::default::Default::default", "std::borrow::Borrow::borrow",
                       "std::convert::AsRef::as_ref", "std::cell::RefCell::<T>::new", "std::cell::RefCell::<T>::borrow",
                       "std::cell::RefCell::<T>::borrow_mut", "std::cell::RefCell::<T>::into_inner",
                       "std::boxed::Box::<T>::new", "std::rc::Rc::<T>::new", "std::sync::Arc::<T>::new")
# foreign (non-std) callees that receive a hash container: frozen, with the reason the order is not observable there
FOREIGN_LOOKUP_ONLY = {
    "cexpr::expr::IdentifierParser::<'ident>::new":
        "cexpr resolves identifiers with `.get(name)`; it never iterates the map of parsed macros",
}
ADAPTERS = {"map", "filter", "filter_map", "flat_map", "flatten", "cloned", "copied", "chain", "peekable", "inspect",
            "fuse", "by_ref", "into_iter", "iter", "map_while"}
INSENSITIVE_TERMINALS = {"any", "all", "count", "sum", "product", "min", "max", "len", "is_empty", "contains",
                         "size_hint"}


def short_ty(t):
    """drop module paths from a type string."""
    return re.sub(r"(?:[A-Za-z_][A-Za-z0-9_]*::)+", "", t or "")


def short_fn(b):
    name = b.path.split("::")[-1]
    # closures and nested fns keep their parent for readability
    f = b.fact
    if f.get("impl_self"):
        s = split_generic(f["impl_self"])[0].split("::")[-1]
        if f.get("impl_trait") and f["impl_trait"].split("::")[-1] in ("From", "Debug", "Clone", "Default"):
            return "<%s as %s>::%s" % (short_ty(f["impl_self"]), f["impl_trait"].split("::")[-1], name)
        return "%s::%s" % (s, name)
    return name


class HashFlows:
    def __init__(self, prog):
        self.prog = prog
        self.types = Types(prog)
        self.eff = Effects(prog)

    # -- description of the container expression (stable under renaming of locals)
    def container_desc(self, b, n, depth=4):
        while n.get("k") in ("AddrOf", "Cast") or (n.get("k") == "Unary" and n.get("op") == "*") or \
                (n.get("k") == "MCall" and (n.get("name") in THROUGH or n.get("name") in ("iter", "into_iter", "values", "cloned", "copied"))):
            n = n.get("e") or n.get("recv")
        k = n.get("k")
        if k == "Field":
            return "%s.%s" % ((n.get("adt") or "?").split("::")[-1], n["f"])
        if k in ("MCall", "Call"):
            callee = n.get("resolved") or n.get("callee") or ""
            g = self.prog.getters().get(callee)
            if g:
                return "%s.%s" % (g[0].split("::")[-1], g[1])
            if callee:
                return callee.split("::")[-1] + "()"
        if k == "Local" and depth > 0:
            init = b.local_init(n["id"])
            if init is not None:
                d = self.container_desc(b, init, depth - 1)
                if not d.startswith("local<") and not d.endswith("()"):
                    return d
            d = b.local_def.get(n["id"])
            if d and d[0][0] == "param":
                return "param<%s>" % short_ty(peel(b.ty(n)))
        return "local<%s>" % short_ty(peel(b.ty(n)))

    # -- all sites
    def sites(self):
        """yield (body, op, container expression node, start node) for every use of a hash container that can
        expose its iteration order.  `start` is the node whose *consumer* decides the sink."""
        prog = self.prog
        for b in prog.bodies.values():
            for n in b.nodes:
                k = n["k"]
                if k == "For":
                    if hash_container(b.ty(n["iter"])):
                        yield (b, "iter", n["iter"], n["iter"])
                    continue
                if k not in ("MCall", "Call"):
                    continue
                if k == "MCall" and n["name"] in ("flatten", "flat_map"):
                    # Option<HashSet<..>>::iter().flatten(), Vec<HashMap<..>>::iter().flatten(), flat_map(|x| &x.set):
                    # the inner container is iterated implicitly; it shows only in the adapter's type
                    inner = flattened_hash_container(b.ty(n))
                    if inner:
                        yield (b, n["name"], n["recv"], n, inner)
                ops = ([("recv", n["recv"])] if k == "MCall" else []) + [(("args", i), a) for i, a in enumerate(n["args"])]
                hits = [(r, o) for r, o in ops if hash_container(b.ty(o))]
                if not hits:
                    continue
                callee = n.get("resolved") or n.get("callee") or ""
                if "ctor" in n or n.get("ctor_of"):
                    continue
                if not callee and k == "Call":
                    continue  # call of a local closure: its body is analysed where it is written
                if callee in prog.bodies:
                    # the iteration, if any, is visible in the callee — provided the parameter is declared as a
                    # hash container (a generic `impl IntoIterator` parameter hides it)
                    ins = [prog.types[i] for i in prog.bodies[callee].fact.get("inputs", [])]
                    for r, o in hits:
                        idx = 0 if r == "recv" else r[1] + (1 if k == "MCall" else 0)
                        if not (idx < len(ins) and hash_container(ins[idx])):
                            yield (b, "use", o, o)
                    continue
                if callee in self.eff.impls_of_item:
                    for r, o in hits:
                        yield (b, "use", o, o)
                    continue
                inherent = re.match(r"(std::collections|hashbrown)::(hash_map::|hash_set::)?Hash(Map|Set)::<", callee)
                if inherent:
                    name = callee.split("::")[-1]
                    if name in NON_ITERATING:
                        continue
                    if k == "MCall" and hits[0][0] == "recv":
                        yield (b, "iter" if name == "into_iter" else name, n["recv"], n)
                    for r, o in hits:
                        if r != "recv":
                            yield (b, name + "-arg", o, n)
                    continue
                trait_callee = n.get("callee") or callee
                if trait_callee.startswith(TRANSPARENT_FOREIGN) or trait_callee.startswith("std::option::Option::") or \
                        trait_callee.startswith("std::result::Result::"):
                    continue
                for r, o in hits:
                    yield (b, "iter" if trait_callee.endswith("IntoIterator::into_iter") else "use", o, o)

    # -- sink classification -----------------------------------------------------------------
    def sink(self, b, start, depth=0):
        """('insensitive'|'ordered', description) for the consumer chain of iterator expression `start`."""
        n = start
        if depth > 4:
            return "ordered", "flow too deep to follow"
        while True:
            p = b.parent[n["_i"]]
            role = b.role[n["_i"]]
            if p is None:
                return "ordered", "returned"
            k = p["k"]
            if k in ("AddrOf", "Cast") or (k == "Unary" and p.get("op") == "*"):
                n = p
                continue
            if k == "Block" and role == "tail":
                if p is b.root or (b.parent[p["_i"]] or {}).get("k") == "Closure":
                    return "ordered", "returned"
                n = p
                continue
            if k in ("Semi",) or (k == "Block" and isinstance(role, tuple)):
                return "insensitive", "discarded"
            if k == "ExprStmt":
                n = p
                continue
            if k == "For" and role == "iter":
                eff = self.eff.effects(b, p["body"])
                if eff:
                    return "ordered", "for"
                return "insensitive", "for(order-insensitive body)"
            if k == "MCall" and role == "recv":
                name = p["name"]
                callee = p.get("callee") or ""
                clos = [strip(a) for a in p["args"] if strip(a).get("k") == "Closure"]
                if name in INSENSITIVE_TERMINALS or name in ADAPTERS or name in ("collect", "for_each"):
                    for c in clos:
                        eff = self.eff.effects(b, c["body"])
                        if eff and name not in ("any", "all"):
                            return "ordered", "%s(closure with side effects)" % name
                if name in INSENSITIVE_TERMINALS:
                    return "insensitive", name
                if name in ADAPTERS:
                    n = p
                    continue
                if name == "for_each":
                    return "insensitive", "for_each(order-insensitive body)"
                if name in ("collect", "from_iter"):
                    return self._collected(b, p, depth)
                if name.startswith("sort") and name in ("sort", "sort_unstable", "sorted", "sorted_unstable"):
                    return "insensitive", name
                if callee in self.prog.bodies:
                    return "ordered", "passed to " + callee.split("::")[-1]
                return "ordered", name
            if k in ("MCall", "Call") and isinstance(role, tuple) and role[0] == "args":
                name = p.get("name") or (p.get("callee") or "").split("::")[-1]
                callee = p.get("resolved") or p.get("callee") or ""
                if callee in FOREIGN_LOOKUP_ONLY:
                    return "insensitive", "lookup-only in " + callee.split("::<")[0]
                if name == "chain":
                    n = p
                    continue
                if name == "zip":
                    return "ordered", "zip"
                if name == "into_iter" and callee.endswith("IntoIterator::into_iter"):
                    n = p
                    continue
                if name == "from_iter":
                    return self._collected(b, p, depth)
                if name in ("extend", "extend_one") and k == "MCall":
                    if is_setlike(b.ty(p["recv"])):
                        return "insensitive", "extend(set/map)"
                    return "ordered", "extend:" + short_ty(split_generic(peel(b.ty(p["recv"])))[0])
                if name in ("is_subset", "is_superset", "is_disjoint", "eq", "ne"):
                    return "insensitive", name
                if name == "new_debug" or re.match(r"debug_(struct|tuple)_field\d+_finish|debug_\w+_fields_finish", name or ""):
                    if b.fact.get("impl_trait") == "std::fmt::Debug" and (b.macro_name(p) or "").startswith("derive"):
                        return "debug-derive", b.fact.get("impl_self")
                    if b.macro_name(p) in LOG_MACROS:
                        return "insensitive", "logged"
                    return "ordered", "debug-fmt"
                if callee.startswith("std::fmt::") or callee.startswith("core::fmt::"):
                    return "ordered", "fmt"
                return "ordered", "passed to " + (callee.split("::<")[0].split("::")[-1] or "closure")
            if k == "Let" and role == "init":
                pat = p["pat"]
                if pat.get("k") != "Bind":
                    return "ordered", "destructured"
                return self._local_uses(b, pat["id"], depth)
            if k == "Match" and role == "scrut" or k == "Try":
                return "ordered", "inspected"
            if k == "Ret":
                return "ordered", "returned"
            if k == "Struct":
                return "ordered", "stored"
            if k == "Assign":
                return "ordered", "stored"
            return "ordered", k.lower()

    def _local_uses(self, b, lid, depth):
        uses = [n for n in b.nodes if n["k"] == "Local" and n.get("id") == lid]
        if not uses:
            return "insensitive", "unused"
        worst = None
        for u in uses:
            kind, d = self.sink(b, u, depth + 1)
            if kind != "insensitive":
                return kind, d
            worst = worst or (kind, d)
        return worst

    def _collected(self, b, coll, depth):
        """`coll` is the collect()/from_iter() call; decide by the collection type, allow sort-before-use."""
        t = peel(b.ty(coll))
        head, args = split_generic(t)
        if head in HASH_HEADS or head in ORDERED_SET_HEADS:
            return "insensitive", "collect:" + short_ty(head)
        desc = "collect:" + short_ty(head)
        p = b.parent[coll["_i"]]
        if p is not None and p["k"] == "Let" and p["pat"].get("k") == "Bind":
            lid = p["pat"]["id"]
            uses = sorted((n for n in b.nodes if n["k"] == "Local" and n.get("id") == lid), key=lambda n: n["_i"])
            if uses:
                u = uses[0]
                q = b.parent[u["_i"]]
                while q is not None and (q["k"] == "AddrOf" or (q["k"] == "Unary" and q.get("op") == "*")):
                    u, q = q, b.parent[q["_i"]]
                if q is not None and q["k"] == "MCall" and b.role[u["_i"]] == "recv" and q["name"] in ("sort", "sort_unstable") \
                        and b.guards(q) == b.guards(p):
                    return "insensitive", desc + "+" + q["name"]
        return "ordered", desc

    # -- everything together
    def analyse(self):
        out = []
        for b, op, cont, start, *ct in self.sites():
            cls, why = self.types.classify(ct[0] if ct else b.ty(cont))
            kind, sdesc = self.sink(b, start)
            desc = self.container_desc(b, cont)
            out.append({"body": b, "op": op, "cont": cont, "start": start, "cls": cls, "why": why,
                        "sink": kind, "sdesc": sdesc, "desc": desc,
                        "key": "%s.%s->%s@%s" % (desc, op, sdesc if kind != "debug-derive" else "derive(Debug)", short_fn(b))})
        return out


# Hash-ordered-but-stable iterations that reach an order-sensitive consumer today.  Each entry says why
# the order cannot reach the bindings (or a side output).  A flow that is not listed is a violation.
STABLE_ORDERED_FLOWS = {
    "BindgenOptions.abi_overrides.iter->find@FunctionSig::abi":
        "FxHasher over the `Abi` discriminant: which of two matching `--override-abi` sets wins is a function of the "
        "option set alone (same in every process)",
    "BindgenOptions.abi_overrides.values_mut->zip@BindgenOptions::build":
        "only compiles each RegexSet (and zips it with the constant name \"--override-abi\"); the order is visible in "
        "stderr diagnostics for invalid regexes only",
    "BindgenOptions.abi_overrides.values_mut->for@BindgenOptions::build":
        "only compiles each RegexSet in place; no value flows between iterations",
    "local<HashMap<Abi, RegexSet, FxBuildHasher>>.iter->for@Builder::command_line_flags":
        "`Builder::command_line_flags` (not the bindings): pushes `--override-abi` flags; keys are `Abi` discriminants, "
        "the order is the same in every process",
    "local<HashMap<Box<str>, Vec<Box<str>>, FxBuildHasher>>.iter->for@Builder::command_line_flags":
        "`Builder::command_line_flags` (not the bindings): pushes `--module-raw-line` flags; string keys, FxHasher",
    "local<HashSet<ItemId, FxBuildHasher>>.iter->for@UsedTemplateParameters::new":
        "the loop body consists of `extra_assert!`s only (the `trace` callback asserts)",
    "local<HashSet<ItemId, FxBuildHasher>>.iter->flat_map(closure with side effects)@UsedTemplateParameters::new":
        "the closure traces each item into its own Vec (the only side effects of `trace` are idempotent memoisation: "
        "OnceCell name caches, RegexSet match flags); the results are collected into a BTreeSet (ItemSet)",
}


def run_r11_1(rep, prog, table, label=""):
    hf = HashFlows(prog)
    flows = hf.analyse()
    listed = {}
    debug_selfs = {}
    for f in flows:
        b, key = f["body"], f["key"]
        loc = b.loc(f["start"])
        detail = "%s container (%s); consumer: %s" % (f["cls"], f["why"], f["sdesc"])
        if f["sink"] == "debug-derive":
            debug_selfs.setdefault(f["sdesc"], []).append(f)
            continue
        if f["sink"] == "insensitive":
            rep.ok(label + key, detail, loc)
        elif f["cls"] == "unstable":
            rep.bad(label + key, "iteration order of an unstable hash container reaches an order-sensitive consumer: " + detail, loc)
        elif key in table:
            listed[key] = table[key]
            rep.ok(label + key, detail + " — accepted: " + table[key], loc)
        else:
            rep.bad(label + key, "new hash-ordered flow into an order-sensitive consumer (not in the frozen table of "
                    "justified flows): " + detail, loc)
    # derive(Debug) over hash-container fields: the order is rendered by `{:?}` of the struct; that rendering
    # may only be produced inside logging / panic macros
    if debug_selfs:
        offenders = defaultdict(list)
        for b in prog.bodies.values():
            for c in b.calls(lambda n: (n.get("callee") or "").endswith("::new_debug")):
                if b.macro_name(c) in LOG_MACROS or b.fact.get("impl_trait") == "std::fmt::Debug":
                    continue
                t = peel(b.ty(c["args"][0]))
                for s in debug_selfs:
                    bare = split_generic(s)[0]
                    if hf.types.mentions(t, lambda x, bare=bare: "it" if re.search(r"\b%s\b" % re.escape(bare), x) else None, "dbg:" + bare):
                        offenders[s].append("%s in %s!" % (b.loc(c), b.macro_name(c)))
        for s, fl in debug_selfs.items():
            for f in fl:
                rep.check(not offenders.get(s), label + f["key"],
                          "%s container rendered by derive(Debug) of %s; `{:?}` of that type appears only in logging/panic "
                          "macros%s" % (f["cls"], short_ty(s), "" if not offenders.get(s) else " — but also at " + ", ".join(offenders[s])),
                          f["body"].loc(f["start"]))
    return hf, flows, listed


# -- positive control: a hand-written fact snippet that must fire / stay silent ----------------------

def _control_program():
    """fn leak(m: &FxHashMap<Cursor, TypeId>) -> Vec<TypeId> { m.values().copied().collect() }           must fire
       fn leak_for(s: &HashSet<String>, out: &mut Vec<String>) { for k in s { out.push(k.clone()) } }      must fire
       fn quiet(m: &FxHashMap<Cursor, TypeId>) -> bool { m.values().any(|v| true) }                        silent
       fn sorted(s: &HashSet<String>) -> Vec<String> { let mut v = s.iter().cloned().collect::<Vec<_>>(); v.sort(); v }  silent
       fn stable(m: &FxHashMap<usize, usize>) -> Vec<usize> { m.keys().copied().collect() }               stable, unlisted
       fn flat(o: &Option<HashSet<String>>) -> Vec<String> { o.iter().flatten().cloned().collect() }       must fire"""
    T = ["&std::collections::HashMap<clang::Cursor, ir::context::TypeId, rustc_hash::FxBuildHasher>",   # 0
         "std::collections::hash_map::Values<'_, clang::Cursor, ir::context::TypeId>",                   # 1
         "std::vec::Vec<ir::context::TypeId>",                                                           # 2
         "&std::collections::HashSet<std::string::String>",                                              # 3
         "&mut std::vec::Vec<std::string::String>",                                                      # 4
         "std::string::String",                                                                          # 5
         "bool",                                                                                         # 6
         "std::vec::Vec<std::string::String>",                                                           # 7
         "&std::collections::HashMap<usize, usize, rustc_hash::FxBuildHasher>",                          # 8
         "std::vec::Vec<usize>",                                                                         # 9
         "()",                                                                                           # 10
         "std::collections::hash_set::Iter<'_, std::string::String>",                                    # 11
         "&std::option::Option<std::collections::HashSet<std::string::String>>",                         # 12
         "std::option::Iter<'_, std::collections::HashSet<std::string::String>>",                        # 13
         "std::iter::Flatten<std::option::Iter<'_, std::collections::HashSet<std::string::String>>>"]    # 14
    S = [0, 1, 0, 1, 1]

    def loc(i, name, t):
        return {"k": "Local", "id": i, "name": name, "s": S, "t": t}

    def mc(name, callee, recv, t, args=()):
        return {"k": "MCall", "name": name, "callee": callee, "recv": recv, "args": list(args), "s": S, "t": t}

    def bind(i, name, t):
        return {"k": "Bind", "id": i, "name": name, "mode": "BindingMode(No, Not)", "t": t}

    def fn(path, params, body, inputs):
        return {"path": path, "kind": "Fn", "s": S, "inputs": inputs, "output": 0, "vis": "Public", "params": params,
                "macros": [], "body": body}

    values = lambda: mc("values", "std::collections::HashMap::<K, V, S, A>::values", loc(0, "m", 0), 1)
    leak = fn("control::leak", [bind(0, "m", 0)],
              {"k": "Block", "s": S, "t": 2, "stmts": [],
               "tail": mc("collect", "std::iter::Iterator::collect", mc("copied", "std::iter::Iterator::copied", values(), 1), 2)}, [0])
    leak_for = fn("control::leak_for", [bind(0, "s", 3), bind(1, "out", 4)],
                  {"k": "Block", "s": S, "t": 10, "stmts": [], "tail":
                   {"k": "For", "s": S, "t": 10, "pat": bind(2, "k", 5), "iter": loc(0, "s", 3),
                    "body": {"k": "Block", "s": S, "t": 10, "stmts": [
                        {"k": "Semi", "e": mc("push", "std::vec::Vec::<T, A>::push", loc(1, "out", 4), 10,
                                              [mc("clone", "std::clone::Clone::clone", loc(2, "k", 5), 5)])}]}}}, [3, 4])
    quiet = fn("control::quiet", [bind(0, "m", 0)],
               {"k": "Block", "s": S, "t": 6, "stmts": [],
                "tail": mc("any", "std::iter::Iterator::any", values(), 6,
                           [{"k": "Closure", "def": "control::quiet::{closure#0}", "params": [bind(1, "v", 5)],
                             "body": {"k": "Lit", "lk": "bool", "v": True, "s": S, "t": 6}, "s": S, "t": 6}])}, [0])
    it = mc("iter", "std::collections::HashSet::<T, S, A>::iter", loc(0, "s", 3), 11)
    sorted_ = fn("control::sorted", [bind(0, "s", 3)],
                 {"k": "Block", "s": S, "t": 7, "stmts": [
                     {"k": "Let", "pat": bind(1, "v", 7), "s": S,
                      "init": mc("collect", "std::iter::Iterator::collect", mc("cloned", "std::iter::Iterator::cloned", it, 11), 7)},
                     {"k": "Semi", "e": mc("sort", "std::slice::<impl [T]>::sort", loc(1, "v", 7), 10)}],
                  "tail": loc(1, "v", 7)}, [3])
    stable = fn("control::stable", [bind(0, "m", 8)],
                {"k": "Block", "s": S, "t": 9, "stmts": [],
                 "tail": mc("collect", "std::iter::Iterator::collect",
                            mc("copied", "std::iter::Iterator::copied",
                               mc("keys", "std::collections::HashMap::<K, V, S, A>::keys", loc(0, "m", 8), 1), 1), 9)}, [8])
    flat = fn("control::flat", [bind(0, "o", 12)],
              {"k": "Block", "s": S, "t": 7, "stmts": [],
               "tail": mc("collect", "std::iter::Iterator::collect",
                          mc("cloned", "std::iter::Iterator::cloned",
                             mc("flatten", "std::iter::Iterator::flatten",
                                mc("iter", "std::option::Option::<T>::iter", loc(0, "o", 12), 13), 14), 14), 7)}, [12])
    return Program({"crate": "control", "files": ["<control>"], "types": T, "adts": [], "impls": [], "traits": [],
                    "statics": [], "fns": [leak, leak_for, quiet, sorted_, stable, flat]})


class _Silent:
    """collects rep.ok / rep.bad of the control run without touching the real report."""

    def __init__(self):
        self.res = {}

    def ok(self, key, detail="", loc=""):
        self.res[key] = True

    def bad(self, key, detail="", loc=""):
        self.res[key] = False

    def check(self, cond, key, detail="", loc=""):
        self.res[key] = bool(cond)
        return cond


@RULES.rule("R11.1", "hash-container iteration order never reaches an order-sensitive consumer", floor=70)
def r11_1(rep):
    """Necessary: iterate `ctx.types` (keyed by `TypeKey`, which holds a `clang::Cursor` whose hash is
    `clang_hashCursor`, i.e. pointer values) or the RandomState-hashed `includes` / `parsed_macros` into a Vec, a
    `find`, a `for` that pushes, … and the result changes with the address-space layout / hash seed of each process.
    A hash-ordered-but-stable iteration (FxHasher over ids or strings) that reaches an order-sensitive consumer makes
    the output a function of the hashing library instead of declaration order (see R11.5); every such flow that
    exists today is frozen below with the reason it cannot reach the bindings, any new one is reported."""
    prog = rep.prog
    hf, flows, listed = run_r11_1(rep, prog, STABLE_ORDERED_FLOWS)
    rep.need(flows, "any iteration over a hash container")
    # every hash-container field of the crate, with its class: shows the classifier sees the address-keyed ones
    unstable_fields, stable_fields = [], []
    for path, adt in prog.adts.items():
        for v in adt["variants"]:
            for f in v["fields"]:
                t = prog.types[f["ty"]]
                inner = t
                # look through Option<..> / RefCell<..> for the field census
                while True:
                    head, args = split_generic(peel(inner))
                    if head in ("std::option::Option", "std::cell::RefCell", "std::cell::Cell") and args:
                        inner = args[0]
                    else:
                        break
                if not hash_container(inner):
                    continue
                cls, why = hf.types.classify(inner)
                name = "%s.%s" % (v["path"].split("::")[-1], f["name"])
                (unstable_fields if cls == "unstable" else stable_fields).append(name)
                iterated = [fl["key"] for fl in flows if fl["desc"] == name]
                if cls == "unstable":
                    bad = [fl["key"] for fl in flows if fl["desc"] == name and fl["sink"] == "ordered"]
                    rep.check(not bad, "field:" + name, "unstable (%s); iterated at: %s" % (why, iterated or "nowhere (probed by key only)"))
                else:
                    rep.ok("field:" + name, "stable (%s); iterated at: %s" % (why, iterated or "nowhere"))
    rep.note("unstable_hash_fields", sorted(unstable_fields))
    rep.note("stable_hash_fields", len(stable_fields))
    rep.note("stable_hash_ordered_flows_into_ordered_consumers", listed)
    rep.note("frozen_flows_no_longer_present", sorted(set(STABLE_ORDERED_FLOWS) - set(listed)))
    # the classifier must recognise the address-keyed maps of the context (else "unstable -> 0" is vacuous)
    rep.check(len(unstable_fields) >= 4, "control:address-keyed-fields-recognised",
              "fields classified unstable: %s" % sorted(unstable_fields))
    # hand-written control program
    ctl = _Silent()
    run_r11_1(ctl, _control_program(), {}, "")
    want = {"param<HashMap<Cursor, TypeId, FxBuildHasher>>.values->collect:Vec@leak": False,
            "param<HashSet<String>>.iter->for@leak_for": False,
            "param<HashMap<Cursor, TypeId, FxBuildHasher>>.values->any@quiet": True,
            "param<HashSet<String>>.iter->collect:Vec+sort@sorted": True,
            "param<HashMap<usize, usize, FxBuildHasher>>.keys->collect:Vec@stable": False,
            "param<Option<HashSet<String>>>.flatten->collect:Vec@flat": False}
    for k, v in want.items():
        good = ctl.res.get(k) is v
        rep.check(good, "control:" + k, "hand-written control snippet %s" % (
            ("fires, as it must" if not v else "is accepted, as it must be") if good else
            "must %s but got %s (all results: %s)" % ("be accepted" if v else "fire", ctl.res.get(k), ctl.res)))


# ==================================================================================================
# R11.2 statics
# ==================================================================================================

# process-wide values that are initialised once and never change afterwards, keyed by the *value type* of the
# OnceLock/LazyLock (renaming or moving the static does not matter; caching anything else is a new finding)
LAZY_STATICS = {
    "std::sync::Arc<clang_sys::SharedLibrary>":
        "the shared libclang handle; loaded once, re-installed per thread by `clang_sys::set_library`",
    "regex::Regex": "a compiled regex (immutable once built; the initialiser is checked to capture nothing)",
    "std::option::Option<features::RustTarget>":
        "`rustc --version` of the build-script environment (RUSTC, RUSTC_WRAPPER), read once per process",
}
# thread_local! values are tolerated only in modules that talk to stderr / cargo and never to the bindings
THREAD_LOCAL_MODULES = {
    "diagnostics::": "diagnostics are printed to stderr / as `cargo:warning=` lines; never part of the bindings",
}
LAZY_TYPES = ("std::sync::OnceLock<", "std::sync::LazyLock<", "std::cell::OnceCell<", "std::cell::LazyCell<")
LAZY_INIT_METHODS = {"get_or_init", "get", "force", "deref", "with"}


def _static_key(path):
    return re.sub(r"(::\{[^}]*\})*::__RUST_STD_INTERNAL_VAL$", "", path)


@RULES.rule("R11.2", "no ambient mutable state: statics are immutable or frozen lazily-initialised values", floor=8)
def r11_2(rep):
    """Necessary: add `static COUNTER: AtomicUsize` and use it to name anonymous items, and the second generation in
    one process (or a concurrent one on another thread) names them differently from the first."""
    prog = rep.prog
    eff = Effects(prog)
    rep.need(prog.statics, "any static")
    seen = set()
    for s in prog.statics:
        key = _static_key(s["path"])
        ty = prog.types[s["ty"]]
        if key in seen:
            continue
        seen.add(key)
        loc = "%s:%d" % (prog.files[s["s"][0]], s["s"][1])
        if s["mut"]:
            rep.bad("static:" + key, "`static mut %s: %s` is ambient mutable state" % (key, ty), loc)
        elif s["thread_local"]:
            why = [r for m, r in THREAD_LOCAL_MODULES.items() if key.startswith(m)]
            rep.check(bool(why), "static:" + key,
                      "thread_local `%s`: %s" % (ty, why[0] if why else "per-thread state outside the modules that only print "
                                                 "diagnostics: it survives from one generation to the next on the same thread"), loc)
        elif s["freeze"]:
            cell = re.search(r"\b(Atomic\w+|Cell|RefCell|UnsafeCell|Mutex|RwLock|OnceLock|LazyLock|OnceCell|LazyCell)\b", ty)
            rep.check(not cell, "static:" + key, "immutable and Freeze (%s)%s" % (
                ty, " — but it refers to interior-mutable `%s`" % cell.group(1) if cell else ""), loc)
        elif ty.startswith(LAZY_TYPES) and split_generic(ty)[1] and split_generic(ty)[1][0] in LAZY_STATICS:
            rep.ok("static:" + key, "write-once %s — %s" % (ty, LAZY_STATICS[split_generic(ty)[1][0]]), loc)
        else:
            rep.bad("static:" + key, "static of type `%s` has interior mutability and is not one of the frozen write-once "
                    "process-wide values: state survives from one generation to the next" % ty, loc)
    # every use of a lazily initialised static is an initialise-once access whose initialiser captures nothing
    # of the generation that happens to run first
    lazy = {s["path"] for s in prog.statics if not s["freeze"] and not s["mut"]}
    for b in prog.bodies.values():
        for n in b.nodes:
            if n["k"] != "Path" or n.get("def") not in lazy:
                continue
            key = _static_key(n["def"])
            p = b.parent[n["_i"]]
            while p is not None and (p["k"] == "AddrOf" or (p["k"] == "Unary" and p.get("op") == "*")):
                p = b.parent[p["_i"]]
            if p is None or p["k"] != "MCall" or p["name"] not in LAZY_INIT_METHODS:
                rep.bad("lazy-use:%s@%s" % (key, short_fn(b)), "`%s` is used other than through get_or_init/get (%s): a later "
                        "generation could replace the value" % (key, (p or {}).get("name") or (p or {}).get("k")), b.loc(n))
                continue
            captured = []
            for a in p["args"]:
                c = strip(a)
                if c.get("k") != "Closure":
                    continue
                for x in b.walk(c["body"]):
                    if x["k"] == "Local":
                        d = b.local_def.get(x["id"])
                        holder = d[0][1] if d and d[0][0] != "param" else None
                        inside = holder is not None and (holder is c or any(h is c for h in b.ancestors(holder)))
                        if not inside:
                            captured.append(x["name"])
            rep.check(not captured, "lazy-use:%s@%s" % (key, short_fn(b)),
                      "initialiser of `%s` captures %s" % (key, sorted(set(captured)) or "nothing"), b.loc(n))


# ==================================================================================================
# R11.3 nondeterminism sources
# ==================================================================================================

ROOTS = ("Bindings::generate", "codegen::codegen", "Builder::generate", "Bindings::write", "Bindings::write_to_file",
         "<Bindings as std::fmt::Display>::fmt")
FORBIDDEN = [
    ("wall-clock", r"^std::time::SystemTime::|^std::time::UNIX_EPOCH|^std::time::Instant::now$"),
    ("process-id", r"^std::process::id$|^std::os::unix::process::parent_id$"),
    ("thread-id", r"^std::thread::current$|^std::thread::Thread::id$|^std::thread::ThreadId"),
    ("random-hasher", r"RandomState::new$|^std::hash::RandomState|^ahash::|^rand::|^getrandom::|^fastrand::"),
    ("address-as-value", r"^std::ptr::(hash|addr_eq)$|::addr$|::expose_provenance$|::expose_addr$|Argument::<'_>::new_pointer$"),
    ("process-state-write", r"^std::env::(set_var|remove_var|set_current_dir)$"),
]
# where a forbidden callee is allowed: (class, in-crate caller) -> reason
ALLOWED_SOURCES = {
    ("wall-clock", "time::Timer"): "`Timer` measures phases and prints them to stderr only",
}


@RULES.rule("R11.3", "no nondeterminism source reachable from generation / emission", floor=9)
def r11_3(rep):
    """Necessary: name an anonymous struct after `std::process::id()` / an `Instant`, or format a pointer (`{:p}`,
    `ptr as usize`) into an identifier or a comment, and two runs on the same input differ."""
    prog = rep.prog
    roots = [r for r in ROOTS if r in prog.bodies]
    rep.need("Bindings::generate" in roots and "codegen::codegen" in roots or None, "Bindings::generate and codegen::codegen")
    drops = sorted(p for p, b in prog.bodies.items() if b.fact.get("impl_trait") == "std::ops::Drop")
    reach = prog.reachable(roots + drops)  # destructors run implicitly: the call graph has no edge to them
    bodies = [prog.bodies[p] for p in reach if p in prog.bodies]
    rep.note("roots", roots)
    rep.note("implicit_roots_drop_impls", len(drops))
    rep.note("reachable_bodies", len(bodies))
    if not rep.check(len(bodies) >= 800, "reachability-non-trivial", "%d bodies reachable from %s" % (len(bodies), roots)):
        return
    # the search itself must see the one allowed clock read (positive control for the call-graph walk)
    found = defaultdict(list)
    for b in bodies:
        for c in prog.callees_of(b):
            for cls, pat in FORBIDDEN:
                if re.search(pat, c):
                    found[cls].append((b, c))
    for cls, _ in FORBIDDEN:
        hits = found.get(cls, [])
        if not hits:
            rep.ok("absent:" + cls, "no such callee in %d reachable bodies" % len(bodies))
        for b, c in hits:
            reason = next((r for (c2, pre), r in ALLOWED_SOURCES.items() if c2 == cls and b.path.startswith(pre)), None)
            rep.check(reason is not None, "%s:%s@%s" % (cls, c.split("::")[-1], short_fn(b)),
                      "`%s` called in `%s`%s" % (c, b.path, " — allowed: " + reason if reason else
                                                   ", which is reachable from the generation entry points"), b.loc(b.root))
    timer = [1 for b, c in found.get("wall-clock", []) if b.path.startswith("time::Timer")]
    rep.check(bool(timer), "control:timer-clock-read-seen", "the walk reaches `Instant::now` inside time::Timer (so it would "
              "reach one elsewhere)")
    # Timer's reading goes to stderr and nowhere else: `elapsed` is only used by `print_elapsed`
    users = [b.path for b in prog.bodies.values() if "time::Timer" not in b.path
             and any(c.startswith("time::Timer") and c.split("::")[-1] in ("elapsed", "print_elapsed") for c in prog.callees_of(b))]
    rep.check(not users, "timer-reading-stays-in-time-rs", "callers of Timer::elapsed outside time.rs: %s" % (users or "none"))
    # pointer -> integer casts and pointer formatting in reachable code
    casts = 0
    for b in bodies:
        for n in b.nodes:
            if n["k"] == "Cast":
                src, dst = b.ty(n["e"]) or "", b.ty(n) or ""
                if (src.startswith("*") or src.startswith("&") or src.startswith("fn(") or " fn(" in src) and dst in INT_TYPES:
                    casts += 1
                    rep.bad("ptr-to-int@" + short_fn(b), "`%s as %s`: an address becomes a value" % (src, dst), b.loc(n))
            elif n["k"] == "Call" and (n.get("callee") or "").split("::")[-1] in ("new_debug", "new_display", "new_pointer", "new_lower_hex", "new_upper_hex"):
                t = peel(b.ty(n["args"][0])) if n["args"] else ""
                raw = re.match(r"&*\s*\*(const|mut) ", (b.ty(n["args"][0]) or "").replace("&", "")) if n["args"] else None
                if raw or n["callee"].endswith("new_pointer"):
                    casts += 1
                    rep.check(b.macro_name(n) in LOG_MACROS, "ptr-format@" + short_fn(b),
                              "a pointer (`%s`) is formatted by %s!" % (b.ty(n["args"][0]), b.macro_name(n)), b.loc(n))
    if not casts:
        rep.ok("absent:pointer-as-value", "no pointer-to-integer cast and no pointer formatting in reachable code")


# ==================================================================================================
# R11.4 libclang is loaded first
# ==================================================================================================

ENSURE = "ensure_libclang_is_loaded"
PRIVATE_HANDLE_MODULES = ("clang::", "ir::", "codegen::", "parse::")


def _direct_callees(b):
    out = set()
    for n in b.nodes:
        if n["k"] in ("Call", "MCall"):
            c = n.get("resolved") or n.get("callee")
            if c:
                out.add(c)
        elif n["k"] == "Path" and n.get("dk") in ("Fn", "AssocFn"):
            out.add(n["def"])
    return out


@RULES.rule("R11.4", "libclang is loaded and installed for the thread before the first clang call of a public entry", floor=6)
def r11_4(rep):
    """Necessary: drop (or move below the first `clang::` call) the `ensure_libclang_is_loaded()` of
    `Bindings::generate` and a generation on a second thread calls into a libclang that was never installed for
    that thread (clang_sys keeps the library per thread) — it panics or, worse, behaves differently per thread."""
    prog = rep.prog
    rep.need(prog.fn(ENSURE), "fn " + ENSURE)
    g = {p: _direct_callees(b) for p, b in prog.bodies.items()}
    needs = {p for p, cs in g.items() if any(c.startswith("clang_sys::clang_") for c in cs)}
    changed = True
    while changed:
        changed = False
        for p, cs in g.items():
            if p not in needs and cs & needs:
                needs.add(p)
                changed = True
    rep.note("bodies_reaching_libclang_symbols", len(needs))
    rep.need(len(needs) >= 50 or None, "bodies that call clang_sys::clang_* (found %d)" % len(needs))

    memo = {}

    def guarded(path, depth=0):
        """the body installs libclang before its first clang-reaching call, or all its clang-reaching callees do."""
        if path in memo:
            return memo[path]
        memo[path] = (False, "recursion")
        b = prog.bodies[path]
        first_need, ens = None, None
        for n in b.nodes:  # pre-order; statements of a block are visited in source order
            if n["k"] not in ("Call", "MCall") and not (n["k"] == "Path" and n.get("dk") in ("Fn", "AssocFn")):
                continue
            c = n.get("resolved") or n.get("callee") or n.get("def")
            if c == ENSURE and ens is None:
                ens = n
            elif c and (c in needs or c.startswith("clang_sys::clang_")) and first_need is None:
                first_need = n
        if ens is not None:
            top = [a for a in b.ancestors(ens)]
            unguarded = not b.guards(ens) and not any(a["k"] in ("Closure", "For", "While", "Loop", "If", "Match") for a in top)
            # statement position in the root block
            def stmt_index(n):
                chain = [n] + list(b.ancestors(n))
                for x in chain:
                    if b.parent[x["_i"]] is b.root:
                        r = b.role[x["_i"]]
                        return r[1] if isinstance(r, tuple) else len(b.root["stmts"])
                return -1
            before = first_need is None or stmt_index(ens) < stmt_index(first_need)
            r = (unguarded and before, "calls %s %s" % (ENSURE, "first" if unguarded and before else
                                                        ("conditionally" if not unguarded else "after `%s`" % (first_need.get("callee") or first_need.get("def")))))
        else:
            callees = sorted(c for c in g[path] if c in needs)
            r = (True, "")
            for c in callees:
                ok, why = guarded(c, depth + 1)
                if not ok:
                    r = (False, "reaches libclang through `%s` without %s" % (c, ENSURE))
                    break
            if r[0]:
                r = (True, "every clang-reaching callee installs libclang first (%s)" % ", ".join(x.split("::")[-1] for x in callees))
        memo[path] = r
        return r

    # public entries: `pub` functions a user can call without already holding a handle that only a running
    # generation can create (no parameter of a crate-private clang/ir/codegen type)
    entries = []
    for p in sorted(needs):
        b = prog.bodies[p]
        if b.fact.get("vis") != "Public" or b.fact.get("impl_trait"):
            continue
        ins = [prog.types[i] for i in b.fact.get("inputs", [])]
        if any(m in t for t in ins for m in PRIVATE_HANDLE_MODULES):
            continue
        if p.startswith(PRIVATE_HANDLE_MODULES):
            continue
        entries.append(p)
    rep.note("public_entries_reaching_libclang", entries)
    for want in ("Builder::generate", "clang_version"):
        rep.need(want in entries or None, "public entry `%s` among the bodies that reach libclang" % want)
    for p in entries:
        ok, why = guarded(p)
        rep.check(ok, "entry:" + p, why, prog.bodies[p].loc(prog.bodies[p].root))
    # the two functions that do the loading call it unconditionally, before anything that reaches libclang
    for p in ("Bindings::generate", "clang_version"):
        b = rep.need(prog.fn(p), "fn " + p)
        ok, why = guarded(p)
        direct = any(c.get("callee") == ENSURE for c in b.calls())
        rep.check(ok and direct, "loads-first:" + p, why if direct else "does not call %s itself" % ENSURE, b.loc(b.root))
    # the loader: the library is loaded once per process (inside the OnceLock initialiser) but installed for
    # *every* calling thread (clang_sys keeps the active library per thread)
    e = prog.fn(ENSURE)
    loads = [c for c in e.calls(lambda n: n.get("callee") == "clang_sys::load")]
    if not loads:
        rep.ok("loader:static-linking", "%s has nothing to load in this configuration" % ENSURE, e.loc(e.root))
        return
    for c in loads:
        init = [a for a in e.ancestors(c) if a["k"] == "MCall" and a["name"] == "get_or_init"
                and strip(a["recv"]).get("k") == "Path" and strip(a["recv"]).get("dk", "").startswith("Static")]
        rep.check(bool(init), "loader:load-once", "`clang_sys::load` runs inside the initialiser of a process-wide OnceLock", e.loc(c))
    sets = [c for c in e.calls(lambda n: n.get("callee") == "clang_sys::set_library")]
    good = []
    for c in sets:
        in_closure = any(a["k"] == "Closure" for a in e.ancestors(c))
        gs = e.guards(c)
        only_loaded_guard = all(kind == "cond" and not pol and strip(g).get("callee") == "clang_sys::is_loaded" for pol, kind, g in gs)
        from_static = "LIBCLANG" in e.canon(c["args"][0]) or "get_or_init" in e.canon(c["args"][0])
        if not in_closure and only_loaded_guard and from_static:
            good.append(c)
    rep.check(bool(good), "loader:install-per-thread",
              "`clang_sys::set_library(<the process-wide handle>)` runs on every call that finds no library installed for "
              "the current thread (%d set_library call(s), %d qualifying)" % (len(sets), len(good)), e.loc(e.root))


# ==================================================================================================
# R11.5 ordered containers on output paths
# ==================================================================================================

# (ADT, field) -> required head of the (Option-peeled) type
ORDERED_FIELDS = {
    ("ir::module::Module", "children"): "std::collections::BTreeSet",
    ("ir::context::BindgenContext", "deps"): "std::collections::BTreeSet",
    ("ir::context::BindgenContext", "allowlisted"): "std::collections::BTreeSet",
    ("ir::context::BindgenContext", "codegen_items"): "std::collections::BTreeSet",
    ("ir::context::BindgenContext", "items"): "std::vec::Vec",
}
FIELD_ACCESSOR = {
    ("ir::module::Module", "children"): "ir::module::Module::children",
    ("ir::context::BindgenContext", "deps"): "ir::context::BindgenContext::deps",
    ("ir::context::BindgenContext", "allowlisted"): "ir::context::BindgenContext::allowlisted_items",
    ("ir::context::BindgenContext", "codegen_items"): "ir::context::BindgenContext::codegen_items",
}
ORDERED_HEADS = {"std::collections::BTreeSet", "std::collections::BTreeMap", "std::vec::Vec", "std::collections::VecDeque",
                 "indexmap::IndexSet", "indexmap::IndexMap"}
# functions whose *result* orders the output: the result type must be an ordered collection
ORDERED_RESULTS = {
    "ir::context::BindgenContext::allowlisted_items": "BTreeSet",
    "ir::context::BindgenContext::codegen_items": "BTreeSet",
    "ir::context::BindgenContext::deps": "BTreeSet",
    "ir::module::Module::children": "BTreeSet",
    "ir::context::BindgenContext::opaque_array_types_needed": "Vec",
}


def _field_type(prog, adt, field):
    a = prog.adts.get(adt)
    if not a:
        return None
    for v in a["variants"]:
        for f in v["fields"]:
            if f["name"] == field:
                return prog.types[f["ty"]]
    return None


@RULES.rule("R11.5", "containers that order the output are ordered containers", floor=15)
def r11_5(rep):
    """Necessary: make `Module::children` a `HashSet<ItemId>` and `Module::codegen` emits the items of every module in
    hash order; make `allowlisted` one and the analyses seed their work lists — and thereby assign the lazily
    numbered anonymous-item ids (`Item::local_id`) — in hash order; drop the sort in `opaque_array_types_needed`
    and the `__BindgenOpaqueArrayN` helper types come out in hash order of their alignments.  With FxHasher such an
    order is the same in every process, but it is a function of rustc-hash's mixing function and of hashbrown's
    growth policy, neither of which is among the inputs the property lists (headers, options, environment, libclang
    version): two builds of bindgen that resolve `rustc-hash` differently would disagree byte-wise.  Golden tests
    with a handful of items rarely notice (small integer keys often iterate in insertion order).
    `codegen_items` is only probed with `contains` today; it is kept in the table because it is the same `ItemSet`
    and R11.1 would otherwise be the only guard the day somebody iterates it."""
    prog = rep.prog
    for (adt, field), head in ORDERED_FIELDS.items():
        if head is None:
            continue
        # the field is identified by its role — what the accessor hands out — so that renaming it is not a missing anchor
        acc = FIELD_ACCESSOR.get((adt, field))
        real = field
        if acc is not None:
            ab = rep.need(prog.fn(acc), "fn " + acc)
            handed = [n["f"] for n in ab.walk() if n["k"] == "Field" and (n.get("adt") or "") == adt and "param:self" in ab.canon(n["base"], 3)]
            if len(set(handed)) == 1:
                real = handed[0]
            elif not handed or _field_type(prog, adt, field) is None:
                # computed on the fly: ORDERED_RESULTS below decides on the result type alone
                rep.ok("field:%s.%s" % (adt.split("::")[-1], field), "`%s` computes its result; decided by its return type" % acc.split("::")[-1])
                continue
        t = rep.need(_field_type(prog, adt, real), "field %s.%s" % (adt, real))
        inner = t
        h, args = split_generic(peel(inner))
        while h in ("std::option::Option", "std::cell::RefCell") and args:
            inner = args[0]
            h, args = split_generic(peel(inner))
        rep.check(h in ORDERED_HEADS, "field:%s.%s" % (adt.split("::")[-1], field),
                  "type is `%s` (must be an ordered collection: today a %s)" % (t, head.split("::")[-1]))
    for path, want in ORDERED_RESULTS.items():
        b = rep.need(prog.fn(path), "fn " + path)
        out = prog.types[b.fact["output"]]
        h = split_generic(peel(out))[0]
        rep.check(h in ORDERED_HEADS, "result:" + short_fn(b), "returns `%s` (must be an ordered collection: today a %s)" % (out, want),
                  b.loc(b.root))
    # ItemSet = BTreeSet<ItemId>: the analyses' per-item results that are *iterated* by codegen
    t = rep.need(_field_type(prog, "ir::context::BindgenContext", "used_template_parameters"), "BindgenContext.used_template_parameters")
    inner = t
    h, args = split_generic(peel(inner))
    while h in ("std::option::Option", "std::cell::RefCell") and args:
        inner = args[0]
        h, args = split_generic(peel(inner))
    vh = split_generic(args[1])[0] if len(args) > 1 else "?"
    rep.check(vh in ORDERED_HEADS, "field:BindgenContext.used_template_parameters",
              "per-item template parameter sets are an ordered collection (`%s`)" % (args[1] if len(args) > 1 else t))
    # ItemId must order by its numeric value (ids are handed out in parse order)
    idt = rep.need(prog.adts.get("ir::context::ItemId"), "struct ItemId")
    fields = idt["variants"][0]["fields"]
    rep.check(len(fields) == 1 and prog.types[fields[0]["ty"]] == "usize", "itemid-is-usize",
              "ItemId wraps a single usize (%s)" % [prog.types[f["ty"]] for f in fields])
    ords = [i for i in prog.impls if i["self_ty"] == "ir::context::ItemId" and i["trait"] in ("std::cmp::Ord", "std::cmp::PartialOrd")]
    rep.check(len(ords) == 2, "itemid-ord", "ItemId implements Ord and PartialOrd (%d impls)" % len(ords))
    for i in ords:
        for it in i["items"]:
            b = prog.bodies.get(it["path"])
            if b is None:
                continue
            derived = any((b.macro_name(n) or "").startswith("derive") for n in b.nodes)
            rep.check(derived, "itemid-ord-derived:" + it["name"], "`%s` is the derived (numeric) order" % it["path"], b.loc(b.root))
    # opaque_array_types_needed: hash set -> Vec -> sort before anything else
    b = rep.need(prog.fn("ir::context::BindgenContext::opaque_array_types_needed"), "fn opaque_array_types_needed")
    hf = HashFlows(prog)
    mine = [(op, cont, start) for bb, op, cont, start, *_ in hf.sites() if bb is b]
    rep.need(mine, "iteration over generated_opaque_array in opaque_array_types_needed")
    for op, cont, start in mine:
        kind, d = hf.sink(b, start)
        rep.check(kind == "insensitive" and d.endswith(("+sort", "+sort_unstable")) or kind == "insensitive" and d.startswith("collect:BTree"),
                  "opaque-array-types-sorted", "alignments: %s.%s -> %s" % (hf.container_desc(b, cont), op, d), b.loc(start))
    # and its only consumer emits them in that order
    users = [x for x in prog.bodies.values() if any(c == b.path for c in prog.callees_of(x))]
    rep.check(bool(users), "opaque-array-types-consumer", "consumed by %s" % [short_fn(u) for u in users])


# ---- added by the main session after an independently seeded change (wrapper file not rewritten when a same-sized file exists)
FS_PROBES = ("std::fs::metadata", "std::fs::symlink_metadata", "std::fs::read", "std::fs::read_to_string", "std::fs::read_dir",
             "std::path::Path::exists", "std::path::Path::is_file", "std::path::Path::is_dir", "std::path::Path::metadata",
             "std::fs::File::open", "std::fs::OpenOptions::open", "std::path::Path::try_exists")


@RULES.rule("R11.6", "outputs are written unconditionally: code generation never looks at what is already on disk", floor=1)
def r11_6(rep):
    """The wrapper source, the depfile and the bindings must be functions of the inputs.  An 'up to date' shortcut such as
    `if fs::metadata(path).len() == code.len() { skip the write }` makes the wrapper file depend on what an earlier, unrelated
    generation left at the same path."""
    prog = rep.prog
    roots = [p for p in prog.bodies if p.startswith("codegen::") or p.startswith("<") and " as codegen::" in p or p.startswith("deps::")]
    rep.need(roots, "code generation functions")
    n = 0
    for p in roots:
        b = prog.bodies[p]
        for c in b.calls():
            callee = c.get("resolved") or c.get("callee") or ""
            if any(callee.startswith(x) for x in FS_PROBES):
                n += 1
                # `if !dir.exists() { create_dir_all(dir)?; }` only makes sure the output directory is there
                iff = [a for a in b.ancestors(c) if a["k"] == "If"]
                if iff and any(x is c for x in b.walk(iff[0]["cond"])) and "else" not in iff[0]:
                    eff = [(x.get("callee") or "") for x in b.calls(None, iff[0]["then"])]
                    if eff and all(e.startswith("std::fs::create_dir") or "Try" in e or e.startswith("std::ops::") or e.startswith("std::convert::") for e in eff):
                        rep.ok("fs-probe:create-output-dir@%s" % p.split("::")[-1], "creates the missing output directory, nothing else", b.loc(c))
                        continue
                rep.bad("fs-probe:%s@%s" % (callee.split("::")[-1], p.split("::")[-1]),
                        "`%s` during code generation: the output depends on the state of the file system, not only on the inputs" % callee, b.loc(c))
    writes = 0
    for p in roots:
        b = prog.bodies[p]
        for c in b.calls(lambda x: (x.get("callee") or "").startswith("std::fs::write")):
            writes += 1
            extra = [a for a, pol, nd in __import__("qq").guard_atoms(b, c) if "items_to_serialize" not in a and "depfile" not in a and "wrap_static_fns" not in a
                     and not a.startswith("let ") and "is_empty" not in a]
            rep.check(not extra, "write-unconditional@%s" % p.split("::")[-1], "the output file is written whenever it is produced (conditions: %s)" % extra[:2], b.loc(c))
    rep.check(writes >= 1, "write-sites", "%d output writes inspected" % writes)


# ---------------------------------------------------------------------------------------------------------
# R11.7  scratch files are private to a generation
# ---------------------------------------------------------------------------------------------------------
UNIQUE_SOURCES = ("std::process::id", "fetch_add", "tempfile", "SystemTime", "std::thread::current", "ThreadId", "uuid", "mkstemp", "mkdtemp")
SCRATCH_EXEMPT = {
    "Builder::dump_preprocessed_input": "a debugging entry point whose documented effect is to write `__bindgen.i` / `__bindgen.ii` into the current directory",
    "ir::dot::write_dot_file": "writes the graph to the path the user passed (--emit-ir-graphviz)",
    "options::cli::builder_from_flags": "the output file named on the command line",
    "deps::DepfileSpec::write": "the depfile path chosen by the user",
    "Bindings::write_to_file": "the output path chosen by the user",
}


def _path_sources(prog, b, e, depth=0, seen=None):
    """(string literal pieces, resolved callee names, BindgenOptions fields) the path expression e is built from; follows immutable lets
    and, for a parameter, the argument at every call site of the function (two levels)."""
    seen = set() if seen is None else seen
    lits, calls, opts = [], [], []
    todo = [e]
    while todo:
        x = todo.pop()
        for n in b.walk(x):
            if n["k"] == "Lit" and isinstance(n.get("v"), str):
                lits.append(re.sub(r"[\x00-\x1f�]", "", n["v"]))
            elif n["k"] in ("Call", "MCall"):
                calls.append(str(n.get("resolved") or n.get("callee") or ""))
            elif n["k"] == "Field" and str(n.get("adt", "")).endswith("BindgenOptions"):
                opts.append(n["f"])
            elif n["k"] == "Local" and (b.path, n["id"]) not in seen:
                seen.add((b.path, n["id"]))
                d = b.local_def.get(n["id"])
                if not d:
                    continue
                if d[0][0] in ("let", "letcond") and d[0][1].get("init") is not None:
                    todo.append(d[0][1]["init"])
                elif d[0][0] == "arm":
                    todo.append(d[0][1]["scrut"])
                elif d[0][0] == "param" and depth < 2:
                    idx = d[0][1]
                    for p2, b2 in prog.bodies.items():
                        for c in b2.nodes:
                            if c["k"] in ("Call", "MCall") and str(c.get("resolved") or c.get("callee") or "") == b.path:
                                args = ([c["recv"]] if c["k"] == "MCall" else []) + list(c.get("args", []))
                                if idx < len(args):
                                    l2, c2, o2 = _path_sources(prog, b2, args[idx], depth + 1, seen)
                                    lits += l2
                                    calls += c2
                                    opts += o2
    return lits, calls, opts


@RULES.rule("R11.7", "files a generation creates for itself have names no concurrent generation can share", floor=2)
def r11_7(rep):
    """Output files are named by the user.  Scratch files are not: the macro fallback writes `<dir>/.macro_eval.c` and
    `<dir>/<headers>-precompile.h.pch` (dir defaults to the working directory), the static-function wrappers default to
    `$TMPDIR/bindgen/extern.c`.  Two generations running at the same time (threads of one process, or two build scripts) then read
    and delete each other's files: with two threads on two headers 13 of 40 generations produced wrong constants."""
    prog = rep.prog
    n = 0
    for p, b in sorted(prog.bodies.items()):
        if not b.file.startswith("bindgen/") or b.file.endswith("build.rs"):
            continue
        for c in b.nodes:
            if c["k"] not in ("Call", "MCall"):
                continue
            cal = str(c.get("resolved") or c.get("callee") or "")
            if cal in ("std::fs::File::create", "std::fs::write"):
                path_e = c["args"][0]
            elif cal == "std::fs::OpenOptions::open":
                opts_chain = b.canon(c["recv"], 8)
                if "create(" not in opts_chain and "write(" not in opts_chain and "truncate(" not in opts_chain:
                    continue
                path_e = c["args"][0]
            else:
                continue
            n += 1
            fn = short_fn(b)
            ex = next((why for k, why in SCRATCH_EXEMPT.items() if b.path.endswith(k) or k in b.path), None)
            if ex:
                rep.ok("scratch-file@" + fn, "exempt: " + ex, b.loc(c))
                continue
            lits, calls, opts = _path_sources(prog, b, path_e)
            names = [l for l in lits if re.search(r"[A-Za-z]", l) and l not in ("c", "cpp")]
            unique = any(any(u in cc for u in UNIQUE_SOURCES) for cc in calls)
            if not names:
                rep.ok("scratch-file@" + fn, "the whole path is chosen by the caller / an option (%s)" % ", ".join(sorted(set(opts))) or "caller", b.loc(c))
            else:
                rep.check(unique, "scratch-file@" + fn,
                          "the name contains a per-generation unique part" if unique else
                          "the file name is fixed (%s) inside a directory several generations can share: concurrent generations overwrite, "
                          "read and delete each other's file" % ", ".join(repr(x) for x in names[:3]), b.loc(c))
    rep.need(n >= 2, "file creations in the library")


# =====================================================================================================
# R11.8  the logger cannot change the output
# =====================================================================================================
LOG_ONLY = {"trace", "debug", "info", "warn", "error", "log"}
CELL_WRITES = {"set", "replace", "update", "take", "swap", "borrow_mut", "get_mut", "replace_with"}


@RULES.rule("R11.8", "log statements only observe: nothing they evaluate writes generation state", floor=200)
def r11_8(rep):
    """The `log` macros evaluate their arguments only when a logger is installed and the level is enabled — process-wide state that
    is not an input of the generation.  bindgen hands out `_bindgen_ty_N` numbers lazily, the first time an item's name is asked
    for (`Item::local_id` -> `next_child_local_id`, a `Cell` counter); a `debug!(.., item.canonical_name(ctx))` therefore renumbers
    anonymous types whenever debug logging is on (seeded change: the same builder gave different bytes after `log::set_logger`).
    Effect functions = every function that writes a `Cell` / `RefCell` directly (caches filled through `OnceCell::get_or_init` count
    through what their initialiser reaches).  Per call and per formatted argument type inside a log macro: no effect function is
    reachable (calls resolved by the compiler are followed exactly; unresolved trait calls fan out to every impl)."""
    prog = rep.prog
    import c07
    effects = {}
    for p, b in prog.bodies.items():
        for c in b.calls():
            cal = c.get("resolved") or c.get("callee") or ""
            if cal.startswith(("std::cell::Cell::", "std::cell::RefCell::")) and cal.split("::")[-1] in CELL_WRITES:
                effects.setdefault(p, set()).add(cal.split("::")[-1])
    rep.need(len(effects) >= 5, "functions that write Cell / RefCell state")
    rep.note("effect-functions", sorted(effects))
    eff = set(effects)
    cache = {}

    def reach(f):
        if f not in cache:
            cache[f] = sorted(prog.reachable([f], precise=True) & eff)
        return cache[f]
    fmt_impls = defaultdict(list)
    for p, b in prog.bodies.items():
        tr = b.fact.get("impl_trait") or ""
        if tr in ("std::fmt::Debug", "std::fmt::Display") and p.endswith("::fmt"):
            fmt_impls[re.sub(r"<.*", "", b.fact.get("impl_self") or "")].append(p)
    n = 0
    per = defaultdict(int)
    for p, b in sorted(prog.bodies.items()):
        for c in b.calls():
            if not c07.in_macro(b, c, LOG_ONLY):
                continue
            cal = c.get("resolved") or c.get("callee") or ""
            targets = []
            if cal in prog.bodies:
                targets.append((cal, "calls `%s`" % cal))
            elif "fmt::rt::Argument" in cal:
                for t in re.findall(r"((?:ir|clang|codegen|options|callbacks|regex_set|features|parse)::[\w:]+)", c.get("gargs", "") or ""):
                    for f in fmt_impls.get(t, []):
                        targets.append((f, "formats a `%s` through `%s`" % (t, f)))
            for f, how in targets:
                n += 1
                hit = reach(f)
                fn = p.split("::")[-1]
                who = re.sub(r"<.*", "", (b.fact.get("impl_self") or "").split("::")[-1])
                key0 = "log-observes:%s@%s" % (f.split("::")[-1] if "Argument" not in cal else "fmt:" + f.split(" as ")[0].split("::")[-1],
                                               (who + "::" if who else "") + fn)
                per[key0] += 1
                key = key0 if per[key0] == 1 else "%s#%d" % (key0, per[key0] - 1)
                rep.check(not hit, key, "observes only" if not hit else
                          "a log statement %s, which reaches %s: the state it writes (and with it the output) now depends on whether a "
                          "logger is installed and on its level" % (how, ", ".join("`%s`" % h for h in hit[:3])), b.loc(c))
    rep.need(n >= 200, "calls / formatted crate types inside log macros")


# =====================================================================================================
# R11.9  an output file holds exactly what this generation wrote
# =====================================================================================================
@RULES.rule("R11.9", "every file opened for writing starts empty", floor=2)
def r11_9(rep):
    """`Bindings::write_to_file` over an existing, longer file must not leave the old tail behind: then the file for given inputs
    depends on what an earlier generation wrote to that path.  `File::create` and `fs::write` truncate; an `OpenOptions` chain that
    asks for `write(true)` must also ask for `truncate(true)`, never for `append`, and not for `create_new` (which turns a left-over
    file of a killed run into a failure - swallowed by `.ok()?` for the macro-fallback scratch file, so constants silently vanish).  Checked for the
    library and the command-line binary."""
    progs = [("lib", rep.prog)]
    try:
        import facts
        from hir import Program as _P
        bf = facts.load_bin()
        progs.append(("cli-bin", _P(bf[0] if isinstance(bf, tuple) else bf)))
    except Exception as e:  # the binary's facts are produced together with the library's
        rep.bad("bin-facts", "facts of the bindgen-cli binary are missing: %s" % e)
    n = 0
    for label, prog in progs:
        for p, b in sorted(prog.bodies.items()):
            for c in b.calls(lambda x: x["k"] == "MCall" and (x.get("callee") or x.get("resolved") or "").endswith("fs::OpenOptions::open")):
                n += 1
                chain = {}
                x = strip(c["recv"])
                seen = 0
                while x.get("k") in ("MCall", "Local", "AddrOf") and seen < 20:
                    seen += 1
                    if x["k"] == "Local":
                        # options set through statements on the builder variable (`opts.write(true).create(true);`)
                        for m_ in b.nodes:
                            if m_["k"] == "MCall" and "fs::OpenOptions::" in (m_.get("callee") or "") and m_ is not c and m_["name"] != "open":
                                r_ = strip(m_["recv"])
                                while r_.get("k") in ("MCall", "AddrOf"):
                                    r_ = strip(r_["recv"] if r_["k"] == "MCall" else r_["e"])
                                if r_.get("k") == "Local" and r_["id"] == x["id"]:
                                    a_ = strip(m_["args"][0]) if m_.get("args") else {}
                                    chain.setdefault(m_["name"], a_.get("v") if a_.get("k") == "Lit" else "?")
                        init = b.local_init(x["id"])
                        if init is None:
                            break
                        x = strip(init)
                        continue
                    if x["k"] == "AddrOf":
                        x = strip(x["e"])
                        continue
                    a = strip(x["args"][0]) if x.get("args") else {}
                    chain[x["name"]] = a.get("v") if a.get("k") == "Lit" else "?"
                    x = strip(x["recv"])
                who = re.sub(r"<.*", "", (b.fact.get("impl_self") or "").split("::")[-1])
                key = "starts-empty@%s%s" % ((who + "::" if who else ""), p.split("::")[-1])
                writes = chain.get("write") not in (None, False) or chain.get("append") not in (None, False)
                ok = (not writes) or (chain.get("truncate") is True and chain.get("create_new") in (None, False) and chain.get("append") in (None, False))
                rep.check(ok, key, "opened with %s" % ", ".join("%s(%s)" % kv for kv in sorted(chain.items())) if ok else
                          ("opened with `create_new` (%s): the open fails when a file of that name is left over from an earlier (killed) or "
                           "concurrent run, so what this generation produces depends on that history" if chain.get("create_new") is True else
                           "opened for writing without truncation (%s): writing a shorter output over an existing file keeps the old tail, so "
                           "the result depends on an earlier run") % ", ".join("%s(%s)" % kv for kv in sorted(chain.items())), b.loc(c))
    rep.need(n >= 2, "OpenOptions::open call sites")
