"""C16 — static-function wrappers (`--wrap-static-fns`).

  R16.1  binding <=> wrapper, decided propositionally inside `Function::codegen`: the reach condition of
         every emission site is turned into a formula over guard atoms (nested early returns included) and
         "internal linkage /\\ extern item pushed  =>  queued in items_to_serialize /\\ link_name::<true>(name+suffix)
         /\\ no other link_name" is decided by truth table; variadic internal functions and internal functions
         without the option reach no emission site; `Function::parse` never classifies CXLinkage_Internal as
         external.
  R16.2  both sides build the wrapper symbol as <name> + `ctx.wrap_static_fns_suffix()`, the getter reads
         the option, the link_name is not `\\u{1}`-prefixed and is pushed to the attribute list of the extern item.
  R16.3  `utils::serialize_items` assembles the file: only exit before writing is "nothing to serialise",
         includes / inline contents precede the wrappers, every queued item is serialised, the buffer is
         written to `wrap_static_fns_path` with `.c` / `.cpp`, errors are propagated by the driver.
  R16.4  `CSerialize for Type` handles the kinds the feature promises, returns `Err` for the others and never
         panics; `Item` dispatches functions to `CSerialize for Function`.
  R16.5  the wrapper text, obtained by abstractly executing `CSerialize for Function` in the four worlds
         (va_list wrapper or not) x (void or not): header `<ret> <name+suffix>(<params>`, one forwarded call
         `<name>(<names>);` whose names come from the same list in the same order, value returned, braces closed.
"""
import re

from engine import RuleSet
from hir import strip, pat_variants, kids
from c14 import T, F, f_not, f_and, f_or, f_eval, f_atoms
import qq

RULES = RuleSet("C16", "§3 C16",
                not_decided=["that the emitted C compiles with the user's flags and behaves identically (needs a C compiler)",
                             "clang's linkage / mangling answers for a concrete header (run-time values)",
                             "that the text written for each TypeKind is the right C spelling of that type"])

FN = "ir::function::Function"
CG = "codegen::CodeGenerator"
CS = "codegen::serialize::CSerialize"
RESULT = "codegen::CodegenResult"
OPT = "options::BindgenOptions"
SUFFIX_GETTER = "ir::context::BindgenContext::wrap_static_fns_suffix"
LINK_NAME = "codegen::helpers::attributes::link_name"
IDENTICAL = "names_will_be_identical_after_mangling"


# ---------------------------------------------------------------------------------------------
# propositional view of guards (atoms are ("opaque", key); formula constructors come from c14)
# ---------------------------------------------------------------------------------------------
class Logic:
    def __init__(self, body):
        self.b = body
        self.info = {}      # atom key -> representative node
        self._reach = {}

    def atom(self, key, n):
        self.info.setdefault(key, n)
        return ("opaque", key)

    # -- Option "is Some" -----------------------------------------------------------------------
    def somef(self, n, depth=16):
        b = self.b
        n = strip(n)
        k = n.get("k")
        if depth <= 0:
            return self.atom("some:" + b.canon(n, 4), n)
        if k == "Local":
            init = b.local_init(n["id"])
            if init is not None:
                si = strip(init)
                # keep a named Option local as ONE atom unless its definition is a plain constructor
                if si.get("k") in ("Path", "Call") and (si.get("def", "").endswith("::None") or (si.get("ctor") or si.get("callee") or "").endswith("::Some")):
                    return self.somef(init, depth - 1)
                if si.get("k") == "MCall" and si["name"] in ("then", "then_some") and b.ty(si["recv"]) == "bool":
                    return self.boolf(si["recv"], depth - 1)
        if k == "Path" and n.get("def", "").endswith("::None"):
            return F
        if k == "Call" and (n.get("ctor") or n.get("callee") or "").endswith("::Some"):
            return T
        if k == "MCall" and n["name"] in ("map", "inspect", "as_ref", "as_mut", "copied", "cloned", "as_deref") and \
                (b.ty(n["recv"]) or "").lstrip("&").startswith("std::option::Option<"):
            return self.somef(n["recv"], depth - 1)
        return self.atom("some:" + b.canon(n, 6), n)

    # -- boolean expressions --------------------------------------------------------------------
    def boolf(self, n, depth=16):
        b = self.b
        n = strip(n)
        k = n.get("k")
        if depth <= 0:
            return self.atom(b.canon(n, 4), n)
        rec = lambda x: self.boolf(x, depth - 1)
        if k == "Lit" and isinstance(n.get("v"), bool):
            return ("const", n["v"])
        if k == "Unary" and n["op"] == "!":
            return f_not(rec(n["e"]))
        if k == "Binary" and n["op"] == "&&":
            return f_and([rec(n["l"]), rec(n["r"])])
        if k == "Binary" and n["op"] == "||":
            return f_or([rec(n["l"]), rec(n["r"])])
        if k == "Binary" and n["op"] in ("==", "!="):
            for a, o in ((n["l"], n["r"]), (n["r"], n["l"])):
                o = strip(o)
                if o.get("k") == "Lit" and isinstance(o.get("v"), bool):
                    f = rec(a)
                    return f if (o["v"] == (n["op"] == "==")) else f_not(f)
                if o.get("k") == "Path" and "Ctor" in (o.get("dk") or "") and "Variant" in (o.get("dk") or ""):
                    f = self.atom("is(%s;%s)" % (b.canon(a, 6), o["def"]), n)
                    return f if n["op"] == "==" else f_not(f)
            return self.atom(b.canon(n, 6), n)
        if k == "Local":
            init = b.local_init(n["id"])
            if init is not None and b.ty(n) == "bool":
                return rec(init)
            return self.atom(b.canon(n, 6), n)
        if k == "MCall" and n["name"] in ("is_some", "is_none") and not n["args"] and \
                (b.ty(n["recv"]) or "").lstrip("&").startswith("std::option::Option<"):
            f = self.somef(n["recv"], depth - 1)
            return f if n["name"] == "is_some" else f_not(f)
        if k == "LetCond":
            pv = pat_variants(n["pat"])
            if pv and all(v.endswith("::Some") for v in pv):
                return self.somef(n["init"], depth - 1)
            if pv and all(v.endswith("::None") for v in pv):
                return f_not(self.somef(n["init"], depth - 1))
            return self.atom("let(%s;%s)" % (b.canon(n["init"], 6), ",".join(sorted(pv))), n)
        if k == "If" and "else" in n:
            c = rec(n["cond"])
            return f_or([f_and([c, rec(n["then"])]), f_and([f_not(c), rec(n["else"])])])
        if k == "Match":
            return self.matchf(n, depth)
        if k == "Block" and n.get("tail") is not None and all(st["k"] == "Let" and "els" not in st for st in n["stmts"]):
            return rec(n["tail"])
        return self.atom(b.canon(n, 6), n)

    def matchf(self, n, depth):
        """bool-valued match: `matches!(x, P)` and `match x { P => true, Q => false }` give the same atom."""
        b = self.b
        st = b.ty(n["scrut"]) or ""
        if st == "bool":
            s = self.boolf(n["scrut"], depth - 1)
            alts, seen = [], set()
            for a in n["arms"]:
                vs = set()
                for v in pat_variants(a["pat"]):
                    vs |= {True, False} if v == "_" else ({True} if v == "lit:True" else {False} if v == "lit:False" else set())
                mine = vs - seen
                if "guard" not in a:
                    seen |= vs
                c = T if mine == {True, False} else s if mine == {True} else f_not(s) if mine == {False} else F
                alts.append(f_and([c, self.boolf(a["body"], depth - 1)]))
            return f_or(alts)
        lits = []
        for a in n["arms"]:
            body = strip(a["body"])
            if "guard" in a or body.get("k") != "Lit" or not isinstance(body.get("v"), bool):
                return self.atom(b.canon(n, 6), n)
            lits.append((pat_variants(a["pat"]), body["v"]))
        tset = set().union(*[vs for vs, v in lits if v]) if any(v for _, v in lits) else set()
        fset = set().union(*[vs for vs, v in lits if not v]) if any(not v for _, v in lits) else set()
        scr = b.canon(n["scrut"], 6)
        if "_" not in tset:
            if not tset:
                return F
            return f_or([self.atom("is(%s;%s)" % (scr, v), n) for v in sorted(tset)])
        if not fset:
            return T
        return f_not(f_or([self.atom("is(%s;%s)" % (scr, v), n) for v in sorted(fset)]))

    def armf(self, m, i):
        b = self.b
        st = (b.ty(m["scrut"]) or "").lstrip("&")
        pv = pat_variants(m["arms"][i]["pat"])
        if st.startswith("std::option::Option<") and pv:
            if all(v.endswith("::Some") for v in pv):
                return self.somef(m["scrut"])
            if all(v.endswith("::None") for v in pv):
                return f_not(self.somef(m["scrut"]))
        if st == "bool":
            s = self.boolf(m["scrut"])
            if pv == {"lit:True"}:
                return s
            if pv == {"lit:False"}:
                return f_not(s)
        if "_" in pv:
            earlier = set()
            for a in m["arms"][:i]:
                earlier |= pat_variants(a["pat"])
            return f_not(f_or([self.atom("is(%s;%s)" % (b.canon(m["scrut"], 6), v), m) for v in sorted(earlier)]))
        return f_or([self.atom("is(%s;%s)" % (b.canon(m["scrut"], 6), v), m) for v in sorted(pv)])

    def letelsef(self, st):
        pv = pat_variants(st["pat"])
        if pv and all(v.endswith("::Some") for v in pv) and st.get("init") is not None:
            return self.somef(st["init"])
        return self.atom("let(%s;%s)" % (self.b.canon(st.get("init", {}), 6), ",".join(sorted(pv))), st)

    def guardf(self, n):
        conj = []
        for pol, kind, g in self.b.guards(n):
            if kind == "cond":
                f = self.boolf(g)
                conj.append(f if pol else f_not(f))
            elif kind == "arm":
                conj.append(self.armf(g[0], g[1]))
            elif kind == "letelse":
                conj.append(self.letelsef(g))
        return f_and(conj)

    # -- reach condition: guards + "no earlier `return` was taken" ------------------------------------
    def _returns(self):
        if not hasattr(self, "_rets"):
            b = self.b
            out = []
            for n in b.nodes:
                if n["k"] != "Ret":
                    continue
                skip = False
                child = n
                for a in b.ancestors(n):
                    if a["k"] == "Closure" or (a["k"] == "Let" and b.role[child["_i"]] == "els"):
                        skip = True     # returns from the closure / already a `letelse` guard
                        break
                    child = a
                if not skip:
                    out.append(n)
            self._rets = out
        return self._rets

    def _precedes(self, r, n):
        """does `return` r lie in a statement that comes before n in a block enclosing both?"""
        b = self.b
        anc_n = {}
        child = n
        for a in b.ancestors(n):
            if a["k"] == "Block":
                role = b.role[child["_i"]]
                anc_n[a["_i"]] = role[1] if isinstance(role, tuple) else len(a["stmts"])
            child = a
        child = r
        for a in b.ancestors(r):
            if a["k"] == "Block" and a["_i"] in anc_n:
                role = b.role[child["_i"]]
                idx = role[1] if isinstance(role, tuple) else len(a["stmts"])
                return idx < anc_n[a["_i"]]
            child = a
        return False

    def reachf(self, n):
        i = n["_i"]
        if i not in self._reach:
            self._reach[i] = T      # cycle guard (cannot happen: `precedes` is a strict order)
            conj = [self.guardf(n)]
            for r in self._returns():
                if r is not n and self._precedes(r, n):
                    conj.append(f_not(self.reachf(r)))
            self._reach[i] = f_and(conj)
        return self._reach[i]


def models(f, atoms):
    atoms = list(atoms)
    for bits in range(1 << len(atoms)):
        env = {a: bool(bits >> i & 1) for i, a in enumerate(atoms)}
        if f_eval(f, env):
            yield env


def counterexamples(ante, cons):
    atoms = sorted(f_atoms(ante) | f_atoms(cons))
    if len(atoms) > 18:
        return None, atoms
    return list(models(f_and([ante, f_not(cons)]), atoms)), atoms


def satisfiable(f):
    atoms = sorted(f_atoms(f))
    if len(atoms) > 18:
        return True
    return next(models(f, atoms), None) is not None


def prime_implicants(rows):
    """rows: set of tuples over {True, False}; returns tuples over {True, False, None} (None = don't care)."""
    cur = set(rows)
    primes = set()
    while cur:
        merged, nxt = set(), set()
        lst = sorted(cur, key=repr)
        for i, a in enumerate(lst):
            for c in lst[i + 1:]:
                diff = [j for j in range(len(a)) if a[j] != c[j]]
                if len(diff) == 1 and a[diff[0]] is not None and c[diff[0]] is not None:
                    nxt.add(tuple(None if j == diff[0] else a[j] for j in range(len(a))))
                    merged.add(a)
                    merged.add(c)
        primes |= cur - merged
        cur = nxt
    return sorted(primes, key=repr)


LABELS = [
    (lambda k: "Linkage::Internal" in k, "is_internal"),
    (lambda k: k.endswith(OPT + "::wrap_static_fns"), "wrap_static_fns"),
    (lambda k: "FunctionSig::is_variadic" in k, "is_variadic"),
    (lambda k: k.startswith("some:") and (FN + "::link_name" in k or IDENTICAL in k), "link_name_attr"),
    (lambda k: "dynamic_library_name" in k, "is_dynamic_function"),
]


def atom_label(key):
    for pred, lab in LABELS:
        if pred(key):
            return lab
    ids = re.findall(r"[A-Za-z_][A-Za-z0-9_]*", key.split("(")[-1] if key.endswith(")") is False else key)
    ids = [x for x in ids if x not in ("some", "is", "let", "param", "self", "ctx", "match", "local", "lit")]
    return ids[-1] if ids else "cond"


def literal(key, val):
    lab = atom_label(key)
    if key.startswith("some:"):
        return lab + (".is_some" if val else ".is_none")
    return lab if val else "!" + lab


# ---------------------------------------------------------------------------------------------
# generic helpers
# ---------------------------------------------------------------------------------------------
def callee(n):
    return n.get("resolved") or n.get("callee") or ""


def resolve(body, n, depth=8):
    """follow immutable let-bound locals (also through `let (a, b) = { ...; (x, y) }`)."""
    while depth > 0:
        depth -= 1
        n = strip(n)
        if n.get("k") != "Local":
            return n
        d = body.local_def.get(n["id"])
        if not d or d[0][0] != "let" or n["id"] in body.local_assigned:
            return n
        init = d[0][1].get("init")
        if init is None:
            return n
        path = d[1]
        cur = strip(init)
        while cur.get("k") == "Block" and cur.get("tail") is not None:
            cur = strip(cur["tail"])
        ok = True
        for adt, f in path:
            if adt == "tuple" and cur.get("k") == "Tup":
                cur = strip(cur["es"][int(f)])
            else:
                ok = False
                break
        if not ok:
            return n
        n = cur
    return n


def mentions(body, n, needle, depth=10, seen=None):
    """does the value of n (immutable locals followed) involve a call / path / field whose resolved name contains needle?"""
    seen = set() if seen is None else seen
    if depth <= 0:
        return False
    for x in body.walk(n):
        if needle in callee(x) or needle in x.get("def", "") or (x.get("k") == "Field" and needle in "%s::%s" % (x.get("adt"), x["f"])):
            return True
        if x.get("k") == "Local" and x["id"] not in seen:
            seen.add(x["id"])
            r = resolve(body, x, 1)
            if r is not x and r.get("k") != "Local" or (r.get("k") == "Local" and r["id"] != x["id"]):
                if mentions(body, r, needle, depth - 1, seen):
                    return True
            else:
                d = body.local_def.get(x["id"])
                if d and d[0][0] == "let" and d[0][1].get("init") is not None and x["id"] not in body.local_assigned:
                    if mentions(body, d[0][1]["init"], needle, depth - 1, seen):
                        return True
    return False


def local_id(n):
    n = strip(n)
    return n["id"] if n.get("k") == "Local" else None


def short(body):
    p = body.path
    m = re.match(r"<(.+?) as (.+?)>::(\w+)$", p)
    if m:
        return "%s::%s" % (m.group(1).split("::")[-1].split("<")[0], m.group(3))
    return "::".join(p.split("::")[-2:]) if p.count("::") else p


def decode_template(v):
    """new-style fmt::Arguments byte template -> ["lit text" | None (placeholder)] in order."""
    out = []
    i = 0
    while i < len(v):
        ch = v[i]
        if ch == "\ufffd":
            out.append(None)
            i += 1
            continue
        L = ord(ch)
        if L == 0:
            break
        i += 1
        s = ""
        used = 0
        while i < len(v) and used < L:
            s += v[i]
            used += len(v[i].encode("utf-8"))
            i += 1
        out.append(s)
    return out


def fmt_pieces(body, root):
    """pieces of the single `format_args!` below root: [("lit", text) | ("arg", expr node)]; None when not found."""
    call = None
    for n in body.walk(root):
        if n["k"] == "Call" and callee(n).startswith("std::fmt::Arguments"):
            call = n
            break
    if call is None:
        return None
    if not callee(call).endswith("::new"):
        a = strip(call["args"][0])
        return [("lit", a["v"])] if a.get("k") == "Lit" and isinstance(a.get("v"), str) else None
    tmpl = strip(call["args"][0])
    if tmpl.get("k") != "Lit" or not isinstance(tmpl.get("v"), str):
        return None
    arr = resolve(body, call["args"][1], 2)
    if arr.get("k") != "Array":
        return None
    exprs = []
    for e in arr["es"]:
        e = strip(e)
        if e.get("k") != "Call" or not e["args"]:
            return None
        a = strip(e["args"][0])
        if a.get("k") == "Field" and strip(a["base"]).get("k") == "Local":
            tup = resolve(body, a["base"], 2)
            if tup.get("k") == "Tup" and a["f"].isdigit() and int(a["f"]) < len(tup["es"]):
                exprs.append(strip(tup["es"][int(a["f"])]))
                continue
        exprs.append(a)
    out = []
    it = iter(exprs)
    for p in decode_template(tmpl["v"]):
        if p is None:
            x = next(it, None)
            if x is None:
                return None
            out.append(("arg", x))
        else:
            out.append(("lit", p))
    return out


PANIC_MACROS = {"panic", "unreachable", "todo", "unimplemented", "assert", "assert_eq", "assert_ne"}


def panic_sites(body):
    out = []
    for n in body.nodes:
        mn = body.macro_name(n)
        if mn in PANIC_MACROS:
            out.append((mn + "!", n))
        elif n["k"] == "Call" and ("panicking::" in callee(n) or "rt::panic" in callee(n) or "begin_panic" in callee(n)):
            out.append((callee(n), n))
        elif n["k"] == "MCall" and n["name"] in ("unwrap", "expect") and \
                (callee(n).startswith("std::option::Option") or callee(n).startswith("std::result::Result")):
            out.append(("." + n["name"] + "()", n))
    seen, uniq = set(), []
    for what, n in out:
        k = (what, body.loc(n))
        if k not in seen:
            seen.add(k)
            uniq.append((what, n))
    return uniq


def is_err_return(body, n):
    """`return Err(CodegenError::Serialize{..})` (possibly as a block tail)."""
    n = strip(n)
    while n.get("k") == "Block":
        if n.get("tail") is not None:
            n = strip(n["tail"])
        elif n["stmts"] and n["stmts"][-1]["k"] in ("Semi", "ExprStmt"):
            n = strip(n["stmts"][-1]["e"])
        else:
            return False
    if n.get("k") != "Ret" or "e" not in n:
        return False
    e = strip(n["e"])
    if e.get("k") != "Call" or not (e.get("ctor") or callee(e)).endswith("::Err"):
        return False
    a = strip(e["args"][0])
    return a.get("k") == "Struct" and "CodegenError" in (a.get("adt") or a.get("res", {}).get("def", ""))
