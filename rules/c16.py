"""C16 — static-function wrappers (`--wrap-static-fns`).

  R16.1  binding <=> wrapper, decided propositionally inside `Function::codegen`: the reach condition of
         every emission site is turned into a formula over guard atoms (nested early returns included) and
         "internal linkage /\\ extern item pushed  =>  queued in items_to_serialize /\\ link_name::<true>(name+suffix)
         /\\ no other link_name" is decided by truth table; variadic internal functions and internal functions
         without the option reach no emission site; `Function::parse` never classifies CXLinkage_Internal as
         external.
  R16.2  both sides build the wrapper symbol as <name> + `ctx.wrap_static_fns_suffix()`, the getter reads
         the option, the link_name is not `\\u{1}`-prefixed and is pushed to the attribute list of the extern item.
  R16.3  `utils::serialize_items` assembles the file: only exit before writing is "nothing to serialise",
         includes / inline contents precede the wrappers, every queued item is serialised, the buffer is
         written to `wrap_static_fns_path` with `.c` / `.cpp`, errors are propagated by the driver.
  R16.4  `CSerialize for Type` handles the kinds the feature promises, returns `Err` for the others and never
         panics; `Item` dispatches functions to `CSerialize for Function`.
  R16.6  every fresh `CodegenResult` either reaches `serialize_items` or merges its `items_to_serialize` into its parent.
  R16.5  the wrapper text, obtained by abstractly executing `CSerialize for Function` in the four worlds
         (va_list wrapper or not) x (void or not): header `<ret> <name+suffix>(<params>`, one forwarded call
         `<name>(<names>);` whose names come from the same list in the same order, value returned, braces closed.
"""
import re

from engine import RuleSet
from hir import strip, pat_variants, kids
from c14 import T, F, f_not, f_and, f_or, f_eval, f_atoms
import qq

RULES = RuleSet("C16", "§3 C16",
                not_decided=["that the emitted C compiles with the user's flags and behaves identically (needs a C compiler)",
                             "clang's linkage / mangling answers for a concrete header (run-time values)",
                             "that the text written for each TypeKind is the right C spelling of that type"])

FN = "ir::function::Function"
CG = "codegen::CodeGenerator"
CS = "codegen::serialize::CSerialize"
RESULT = "codegen::CodegenResult"
OPT = "options::BindgenOptions"
SUFFIX_GETTER = "ir::context::BindgenContext::wrap_static_fns_suffix"
LINK_NAME = "codegen::helpers::attributes::link_name"
IDENTICAL = "names_will_be_identical_after_mangling"


# ---------------------------------------------------------------------------------------------
# propositional view of guards (atoms are ("opaque", key); formula constructors come from c14)
# ---------------------------------------------------------------------------------------------
class Logic:
    def __init__(self, body):
        self.b = body
        self.info = {}      # atom key -> representative node
        self._reach = {}

    def atom(self, key, n):
        self.info.setdefault(key, n)
        return ("opaque", key)

    # -- Option "is Some" -----------------------------------------------------------------------
    def somef(self, n, depth=16):
        b = self.b
        n = strip(n)
        k = n.get("k")
        if depth <= 0:
            return self.atom("some:" + b.canon(n, 4), n)
        if k == "Local":
            init = b.local_init(n["id"])
            if init is not None:
                si = strip(init)
                # keep a named Option local as ONE atom unless its definition is a plain constructor
                if si.get("k") in ("Path", "Call") and (si.get("def", "").endswith("::None") or (si.get("ctor") or si.get("callee") or "").endswith("::Some")):
                    return self.somef(init, depth - 1)
                if si.get("k") == "MCall" and si["name"] in ("then", "then_some") and b.ty(si["recv"]) == "bool":
                    return self.boolf(si["recv"], depth - 1)
        if k == "Path" and n.get("def", "").endswith("::None"):
            return F
        if k == "Call" and (n.get("ctor") or n.get("callee") or "").endswith("::Some"):
            return T
        if k == "MCall" and n["name"] in ("map", "inspect", "as_ref", "as_mut", "copied", "cloned", "as_deref") and \
                (b.ty(n["recv"]) or "").lstrip("&").startswith("std::option::Option<"):
            return self.somef(n["recv"], depth - 1)
        return self.atom("some:" + b.canon(n, 6), n)

    # -- boolean expressions --------------------------------------------------------------------
    def boolf(self, n, depth=16):
        b = self.b
        n = strip(n)
        k = n.get("k")
        if depth <= 0:
            return self.atom(b.canon(n, 4), n)
        rec = lambda x: self.boolf(x, depth - 1)
        if k == "Lit" and isinstance(n.get("v"), bool):
            return ("const", n["v"])
        if k == "Unary" and n["op"] == "!":
            return f_not(rec(n["e"]))
        if k == "Binary" and n["op"] == "&&":
            return f_and([rec(n["l"]), rec(n["r"])])
        if k == "Binary" and n["op"] == "||":
            return f_or([rec(n["l"]), rec(n["r"])])
        if k == "Binary" and n["op"] in ("==", "!="):
            for a, o in ((n["l"], n["r"]), (n["r"], n["l"])):
                o = strip(o)
                if o.get("k") == "Lit" and isinstance(o.get("v"), bool):
                    f = rec(a)
                    return f if (o["v"] == (n["op"] == "==")) else f_not(f)
                if o.get("k") == "Path" and "Ctor" in (o.get("dk") or "") and "Variant" in (o.get("dk") or ""):
                    f = self.atom("is(%s;%s)" % (b.canon(a, 6), o["def"]), n)
                    return f if n["op"] == "==" else f_not(f)
            return self.atom(b.canon(n, 6), n)
        if k == "Local":
            init = b.local_init(n["id"])
            if init is not None and b.ty(n) == "bool":
                return rec(init)
            return self.atom(b.canon(n, 6), n)
        if k == "MCall" and n["name"] in ("is_some", "is_none") and not n["args"] and \
                (b.ty(n["recv"]) or "").lstrip("&").startswith("std::option::Option<"):
            f = self.somef(n["recv"], depth - 1)
            return f if n["name"] == "is_some" else f_not(f)
        if k == "LetCond":
            pv = pat_variants(n["pat"])
            if pv and all(v.endswith("::Some") for v in pv):
                return self.somef(n["init"], depth - 1)
            if pv and all(v.endswith("::None") for v in pv):
                return f_not(self.somef(n["init"], depth - 1))
            return self.atom("let(%s;%s)" % (b.canon(n["init"], 6), ",".join(sorted(pv))), n)
        if k == "If" and "else" in n:
            c = rec(n["cond"])
            return f_or([f_and([c, rec(n["then"])]), f_and([f_not(c), rec(n["else"])])])
        if k == "Match":
            return self.matchf(n, depth)
        if k == "Block" and n.get("tail") is not None and all(st["k"] == "Let" and "els" not in st for st in n["stmts"]):
            return rec(n["tail"])
        return self.atom(b.canon(n, 6), n)

    def matchf(self, n, depth):
        """bool-valued match: `matches!(x, P)` and `match x { P => true, Q => false }` give the same atom."""
        b = self.b
        st = b.ty(n["scrut"]) or ""
        if st == "bool":
            s = self.boolf(n["scrut"], depth - 1)
            alts, seen = [], set()
            for a in n["arms"]:
                vs = set()
                for v in pat_variants(a["pat"]):
                    vs |= {True, False} if v == "_" else ({True} if v == "lit:True" else {False} if v == "lit:False" else set())
                mine = vs - seen
                if "guard" not in a:
                    seen |= vs
                c = T if mine == {True, False} else s if mine == {True} else f_not(s) if mine == {False} else F
                alts.append(f_and([c, self.boolf(a["body"], depth - 1)]))
            return f_or(alts)
        lits = []
        for a in n["arms"]:
            body = strip(a["body"])
            if "guard" in a or body.get("k") != "Lit" or not isinstance(body.get("v"), bool):
                return self.atom(b.canon(n, 6), n)
            lits.append((pat_variants(a["pat"]), body["v"]))
        tset = set().union(*[vs for vs, v in lits if v]) if any(v for _, v in lits) else set()
        fset = set().union(*[vs for vs, v in lits if not v]) if any(not v for _, v in lits) else set()
        scr = b.canon(n["scrut"], 6)
        if "_" not in tset:
            if not tset:
                return F
            return f_or([self.atom("is(%s;%s)" % (scr, v), n) for v in sorted(tset)])
        if not fset:
            return T
        return f_not(f_or([self.atom("is(%s;%s)" % (scr, v), n) for v in sorted(fset)]))

    def armf(self, m, i):
        b = self.b
        st = (b.ty(m["scrut"]) or "").lstrip("&")
        pv = pat_variants(m["arms"][i]["pat"])
        if st.startswith("std::option::Option<") and pv:
            if all(v.endswith("::Some") for v in pv):
                return self.somef(m["scrut"])
            if all(v.endswith("::None") for v in pv):
                return f_not(self.somef(m["scrut"]))
        if st == "bool":
            s = self.boolf(m["scrut"])
            if pv == {"lit:True"}:
                return s
            if pv == {"lit:False"}:
                return f_not(s)
        if "_" in pv:
            earlier = set()
            for a in m["arms"][:i]:
                earlier |= pat_variants(a["pat"])
            return f_not(f_or([self.atom("is(%s;%s)" % (b.canon(m["scrut"], 6), v), m) for v in sorted(earlier)]))
        return f_or([self.atom("is(%s;%s)" % (b.canon(m["scrut"], 6), v), m) for v in sorted(pv)])

    def letelsef(self, st):
        pv = pat_variants(st["pat"])
        if pv and all(v.endswith("::Some") for v in pv) and st.get("init") is not None:
            return self.somef(st["init"])
        return self.atom("let(%s;%s)" % (self.b.canon(st.get("init", {}), 6), ",".join(sorted(pv))), st)

    def guardf(self, n):
        conj = []
        for pol, kind, g in self.b.guards(n):
            if kind == "cond":
                f = self.boolf(g)
                conj.append(f if pol else f_not(f))
            elif kind == "arm":
                conj.append(self.armf(g[0], g[1]))
            elif kind == "letelse":
                conj.append(self.letelsef(g))
        return f_and(conj)

    # -- reach condition: guards + "no earlier `return` was taken" ------------------------------------
    def _returns(self):
        if not hasattr(self, "_rets"):
            b = self.b
            out = []
            for n in b.nodes:
                if n["k"] != "Ret":
                    continue
                skip = False
                child = n
                for a in b.ancestors(n):
                    if a["k"] == "Closure" or (a["k"] == "Let" and b.role[child["_i"]] == "els"):
                        skip = True     # returns from the closure / already a `letelse` guard
                        break
                    child = a
                if not skip:
                    out.append(n)
            self._rets = out
        return self._rets

    def _precedes(self, r, n):
        """does `return` r lie in a statement that comes before n in a block enclosing both?"""
        b = self.b
        anc_n = {}
        child = n
        for a in b.ancestors(n):
            if a["k"] == "Block":
                role = b.role[child["_i"]]
                anc_n[a["_i"]] = role[1] if isinstance(role, tuple) else len(a["stmts"])
            child = a
        child = r
        for a in b.ancestors(r):
            if a["k"] == "Block" and a["_i"] in anc_n:
                role = b.role[child["_i"]]
                idx = role[1] if isinstance(role, tuple) else len(a["stmts"])
                return idx < anc_n[a["_i"]]
            child = a
        return False

    def reachf(self, n):
        i = n["_i"]
        if i not in self._reach:
            self._reach[i] = T      # cycle guard (cannot happen: `precedes` is a strict order)
            conj = [self.guardf(n)]
            for r in self._returns():
                if r is not n and self._precedes(r, n):
                    conj.append(f_not(self.reachf(r)))
            self._reach[i] = f_and(conj)
        return self._reach[i]


def models(f, atoms):
    atoms = list(atoms)
    for bits in range(1 << len(atoms)):
        env = {a: bool(bits >> i & 1) for i, a in enumerate(atoms)}
        if f_eval(f, env):
            yield env


def counterexamples(ante, cons):
    atoms = sorted(f_atoms(ante) | f_atoms(cons))
    if len(atoms) > 18:
        return None, atoms
    return list(models(f_and([ante, f_not(cons)]), atoms)), atoms


def satisfiable(f):
    atoms = sorted(f_atoms(f))
    if len(atoms) > 18:
        return True
    return next(models(f, atoms), None) is not None


def prime_implicants(rows):
    """rows: set of tuples over {True, False}; returns tuples over {True, False, None} (None = don't care)."""
    cur = set(rows)
    primes = set()
    while cur:
        merged, nxt = set(), set()
        lst = sorted(cur, key=repr)
        for i, a in enumerate(lst):
            for c in lst[i + 1:]:
                diff = [j for j in range(len(a)) if a[j] != c[j]]
                if len(diff) == 1 and a[diff[0]] is not None and c[diff[0]] is not None:
                    nxt.add(tuple(None if j == diff[0] else a[j] for j in range(len(a))))
                    merged.add(a)
                    merged.add(c)
        primes |= cur - merged
        cur = nxt
    return sorted(primes, key=repr)


LABELS = [
    (lambda k: "Linkage::Internal" in k, "is_internal"),
    (lambda k: k.endswith(OPT + "::wrap_static_fns"), "wrap_static_fns"),
    (lambda k: "FunctionSig::is_variadic" in k, "is_variadic"),
    (lambda k: k.startswith("some:") and (FN + "::link_name" in k or IDENTICAL in k), "link_name_attr"),
    (lambda k: "dynamic_library_name" in k, "is_dynamic_function"),
]


def atom_label(key):
    for pred, lab in LABELS:
        if pred(key):
            return lab
    calls = [x for x in re.findall(r"([a-z_][A-Za-z0-9_]*)\(", key) if x not in ("match", "is", "let", "some", "unwrap_or")]
    fields = re.findall(r"::([a-z_][A-Za-z0-9_]*)(?![A-Za-z0-9_:(<])", key)
    base = calls[0] if calls else fields[-1] if fields else "cond"
    m = re.match(r"(?:is|let)\(.*;([^;]*)\)$", key)
    if m:
        return "%s=%s" % (base, "|".join(v.split("::")[-1] for v in m.group(1).split(",")))
    return base


def literal(key, val):
    lab = atom_label(key)
    if key.startswith("some:"):
        return lab + (".is_some" if val else ".is_none")
    return lab if val else "!" + lab


# ---------------------------------------------------------------------------------------------
# generic helpers
# ---------------------------------------------------------------------------------------------
def callee(n):
    return n.get("resolved") or n.get("callee") or ""


def resolve(body, n, depth=8):
    """follow immutable let-bound locals (also through `let (a, b) = { ...; (x, y) }`)."""
    while depth > 0:
        depth -= 1
        n = strip(n)
        if n.get("k") != "Local":
            return n
        d = body.local_def.get(n["id"])
        if not d or d[0][0] != "let" or n["id"] in body.local_assigned:
            return n
        init = d[0][1].get("init")
        if init is None:
            return n
        path = d[1]
        cur = strip(init)
        while cur.get("k") == "Block" and cur.get("tail") is not None:
            cur = strip(cur["tail"])
        ok = True
        for adt, f in path:
            if adt == "tuple" and cur.get("k") == "Tup":
                cur = strip(cur["es"][int(f)])
            else:
                ok = False
                break
        if not ok:
            return n
        n = cur
    return n


def mentions(body, n, needle, depth=10, seen=None):
    """does the value of n (immutable let-bound locals followed) involve a call / path / field whose resolved name contains needle?"""
    seen = set() if seen is None else seen
    if depth <= 0 or not isinstance(n, dict) or "k" not in n:
        return False
    for x in body.walk(n):
        if needle in callee(x) or needle in x.get("def", "") or (x.get("k") == "Field" and needle in "%s::%s" % (x.get("adt"), x["f"])):
            return True
        if x.get("k") == "Local" and x["id"] not in seen:
            seen.add(x["id"])
            d = body.local_def.get(x["id"])
            if d and any(needle in "%s::%s" % (adt, f) for adt, f in d[1]):
                return True
            if d and d[0][0] == "let" and d[0][1].get("init") is not None and x["id"] not in body.local_assigned:
                if mentions(body, d[0][1]["init"], needle, depth - 1, seen):
                    return True
    return False


def local_id(n):
    n = strip(n)
    return n["id"] if n.get("k") == "Local" else None


def short(body):
    p = re.sub(r"::<[^<>]*>", "", body.path)
    m = re.match(r"<(.+?) as (.+?)>::(\w+)$", p)
    if m:
        return "%s::%s" % (m.group(1).split("::")[-1].split("<")[0], m.group(3))
    return "::".join(p.split("::")[-2:]) if p.count("::") else p


def decode_template(v):
    """new-style fmt::Arguments byte template -> ["lit text" | None (placeholder)] in order."""
    out = []
    i = 0
    while i < len(v):
        ch = v[i]
        if ch == "\ufffd":
            out.append(None)
            i += 1
            continue
        L = ord(ch)
        if L == 0:
            break
        i += 1
        s = ""
        used = 0
        while i < len(v) and used < L:
            s += v[i]
            used += len(v[i].encode("utf-8"))
            i += 1
        out.append(s)
    return out


def fmt_pieces(body, root):
    """pieces of the single `format_args!` below root: [("lit", text) | ("arg", expr node)]; None when not found."""
    call = None
    for n in body.walk(root):
        if n["k"] == "Call" and callee(n).startswith("std::fmt::Arguments"):
            call = n
            break
    if call is None:
        return None
    if not callee(call).endswith("::new"):
        a = strip(call["args"][0])
        return [("lit", a["v"])] if a.get("k") == "Lit" and isinstance(a.get("v"), str) else None
    tmpl = strip(call["args"][0])
    if tmpl.get("k") != "Lit" or not isinstance(tmpl.get("v"), str):
        return None
    arr = resolve(body, call["args"][1], 2)
    if arr.get("k") != "Array":
        return None
    exprs = []
    for e in arr["es"]:
        e = strip(e)
        if e.get("k") != "Call" or not e["args"]:
            return None
        a = strip(e["args"][0])
        if a.get("k") == "Field" and strip(a["base"]).get("k") == "Local":
            tup = resolve(body, a["base"], 2)
            if tup.get("k") == "Tup" and a["f"].isdigit() and int(a["f"]) < len(tup["es"]):
                exprs.append(strip(tup["es"][int(a["f"])]))
                continue
        exprs.append(a)
    out = []
    it = iter(exprs)
    for p in decode_template(tmpl["v"]):
        if p is None:
            x = next(it, None)
            if x is None:
                return None
            out.append(("arg", x))
        else:
            out.append(("lit", p))
    return out


PANIC_MACROS = {"panic", "unreachable", "todo", "unimplemented", "assert", "assert_eq", "assert_ne"}


def panic_sites(body):
    out = []
    for n in body.nodes:
        mn = body.macro_name(n)
        if mn in PANIC_MACROS:
            out.append((mn + "!", n))
        elif n["k"] == "Call" and ("panicking::" in callee(n) or "rt::panic" in callee(n) or "begin_panic" in callee(n)):
            out.append((callee(n), n))
        elif n["k"] == "MCall" and n["name"] in ("unwrap", "expect") and \
                (callee(n).startswith("std::option::Option") or callee(n).startswith("std::result::Result")):
            out.append(("." + n["name"] + "()", n))
    seen, uniq = set(), []
    for what, n in out:
        k = (what, body.loc(n))
        if k not in seen:
            seen.add(k)
            uniq.append((what, n))
    return uniq


def is_err_return(body, n, allow_value=False):
    """`return Err(CodegenError::Serialize{..})` (possibly as a block tail)."""
    n = strip(n)
    while n.get("k") == "Block":
        if n.get("tail") is not None:
            n = strip(n["tail"])
        elif n["stmts"] and n["stmts"][-1]["k"] in ("Semi", "ExprStmt"):
            n = strip(n["stmts"][-1]["e"])
        else:
            return False
    if n.get("k") == "Ret" and "e" in n:
        e = strip(n["e"])
    elif allow_value:
        e = n
    else:
        return False
    if e.get("k") != "Call" or not (e.get("ctor") or callee(e)).endswith("::Err"):
        return False
    a = strip(e["args"][0])
    return a.get("k") == "Struct" and "CodegenError" in (a.get("adt") or a.get("res", {}).get("def", ""))


# ---------------------------------------------------------------------------------------------
# R16.1  binding <=> wrapper in Function::codegen
# ---------------------------------------------------------------------------------------------
class CodegenSites:
    """Emission sites of `impl CodeGenerator for Function`."""

    def __init__(self, rep):
        prog = rep.prog
        self.b = b = rep.need(prog.impl_fn(CG, FN, "codegen"), "impl CodeGenerator for Function :: codegen")
        self.lg = Logic(b)
        self.extern, self.queue, self.dynamic, self.link_wrap, self.link_other = [], [], [], [], []
        for c in b.calls():
            if c["k"] == "MCall" and c["name"] in ("push", "extend", "append", "insert", "extend_from_slice"):
                r = strip(c["recv"])
                rt = (b.ty(r) or "").replace("&mut ", "").replace("&", "")
                if r.get("k") == "Field" and r.get("adt") == RESULT and r["f"] == "items_to_serialize":
                    self.queue.append(c)
                elif (r.get("k") == "Field" and r.get("adt") == RESULT and r["f"] == "items") or \
                        (r.get("k") != "Field" and rt.startswith(RESULT)):
                    self.extern.append(c)
            if c["k"] == "MCall" and callee(c).startswith("codegen::dyngen::DynamicItems::push"):
                self.dynamic.append(c)
            if c["k"] == "Call" and callee(c) == LINK_NAME:
                if mentions(b, c["args"][0], SUFFIX_GETTER):
                    self.link_wrap.append(c)
                else:
                    self.link_other.append(c)
        # atoms
        lin = [n for n in b.nodes if n["k"] == "MCall" and callee(n) == FN + "::linkage"]
        rep.need(lin, "a read of Function::linkage in Function::codegen")
        self.internal = None
        for n in lin:
            p = n
            for a in [n] + list(b.ancestors(n)):
                if a["k"] in ("Match", "Binary") and (b.ty(a) == "bool"):
                    f = self.lg.boolf(a)
                    if any("Linkage::Internal" in at[1] for at in f_atoms(f)):
                        self.internal = f
                    break
            if self.internal is not None:
                break
        rep.need(self.internal, "a test of `self.linkage()` against Linkage::Internal")
        self.variadic = None
        for n in b.nodes:
            if n["k"] == "MCall" and callee(n) == "ir::function::FunctionSig::is_variadic":
                self.variadic = self.lg.boolf(n)
                break
        self.wrap_opt = None
        for n in b.nodes:
            if n["k"] == "Field" and n.get("adt") == OPT and n["f"] == "wrap_static_fns":
                self.wrap_opt = self.lg.boolf(n)
                break

    def attr_vec(self, link_call):
        """local id of the Vec the link_name attribute is pushed to."""
        p = self.b.parent[link_call["_i"]]
        while p is not None and p["k"] in ("AddrOf",):
            p = self.b.parent[p["_i"]]
        if p is not None and p["k"] == "MCall" and p["name"] == "push":
            return local_id(p["recv"])
        return None


def describe(cexs, atoms, cons_atoms, ante):
    """prime implicants (relative to the antecedent) of the counterexamples, projected on the consequent's atoms that
    the antecedent leaves free: [(literal text, counterexample models covered)]."""
    free = []
    amodels = list(models(ante, atoms))
    for a in sorted(cons_atoms):
        if len({m[a] for m in amodels}) > 1:
            free.append(a)
    rows = {tuple(m[a] for a in free) for m in cexs}
    possible = {tuple(m[a] for a in free) for m in amodels}
    dontcare = set()
    for bits in range(1 << len(free)):
        r = tuple(bool(bits >> i & 1) for i in range(len(free)))
        if r not in possible:
            dontcare.add(r)
    out = []
    for imp in prime_implicants(rows | dontcare):
        sel = [m for m in cexs if all(v is None or m[a] == v for a, v in zip(free, imp))]
        if not sel:
            continue
        lits = sorted(literal(a[1], v) for a, v in zip(free, imp) if v is not None)
        out.append((",".join(lits) or "always", sel))
    return out


@RULES.rule("R16.1", "internal-linkage function: extern item emitted => wrapper queued and linked by name+suffix", floor=17)
def r16_1(rep):
    """Necessary: a binding of a `static` function can only link against the wrapper.  Breaking inputs:
    `static inline int foo(int);` whose binding is pushed but which is not queued in `items_to_serialize`
    has no definition at link time; a variadic static function that is queued hits the serializer's
    `assert!(!signature.is_variadic())`."""
    cs = CodegenSites(rep)
    b, lg = cs.b, cs.lg
    where = "@Function::codegen"
    rep.need(cs.extern, "push of the extern item to CodegenResult")
    rep.check(bool(cs.queue), "site:items_to_serialize" + where, "%d push(es) to CodegenResult.items_to_serialize" % len(cs.queue), b.loc(b.root))
    rep.check(bool(cs.link_wrap), "site:link_name-wrapper" + where,
              "%d attributes::link_name(<name + wrap_static_fns_suffix>) site(s)" % len(cs.link_wrap), b.loc(b.root))
    rep.note("sites", {"extern": [b.loc(c) for c in cs.extern], "queue": [b.loc(c) for c in cs.queue],
                       "dynamic": [b.loc(c) for c in cs.dynamic], "link_wrap": [b.loc(c) for c in cs.link_wrap],
                       "link_other": [b.loc(c) for c in cs.link_other]})
    I = cs.internal
    r_queue = f_or([lg.reachf(c) for c in cs.queue])
    r_link = f_or([lg.reachf(c) for c in cs.link_wrap])
    r_other = f_or([lg.reachf(c) for c in cs.link_other])

    # (a) the implication, per extern-emission site
    for e in cs.extern:
        ante = f_and([I, lg.reachf(e)])
        parts = [("not queued in items_to_serialize", r_queue), ("no link_name::<true>(name+suffix)", r_link),
                 ("carries another link_name", f_not(r_other))]
        cons = f_and([p[1] for p in parts])
        cexs, atoms = counterexamples(ante, cons)
        if cexs is None:
            rep.bad("internal-binding-without-wrapper:undecided" + where, "guards too complex (%d atoms)" % len(atoms), b.loc(e))
            continue
        if not satisfiable(ante):
            rep.bad("internal-binding-unreachable" + where, "no path emits a binding for an internal function: the feature is gone", b.loc(e))
            continue
        if not cexs:
            rep.ok("internal-binding-has-wrapper" + where, "reach(extern push) && is_internal entails queue && wrapper link_name", b.loc(e))
            continue
        for lits, sel in describe(cexs, atoms, f_atoms(cons), ante):
            failing = [name for name, f in parts if any(not f_eval(f, dict(m)) for m in sel)]
            only_other = failing == ["carries another link_name"]
            key = ("internal-binding-has-two-link-names:" if only_other else "internal-binding-without-wrapper:") + lits + where
            rep.bad(key, "when %s an internal-linkage function gets its `extern` item pushed but: %s" % (lits, "; ".join(failing)), b.loc(e))

    # (b) converse pieces: wrappers only for internal functions with the option on, and only next to an emitted binding
    for q in cs.queue:
        rq = lg.reachf(q)
        need = f_and([I] + ([cs.wrap_opt] if cs.wrap_opt is not None else [F]))
        cexs, _ = counterexamples(rq, need)
        rep.check(cexs == [], "wrapper-only-for-internal-with-option" + where,
                  "items_to_serialize is pushed only when is_internal && options.wrap_static_fns", b.loc(q))
        emitted = f_or([lg.reachf(c) for c in cs.extern + cs.dynamic])
        # every return between the queue push and the emission would leave a wrapper without binding
        cexs, _ = counterexamples(rq, emitted)
        rep.check(cexs == [], "wrapper-implies-binding" + where, "a queued wrapper always comes with an emitted binding", b.loc(q))
    for l in cs.link_wrap:
        cexs, _ = counterexamples(f_and([lg.reachf(l), f_or([lg.reachf(c) for c in cs.extern])]), r_queue)
        rep.check(cexs == [], "wrapper-link-name-implies-wrapper" + where,
                  "a binding that links against <name><suffix> has its wrapper queued", b.loc(l))

    # (c) nothing is emitted for internal functions that cannot / must not be wrapped
    kinds = [("extern-item", cs.extern), ("dynamic-item", cs.dynamic), ("wrapper-queue", cs.queue)]
    for kind, sites in kinds:
        if not sites:
            continue
        r = f_or([lg.reachf(c) for c in sites])
        if cs.variadic is not None:
            rep.check(not satisfiable(f_and([I, cs.variadic, r])), "variadic-internal-no-emission:" + kind + where,
                      "is_internal && signature.is_variadic() never reaches the %s push" % kind, b.loc(sites[0]))
        else:
            rep.bad("variadic-internal-no-emission:" + kind + where, "signature.is_variadic() is never consulted", b.loc(sites[0]))
        if cs.wrap_opt is not None:
            rep.check(not satisfiable(f_and([I, f_not(cs.wrap_opt), r])), "internal-without-option-no-emission:" + kind + where,
                      "is_internal && !options.wrap_static_fns never reaches the %s push" % kind, b.loc(sites[0]))
        else:
            rep.bad("internal-without-option-no-emission:" + kind + where, "options.wrap_static_fns is never consulted", b.loc(sites[0]))

    # (d) the dynamic-loading sink must look the wrapper up, not the static function
    for d in cs.dynamic:
        if not satisfiable(f_and([I, lg.reachf(d)])):
            rep.ok("internal-dynamic-binding-symbol" + where, "internal functions never reach the dynamic-loading sink", b.loc(d))
            continue
        sym = None
        pf = rep.prog.fn(callee(d))
        if pf is not None:
            strs = [i for i, p in enumerate(pf.params) if rep.prog.types[p.get("t")] == "&str"] if all("t" in p for p in pf.params) else []
            if len(strs) == 1:
                sym = d["args"][strs[0] - 1]
        if sym is None:
            rep.bad("internal-dynamic-binding-symbol" + where, "cannot identify the symbol argument of %s" % callee(d), b.loc(d))
            continue
        rep.check(mentions(b, sym, SUFFIX_GETTER), "internal-dynamic-binding-symbol" + where,
                  "under --dynamic-loading an internal-linkage function is looked up in the library by `%s`, which is not "
                  "<name><wrap_static_fns_suffix>: the static function is not an exported symbol (and with "
                  "--dynamic-link-require-all the whole library fails to load)" % b.canon(sym, 3), b.loc(d))

    # (e) the queued id is the function's own item
    for q in cs.queue:
        a = resolve(b, q["args"][0])
        first = strip(a["es"][0]) if a.get("k") == "Tup" and a["es"] else a
        first = resolve(b, first)
        ok = first.get("k") == "MCall" and callee(first) == "ir::item::Item::id" and \
            strip(first["recv"]).get("k") == "Local" and b.local_def.get(strip(first["recv"])["id"], (("",),))[0][0] == "param"
        rep.check(ok, "queued-id-is-own-item" + where, "items_to_serialize receives `%s`" % b.canon(first, 3), b.loc(q))

    # (f) Function::parse never classifies an internal-linkage cursor as external
    pb = None
    for bb in rep.prog.bodies.values():
        if bb.fact.get("impl_self") == FN and bb.path.endswith("::parse") and "ClangSubItemParser" in (bb.fact.get("impl_trait") or ""):
            pb = bb
    rep.need(pb, "impl ClangSubItemParser for Function :: parse")
    found = False
    for m in pb.nodes:
        if m["k"] != "Match" or (pb.ty(m) or "") != "ir::function::Linkage":
            continue
        for a in m["arms"]:
            pv = pat_variants(a["pat"])
            if any(v.endswith("CXLinkage_Internal") for v in pv) or "_" in pv:
                body = strip(a["body"])
                val = body.get("def", "") if body.get("k") == "Path" else ""
                ok = pb.diverges(a["body"]) or val.endswith("Linkage::Internal")
                if any(v.endswith("CXLinkage_Internal") for v in pv):
                    found = True
                    ok = ok and not any(v.endswith("CXLinkage_External") or v.endswith("CXLinkage_UniqueExternal") for v in pv)
                rep.check(ok, "linkage-class:%s@Function::parse" % "|".join(sorted(v.split("::")[-1] for v in pv)),
                          "arm yields %s" % (val or "<diverges>" if pb.diverges(a["body"]) else val or pb.canon(body, 2)), pb.loc(a["body"]))
    rep.check(found, "linkage-class:has-internal-arm@Function::parse", "CXLinkage_Internal is mapped explicitly", pb.loc(pb.root))
    nb = rep.prog.fn(FN + "::new")
    if nb is not None:
        t = strip(nb.root.get("tail") or {})
        fs = {f["f"]: nb.canon(f["e"], 2) for f in t.get("fs", [])} if t.get("k") == "Struct" else {}
        idx = [i for i, a in enumerate(nb.params) if nb.prog.types[a.get("t")] == "ir::function::Linkage"] if all("t" in a for a in nb.params) else []
        rep.check("linkage" in fs and fs["linkage"].startswith("param:") and len(idx) == 1,
                  "linkage-stored@Function::new", "Function.linkage = %s" % fs.get("linkage"), nb.loc(nb.root))
    rep.check(rep.prog.getters().get(FN + "::linkage") == (FN, "linkage"), "linkage-getter@Function::linkage",
              "Function::linkage() returns the field")


# ---------------------------------------------------------------------------------------------
# R16.2  the wrapper symbol is spelled the same way on both sides
# ---------------------------------------------------------------------------------------------
def is_suffix_call(body, n):
    n = resolve(body, n)
    return n.get("k") == "MCall" and callee(n) == SUFFIX_GETTER and strip(n["recv"]).get("k") == "Local"


def is_fn_name(body, n):
    """`self.name()` of the Function being serialised / generated."""
    n = resolve(body, n)
    if n.get("k") == "MCall" and callee(n) == FN + "::name":
        r = strip(n["recv"])
        return r.get("k") == "Local" and r.get("name") == "self"
    return False


def concat_parts(body, n):
    """operands of a string concatenation `a + b` / `format!("{a}{b}")`; None when n is neither."""
    n = resolve(body, n)
    if n.get("k") == "Binary" and n["op"] == "+":
        l = concat_parts(body, n["l"]) or [("arg", strip(n["l"]))]
        r = concat_parts(body, n["r"]) or [("arg", strip(n["r"]))]
        return l + r
    if n.get("k") in ("Call", "Block") and body.macro_name(n) == "format":
        return fmt_pieces(body, n)
    return None


def serializer(rep, self_ty):
    return rep.need(rep.prog.impl_fn(CS, self_ty, "serialize"), "impl CSerialize for %s" % self_ty)


@RULES.rule("R16.2", "binding and wrapper spell the wrapper symbol as <name> + ctx.wrap_static_fns_suffix()", floor=8)
def r16_2(rep):
    """Necessary: the `#[link_name]` of the binding must be the symbol the C file defines.  Breaking edits:
    a literal "__extern" on one side (custom `--wrap-static-fns-suffix` then links against nothing), suffix+name
    instead of name+suffix, `link_name::<false>` (a `\\u{1}` prefix stops the platform's `_` mangling on macOS),
    pushing the attribute to a vector that is not interpolated into the `extern` item."""
    cs = CodegenSites(rep)
    b, lg = cs.b, cs.lg
    rep.need(cs.link_wrap, "attributes::link_name(<.. wrap_static_fns_suffix() ..>) in Function::codegen")
    quotes = [q for q in qq.quote_sites(b) if q.has("extern") and q.has("fn")]
    rep.need(quotes, "quote! of the extern item in Function::codegen")
    for l in cs.link_wrap:
        parts = concat_parts(b, l["args"][0])
        shape = ["suffix" if p[0] == "arg" and is_suffix_call(b, p[1]) else "base" if p[0] == "arg" else "lit:" + p[1] for p in parts or []]
        rep.check(shape == ["base", "suffix"], "binding-symbol-shape@Function::codegen",
                  "link_name argument is %s (want <name> + wrap_static_fns_suffix())" % (shape or b.canon(l["args"][0], 3)), b.loc(l))
        rep.check(l.get("gargs") == "[true]", "binding-symbol-mangled@Function::codegen",
                  "link_name::<%s>: the wrapper is an ordinary C symbol and must get the platform's mangling" % l.get("gargs"), b.loc(l))
        vec = cs.attr_vec(l)
        hit = False
        for q in quotes:
            loc = q.interps().get("attributes")
            ids = {n["id"] for n in b.walk(q.root) if n["k"] == "Local"}
            if vec is not None and vec in ids:
                # the quote is what the extern push receives
                for e in cs.extern:
                    a = strip(e["args"][0])
                    init = b.local_init(a["id"]) if a.get("k") == "Local" else a
                    if init is not None and (init is q.root or any(x is q.root for x in b.walk(init)) or b.macro_site(init) == q.site):
                        hit = True
        rep.check(hit, "binding-symbol-attached@Function::codegen",
                  "the link_name attribute is pushed to the vector interpolated into the pushed `extern` item", b.loc(l))
        # name base: the wrapper file uses Function::name(); anything else must be proven equal by the guard
        base = [p[1] for p in parts or [] if p[0] == "arg" and not is_suffix_call(b, p[1])]
        if len(base) == 1:
            if is_fn_name(b, base[0]):
                rep.ok("symbol-base-agrees@Function::codegen", "binding uses Function::name() like the wrapper", b.loc(l))
            else:
                bid = local_id(base[0])
                ident = [c for c in b.calls(lambda n: n["k"] == "Call" and callee(n).endswith(IDENTICAL))]
                same = [c for c in ident if bid is not None and local_id(c["args"][0]) == bid and mentions(b, c["args"][1], FN + "::name")]
                # reach(link) must entail "no link_name_attr", where link_name_attr is Some unless the names are identical
                none_atoms = [a for a in f_atoms(lg.reachf(l)) if a[1].startswith("some:") and mentions(b, lg.info[a[1]], IDENTICAL)]
                proved = bool(same) and bool(none_atoms) and all(counterexamples(lg.reachf(l), f_not(a))[0] == [] for a in none_atoms)
                rep.check(proved, "symbol-base-agrees@Function::codegen",
                          "binding uses `%s` + suffix, the wrapper file uses Function::name() + suffix: equal only under "
                          "`names_will_be_identical_after_mangling(<that name>, ..name..)`, i.e. link_name_attr.is_none() must guard the site"
                          % b.canon(base[0], 2), b.loc(l))
    # wrapper side
    sb = serializer(rep, FN)
    sites = [n for n in sb.nodes if n["k"] == "MCall" and callee(n) == SUFFIX_GETTER]
    rep.check(len(sites) >= 1, "wrapper-symbol-suffix-source@Function::serialize",
              "%d read(s) of ctx.wrap_static_fns_suffix()" % len(sites), sb.loc(sb.root))
    for n in sites:
        fmt = None
        for a in sb.ancestors(n):
            if sb.macro_name(a) == "format" or (a["k"] == "Binary" and a["op"] == "+"):
                fmt = a
        parts = concat_parts(sb, fmt) if fmt is not None else None
        shape = ["suffix" if p[0] == "arg" and is_suffix_call(sb, p[1]) else "name" if p[0] == "arg" and is_fn_name(sb, p[1])
                 else "?" + sb.canon(p[1], 2) if p[0] == "arg" else "lit:" + p[1] for p in parts or []]
        rep.check(shape == ["name", "suffix"], "wrapper-symbol-shape@Function::serialize",
                  "wrapper symbol is %s (want Function::name() + wrap_static_fns_suffix())" % (shape or "<not a concatenation>"), sb.loc(n))
    # getter and default
    gb = rep.need(rep.prog.fn(SUFFIX_GETTER), SUFFIX_GETTER)
    tail = gb.root.get("tail") or {}
    rep.check(mentions(gb, tail, OPT + "::wrap_static_fns_suffix"), "suffix-getter-reads-option",
              "wrap_static_fns_suffix() = %s" % gb.canon(tail, 4), gb.loc(gb.root))
    dflt = [bb for p, bb in rep.prog.bodies.items() if p.endswith("DEFAULT_NON_EXTERN_FNS_SUFFIX")]
    used = mentions(gb, tail, "DEFAULT_NON_EXTERN_FNS_SUFFIX")
    v = strip(dflt[0].root).get("v") if dflt else None
    rep.check(bool(used and isinstance(v, str) and re.fullmatch(r"[A-Za-z0-9_]+", v)), "suffix-default-is-identifier-tail",
              "default suffix %r must be non-empty and made of identifier characters" % (v,), gb.loc(gb.root))


# ---------------------------------------------------------------------------------------------
# R16.3  utils::serialize_items assembles the wrapper file
# ---------------------------------------------------------------------------------------------
def writes_to(body, buf_id, within=None):
    """write!/writeln!/write_all calls whose receiver is the local `buf_id`."""
    out = []
    for c in body.calls(lambda n: n["k"] == "MCall" and n["name"] in ("write_fmt", "write_all", "write_str", "extend_from_slice", "push_str"), within):
        if local_id(c["recv"]) == buf_id:
            out.append(c)
    return out


def loop_exits(body, loop):
    """`continue` / `break` / `return` inside the loop body (closures excluded) — `?` is a Try node and not listed."""
    out = []
    for n in body.walk(loop["body"]):
        if n["k"] in ("Continue", "Break", "Ret") and not any(a["k"] == "Closure" for a in body.ancestors(n) if a["_i"] > loop["_i"]):
            out.append(n)
    return out


def direct_iter_of(body, loop, adt, field):
    it = resolve(body, loop["iter"])
    return it.get("k") == "Field" and it.get("adt") == adt and it["f"] == field


@RULES.rule("R16.3", "serialize_items: includes/contents first, every queued item serialised, written to <path>.c/.cpp, errors propagated", floor=28)
def r16_3(rep):
    """Necessary: the C file must see the static functions before the wrappers that call them and must hold a
    wrapper for every binding that links against one.  Breaking edits: wrappers written before `#include`
    (implicit declaration / unknown type errors), `.skip(1)` / `continue` / `break` in the item loop (undefined
    symbol at link time), an extra early `return Ok(())`, extension swapped (C++ header compiled as C),
    `let _ = serialize_items(..)` in the driver (an unsupported type silently leaves bindings without wrappers)."""
    prog = rep.prog
    b = rep.need(prog.fn("codegen::utils::serialize_items"), "codegen::utils::serialize_items")
    lg = Logic(b)
    where = "@serialize_items"
    # the item loop
    loops = [n for n in b.nodes if n["k"] == "For" and direct_iter_of(b, n, RESULT, "items_to_serialize")]
    any_loop = [n for n in b.nodes if n["k"] == "For" and mentions(b, n["iter"], RESULT + "::items_to_serialize")]
    rep.check(len(loops) == 1 and len(any_loop) == 1, "item-loop-covers-all" + where,
              "one `for` directly over result.items_to_serialize (direct: %d, through adaptors: %d)" % (len(loops), len(any_loop) - len(loops)),
              b.loc(any_loop[0]) if any_loop else b.loc(b.root))
    rep.need(any_loop, "for loop over items_to_serialize")
    loop = (loops or any_loop)[0]
    sers = [c for c in b.calls(lambda n: n["k"] == "MCall" and callee(n).startswith("<ir::item::Item as " + CS), loop["body"])]
    rep.check(len(sers) == 1, "item-loop-serialises" + where, "%d call(s) of <Item as CSerialize>::serialize in the loop" % len(sers), b.loc(loop))
    rep.need(sers, "<Item as CSerialize>::serialize call in the item loop")
    ser = sers[0]
    ex = loop_exits(b, loop)
    extra = [g for g in b.guards(ser) if g not in b.guards(loop["body"])]
    rep.check(not ex and not extra, "item-loop-no-skip" + where,
              "no continue/break/return (%d) and no condition (%d) between the loop head and the serialize call" % (len(ex), len(extra)),
              b.loc(ex[0]) if ex else b.loc(ser))
    rep.check(b.parent[ser["_i"]]["k"] == "Try", "item-error-propagated" + where, "`item.serialize(..)?`", b.loc(ser))
    # loop element -> item / extra
    pat_ids = {}
    for lid, d in b.local_def.items():
        if d[0][0] == "for" and d[0][1] is loop:
            pat_ids[lid] = d[1]
    recv = resolve(b, ser["recv"])
    okid = recv.get("k") == "MCall" and callee(recv).endswith("BindgenContext::resolve_item") and \
        any(local_id(x) in pat_ids and pat_ids[local_id(x)] == (("tuple", "0"),) for x in [recv["args"][0]])
    rep.check(okid, "item-loop-resolves-own-id" + where, "serialised item = %s" % b.canon(recv, 3), b.loc(ser))
    ex_arg = ser["args"][1] if len(ser["args"]) > 1 else {}
    rep.check(local_id(ex_arg) in pat_ids and pat_ids[local_id(ex_arg)] == (("tuple", "1"),), "item-loop-passes-own-variadic-info" + where,
              "the WrapAsVariadic passed along is the one queued with the id", b.loc(ser))
    buf = local_id(ser["args"][-1])
    rep.need(buf is not None, "the buffer local handed to Item::serialize")
    # file write
    fw = [c for c in b.calls(lambda n: n["k"] == "Call" and callee(n) in ("std::fs::write",))]
    fw += [c for c in b.calls(lambda n: n["k"] == "MCall" and n["name"] == "write_all" and "std::fs::File" in (b.ty(n["recv"]) or ""))]
    rep.check(len(fw) == 1, "file-written-once" + where, "%d file write(s)" % len(fw), b.loc(b.root))
    rep.need(fw, "std::fs::write in serialize_items")
    w = fw[0]
    rep.check(local_id(w["args"][-1]) == buf and w["_i"] > loop["_i"] and not [g for g in b.guards(w) if g[1] == "cond" and g not in b.guards(loop)],
              "file-holds-buffer" + where, "the buffer the wrappers were written to is what reaches the file, after the loop, unconditionally", b.loc(w))
    rep.check(b.parent[w["_i"]]["k"] == "Try", "file-error-propagated" + where, "`fs::write(..)?`", b.loc(w))
    # only exit before the write: nothing to serialise
    rets = [r for r in lg._returns()]
    for r in rets:
        f = lg.reachf(r)
        ats = f_atoms(f)
        only_empty = len(ats) == 1 and all("is_empty" in a[1] and RESULT + "::items_to_serialize" in a[1] for a in ats) and \
            satisfiable(f) and not satisfiable(f_and([f, f_not(list(ats)[0])]))
        rep.check(only_empty, "early-exit-only-when-nothing-queued" + where,
                  "`return` before the file is written is taken exactly when items_to_serialize.is_empty()", b.loc(r))
    # path and extension
    path_arg = w["args"][0]
    rep.check(mentions(b, path_arg, OPT + "::wrap_static_fns_path"), "path-from-option" + where,
              "file path derives from options.wrap_static_fns_path", b.loc(w))
    we = None
    for n in b.nodes:
        if n["k"] == "MCall" and n["name"] in ("with_extension", "set_extension") and callee(n).startswith("std::path::Path"):
            we = n
    rep.need(we, "Path::with_extension in serialize_items")
    used = any(x is we for x in b.walk(resolve(b, path_arg))) or resolve(b, path_arg) is we
    rep.check(used, "path-gets-extension" + where, "the written path is the one that received the extension", b.loc(we))
    ext = resolve(b, we["args"][0])
    elg = lg
    cpp_calls = {"args": None, "hdr": None}
    for n in b.nodes:
        if n["k"] == "Call" and callee(n).endswith("args_are_cpp") and mentions(b, n["args"][0], OPT + "::clang_args"):
            cpp_calls["args"] = n
        if n["k"] == "Call" and callee(n).endswith("file_is_cpp"):
            # must be `any` over input_headers
            for a in b.ancestors(n):
                if a["k"] == "MCall" and a["name"] == "any" and mentions(b, a["recv"], OPT + "::input_headers"):
                    cpp_calls["hdr"] = a
    rep.check(cpp_calls["args"] is not None and cpp_calls["hdr"] is not None, "language-detection" + where,
              "C++ is detected from clang_args (args_are_cpp) and from any input header (file_is_cpp)", b.loc(we))
    if cpp_calls["args"] is not None and cpp_calls["hdr"] is not None and ext.get("k") in ("If", "Match"):
        ka = elg.boolf(cpp_calls["args"])
        kh = elg.boolf(cpp_calls["hdr"])

        def ext_under(env):
            n = ext
            for _ in range(6):
                n = strip(n)
                if n.get("k") == "Lit":
                    return n.get("v")
                if n.get("k") == "If" and "else" in n:
                    f = elg.boolf(n["cond"])
                    if not f_atoms(f) <= set(env):
                        return None
                    n = n["then"] if f_eval(f, env) else n["else"]
                    continue
                if n.get("k") == "Match" and b.ty(n["scrut"]) == "bool":
                    f = elg.boolf(n["scrut"])
                    if not f_atoms(f) <= set(env):
                        return None
                    v = f_eval(f, env)
                    arm = None
                    for a in n["arms"]:
                        pv = pat_variants(a["pat"])
                        if ("lit:True" in pv and v) or ("lit:False" in pv and not v) or "_" in pv:
                            arm = a
                            break
                    if arm is None:
                        return None
                    n = arm["body"]
                    continue
                return None
            return None
        for va in (False, True):
            for vh in (False, True):
                got = ext_under({ka: va, kh: vh})
                want = "cpp" if (va or vh) else "c"
                rep.check(got == want, "extension:args_cpp=%d,header_cpp=%d%s" % (va, vh, where), "extension %r (want %r)" % (got, want), b.loc(we))
    else:
        rep.bad("extension:undecided" + where, "extension expression is not an if/match over the language test", b.loc(we))
    # includes and contents precede the wrappers
    for field, what in (("input_headers", "include"), ("input_header_contents", "contents")):
        fl = [n for n in b.nodes if n["k"] == "For" and direct_iter_of(b, n, OPT, field)]
        if not rep.check(len(fl) == 1, "%s-loop-covers-all%s" % (what, where), "%d `for` directly over options.%s" % (len(fl), field), b.loc(b.root)):
            continue
        l = fl[0]
        ws = writes_to(b, buf, l["body"])
        ids = {lid for lid, d in b.local_def.items() if d[0][0] == "for" and d[0][1] is l}
        good = False
        for c in ws:
            ps = fmt_pieces(b, c) or []
            args = [p[1] for p in ps if p[0] == "arg"]
            lits = "".join(p[1] for p in ps if p[0] == "lit")
            if what == "include":
                # #include "<header>"\n
                good = good or (len(args) == 1 and local_id(args[0]) in ids and re.fullmatch(r'\s*#\s*include\s*""[ \t]*\n', lits) is not None
                                and ps[0][0] == "lit" and ps[0][1].rstrip().endswith('"') and ps[-1][0] == "lit" and ps[-1][1].startswith('"') and ps[-1][1].endswith("\n"))
            else:
                cid = [lid for lid in ids if b.local_def[lid][1] == (("tuple", "1"),)]
                # the contents must start a fresh line and end one (a `// name` comment precedes them today)
                for i, p in enumerate(ps):
                    if p[0] == "arg" and local_id(p[1]) in cid:
                        before = ps[i - 1][1] if i > 0 and ps[i - 1][0] == "lit" else "" if i == 0 else None
                        after = ps[i + 1][1] if i + 1 < len(ps) and ps[i + 1][0] == "lit" else None
                        good = good or ((before == "" or (before is not None and before.endswith("\n"))) and after is not None and after.startswith("\n"))
        rep.check(good, "%s-text%s" % (what, where),
                  '`#include "<header>"` line per header' if what == "include" else "the header contents are written verbatim on their own lines", b.loc(l))
        exs = loop_exits(b, l)
        gl = [g for g in b.guards(l) if g[1] == "cond" and g not in b.guards(loop)]
        only_nonempty = all("is_empty" in b.canon(g[2], 4) and field in b.canon(g[2], 6) for g in gl)
        rep.check(not exs and only_nonempty, "%s-loop-no-skip%s" % (what, where), "no exits, guarded at most by `!%s.is_empty()`" % field, b.loc(l))
        rep.check(l["_i"] < loop["_i"] and not any(a is loop for a in b.ancestors(l)), "%s-before-wrappers%s" % (what, where),
                  "the %s loop precedes the wrapper loop" % what, b.loc(l))
    # driver
    callers = []
    for bb in prog.bodies.values():
        for c in bb.calls(lambda n: n["k"] == "Call" and callee(n) == "codegen::utils::serialize_items"):
            callers.append((bb, c))
    rep.check(len(callers) == 1, "driver-calls-once", "%d call site(s) of serialize_items" % len(callers))
    for bb, c in callers:
        root_cg = [x for x in bb.calls(lambda n: n["k"] == "MCall" and n["name"] == "codegen" and "root_module" in bb.canon(n["recv"], 4))]
        rep.check(bool(root_cg) and all(x["_i"] < c["_i"] for x in root_cg), "driver-after-codegen", "serialize_items runs after the root module's codegen", bb.loc(c))
        conds = [g for g in bb.guards(c) if g[1] == "cond"]
        rep.check(not conds, "driver-unconditional", "serialize_items is not behind a condition (%d)" % len(conds), bb.loc(c))
        rep.check(bb.parent[c["_i"]]["k"] == "Try", "driver-propagates-error", "`serialize_items(..)?`: a type that cannot be serialised fails the run", bb.loc(c))
        a0 = resolve(bb, c["args"][0])
        rep.check((bb.ty(strip(c["args"][0])) or "").replace("&", "").startswith(RESULT), "driver-passes-result", "receives the CodegenResult", bb.loc(c))


# ---------------------------------------------------------------------------------------------
# R16.4  CSerialize for Type / TypeId / Item: supported kinds, Err for the rest, no panics
# ---------------------------------------------------------------------------------------------
REQUIRED_KINDS = ["Void", "Int", "Float", "Alias", "ResolvedTypeRef", "Pointer", "Array", "Function", "Comp", "Enum"]
TYPE = "ir::ty::Type"
TYPEID = "ir::context::TypeId"
ITEM = "ir::item::Item"


def emits_something(body, n, writer_ids):
    """does the subtree write to the writer or recurse into another serializer?"""
    for c in body.calls(None, n):
        if c["k"] == "MCall" and c["name"] in ("write_fmt", "write_all", "write_str") and local_id(c["recv"]) in writer_ids:
            return True
        if CS in callee(c) or callee(c).startswith("codegen::serialize::serialize_"):
            return True
    return False


@RULES.rule("R16.4", "CSerialize for Type: promised kinds handled, every other kind is Err(CodegenError::Serialize), no panic paths", floor=22)
def r16_4(rep):
    """Necessary: a parameter of a kind the feature supports must be written, one it does not support must fail
    the run with an error the caller can report.  Breaking edits: deleting the `TypeKind::Enum` arm (a static
    function taking an enum by value makes bindgen fail), `_ => unreachable!()` / `todo!()` as catch-all (a header with a
    `static inline` function taking a reference / vector / block pointer aborts the process instead of
    returning `CodegenError::Serialize`), dropping the trailing declarator (`int foo__extern(int, int)`)."""
    prog = rep.prog
    tb = serializer(rep, TYPE)
    wid = {tb.params[-1].get("id")} if tb.params and tb.params[-1].get("k") == "Bind" else set()
    stack_id = tb.params[-2].get("id") if len(tb.params) >= 2 and tb.params[-2].get("k") == "Bind" else None
    rep.need(wid, "writer parameter of <Type as CSerialize>::serialize")
    km = [n for n in tb.nodes if n["k"] == "Match" and (tb.ty(n["scrut"]) or "").replace("&", "") == "ir::ty::TypeKind"]
    rep.need(km, "match over TypeKind in <Type as CSerialize>::serialize")
    top = km[0]
    handled = {}
    for a in top["arms"]:
        for v in pat_variants(a["pat"]):
            handled.setdefault(v.split("::")[-1], a)
    for kind in REQUIRED_KINDS:
        a = handled.get(kind)
        ok = a is not None and "guard" not in a and emits_something(tb, a["body"], wid) and not is_err_return(tb, a["body"])
        rep.check(ok, "kind:%s@Type::serialize" % kind,
                  "TypeKind::%s has an arm that writes C text" % kind if ok else "TypeKind::%s is not serialised (no arm, guarded arm, or Err)" % kind,
                  tb.loc(a["body"]) if a is not None else tb.loc(top))
    rep.note("handled_kinds", sorted(k for k in handled if k != "_"))
    # every diverging arm of every match in the serializers is `return Err(CodegenError::Serialize{..})`
    bodies = [tb, serializer(rep, TYPEID), serializer(rep, ITEM)]
    for nm in ("codegen::serialize::serialize_args", "codegen::serialize::serialize_sep"):
        bodies.append(rep.need(prog.fn(nm), nm))
    for sb in bodies:
        for m in sb.nodes:
            if m["k"] != "Match" or m.get("src") not in (None, "match"):
                continue
            if sb.macro_name(m) in ("write", "writeln", "format"):
                continue
            for a in m["arms"]:
                pv = pat_variants(a["pat"])
                if sb.diverges(a["body"]) or "_" in pv:
                    scr = (sb.ty(m["scrut"]) or "?").replace("&", "").split("::")[-1]
                    wids = {p.get("id") for p in sb.params if p.get("k") == "Bind"}
                    ok = is_err_return(sb, a["body"]) if sb.diverges(a["body"]) else \
                        (is_err_return(sb, a["body"], True) or emits_something(sb, a["body"], wids))
                    rep.check(ok, "unsupported-is-err:%s:%s@%s" % (scr, "|".join(sorted(v.split("::")[-1] for v in pv)), short(sb)),
                              "arm %s" % ("yields Err(CodegenError::Serialize{..}) or writes" if ok else "neither writes nor yields CodegenError::Serialize"),
                              sb.loc(a["body"]))
        ps = panic_sites(sb)
        rep.check(not ps, "no-panic@" + short(sb), "no panic!/unreachable!/todo!/assert!/unwrap() in %s%s" % (short(sb), (": " + ", ".join(p[0] for p in ps)) if ps else ""),
                  sb.loc(ps[0][1]) if ps else sb.loc(sb.root))
    # the declarator (name, `*`) collected on the stack is written after the type
    pops = []
    for n in tb.nodes:
        if n["k"] in ("While", "Loop", "For") and not any(a is top for a in tb.ancestors(n)):
            cond = n.get("cond") or n.get("iter") or {}
            hit = [c for c in tb.calls(lambda x: x["k"] == "MCall" and x["name"] in ("pop", "drain", "into_iter", "iter") and local_id(x["recv"]) == stack_id, cond)]
            if hit and emits_something(tb, n["body"], wid):
                pops.append(n)
    ok = bool(pops) and all(n["_i"] > top["_i"] for n in pops)
    extra = []
    for n in pops:
        extra += [g for g in tb.guards(n) if g[1] == "cond" and not ("is_empty" in tb.canon(g[2], 4))]
    rep.check(ok and not extra, "declarator-written-after-type@Type::serialize",
              "the pending declarator stack (parameter name, `*`) is drained to the writer after the kind match (%d loop(s), %d foreign guard(s))" % (len(pops), len(extra)),
              tb.loc(pops[0]) if pops else tb.loc(top))
    # pointer arm pushes `*` and recurses with the same stack
    pa = handled.get("Pointer")
    if pa is not None:
        pushes = [c for c in tb.calls(lambda x: x["k"] == "MCall" and x["name"] == "push" and local_id(x["recv"]) == stack_id, pa["body"])]
        stars = [c for c in pushes if "*" in str(resolve(tb, strip(c["args"][0]).get("recv", c["args"][0])).get("v", ""))]
        rec = [c for c in tb.calls(lambda x: x["k"] == "MCall" and CS in callee(x), pa["body"]) if any(local_id(a) == stack_id for a in c["args"])]
        uncond = [c for c in rec if not [g for g in tb.guards(c) if g not in tb.guards(pa["body"])]]
        rep.check(bool(stars) and len(stars) == len(pushes) and bool(uncond), "pointer-declarator@Type::serialize",
                  "`*` is pushed on every path (%d/%d) and the pointee is serialised with the same stack" % (len(stars), len(pushes)), tb.loc(pa["body"]))
    # TypeId delegates to the type of the resolved item, passing stack and writer through
    ib = serializer(rep, TYPEID)
    d = [c for c in ib.calls(lambda x: x["k"] == "MCall" and callee(x).startswith("<%s as %s" % (TYPE, CS)))]
    ok = len(d) == 1 and mentions(ib, d[0]["recv"], "BindgenContext::resolve_item") and \
        [local_id(a) for a in d[0]["args"][-2:]] == [p.get("id") for p in ib.params[-2:]]
    rep.check(ok, "typeid-delegates@TypeId::serialize", "resolves the id and serialises the type with the caller's stack and writer", ib.loc(ib.root))
    # Item: functions go to CSerialize for Function with the same extra
    itb = serializer(rep, ITEM)
    d = [c for c in itb.calls(lambda x: x["k"] == "MCall" and callee(x).startswith("<%s as %s" % (FN, CS)))]
    ok = len(d) == 1 and any("ItemKind::Function" in v for g in itb.guards(d[0]) if g[1] == "arm" for v in pat_variants(g[2][0]["arms"][g[2][1]]["pat"]))
    if ok:
        ex = resolve(itb, d[0]["args"][1])
        ids = {local_id(e) for e in ex.get("es", [])} if ex.get("k") == "Tup" else set()
        ok = itb.params[0].get("id") in ids and itb.params[2].get("id") in ids and local_id(d[0]["args"][-1]) == itb.params[-1].get("id")
    rep.check(ok, "item-dispatch@Item::serialize", "ItemKind::Function => func.serialize(ctx, (self, extra), stack, writer)", itb.loc(itb.root))


# ---------------------------------------------------------------------------------------------
# R16.5  the wrapper text, by abstract execution of CSerialize for Function
# ---------------------------------------------------------------------------------------------
C_TOKEN = re.compile(r"[A-Za-z_][A-Za-z0-9_]*|\.\.\.|[0-9]+|\S")
ORDER_PRESERVING = {"iter", "into_iter", "map", "collect", "cloned", "copied", "by_ref", "enumerate", "filter_map", "to_vec", "clone",
                    "iter_mut", "into_boxed_slice", "as_slice", "inspect", "peekable"}
MUTATORS = {"insert", "push", "remove", "pop", "swap", "reverse", "sort", "sort_by", "sort_by_key", "sort_unstable", "truncate", "clear",
            "retain", "drain", "dedup", "swap_remove", "rotate_left", "rotate_right", "extend", "append", "split_off", "resize"}


class Stop(Exception):
    pass


class WrapperText:
    """Token sequence written by `<Function as CSerialize>::serialize` in one world."""

    def __init__(self, prog, body, world):
        self.prog, self.b, self.world = prog, body, world
        self.lg = Logic(body)
        self.writer = body.params[-1].get("id")
        self.va_id = None
        for lid, d in body.local_def.items():
            if d[0][0] == "param" and "WrapAsVariadic" in (prog.types[d[2]["t"]] if "t" in d[2] else ""):
                self.va_id = lid
        self.tokens = []
        # secondary text buffers (`let mut buf = Vec::new(); write!(buf, ..)`) and what has been queued on the declarator stack
        self.stack = body.params[-2].get("id") if len(body.params) >= 2 else None
        self.bufs = {}
        for lid, d in body.local_def.items():
            t = prog.types[d[2]["t"]] if d[2].get("t") is not None else ""
            if d[0][0] == "let" and t in ("std::vec::Vec<u8>", "std::string::String") and lid in body.local_mut:
                self.bufs[lid] = []
        self.pending = []

    def out(self, target=None):
        return self.tokens if target is None or target == self.writer else self.bufs[target]

    def target_of(self, e):
        lid = local_id(e)
        if lid == self.writer:
            return lid
        return lid if lid in self.bufs else None

    # -- conditions ---------------------------------------------------------------------------------
    def atom_value(self, a):
        key = a[1]
        n = self.lg.info.get(key)
        if key.startswith("some:") and n is not None and local_id(n) == self.va_id and self.va_id is not None:
            return self.world["va"]
        if "ir::ty::Type::is_void" in key and n is not None and mentions(self.b, n, "FunctionSig::return_type"):
            return self.world["void"]
        return None

    def truth(self, f):
        """Kleene evaluation: atoms that are not world atoms are unknown (None)."""
        k = f[0]
        if k == "const":
            return f[1]
        if k == "opaque":
            return self.atom_value(f)
        if k == "not":
            v = self.truth(f[1])
            return None if v is None else not v
        vs = [self.truth(x) for x in f[1]]
        if k == "and":
            return False if any(v is False for v in vs) else None if any(v is None for v in vs) else True
        return True if any(v is True for v in vs) else None if any(v is None for v in vs) else False

    def cond(self, n):
        return self.truth(self.lg.boolf(n))

    def pick_arm(self, m):
        st = (self.b.ty(m["scrut"]) or "").lstrip("&")
        if st.startswith("std::option::Option<") or st == "bool":
            for i, a in enumerate(m["arms"]):
                if "guard" in a:
                    return None
                v = self.truth(self.lg.armf(m, i))
                if v is None:
                    return None
                if v:
                    return a
        return None

    def has_output(self, n):
        for c in self.b.calls(None, n):
            if self.is_write(c) or self.is_helper(c):
                return True
        return False

    def is_write(self, c):
        return c["k"] == "MCall" and c["name"] in ("write_fmt", "write_all", "write_str") and self.target_of(c["recv"]) is not None

    def is_helper(self, c):
        cal = callee(c)
        return cal.startswith("codegen::serialize::serialize_") or (CS in cal and c["k"] == "MCall")

    # -- values -------------------------------------------------------------------------------------
    def value(self, n):
        """literal text of an expression in this world, or None."""
        b = self.b
        for _ in range(8):
            n = resolve(b, n)
            k = n.get("k")
            if k == "Lit" and isinstance(n.get("v"), str):
                return n["v"]
            if k == "Path" and n.get("def") in self.prog.bodies:
                r = strip(self.prog.bodies[n["def"]].root)
                return r["v"] if r.get("k") == "Lit" and isinstance(r.get("v"), str) else None
            if k == "If" and "else" in n:
                v = self.cond(n["cond"])
                if v is None:
                    return None
                n = n["then"] if v else n["else"]
                continue
            if k == "Match":
                a = self.pick_arm(n)
                if a is None:
                    return None
                n = a["body"]
                continue
            return None
        return None

    def lit(self, text, to=None):
        to = self.tokens if to is None else to
        to += [("T", t) for t in C_TOKEN.findall(text)]

    def arg(self, n, to=None):
        real = self.tokens
        if to is not None and to is not real:
            # same logic, other sink
            self.tokens = to
            try:
                self.arg(n)
            finally:
                self.tokens = real
            return
        b = self.b
        v = self.value(n)
        if v is not None:
            self.lit(v)
            return
        if is_fn_name(b, n):
            self.tokens.append(("NAME",))
            return
        r = resolve(b, n)
        parts = concat_parts(b, r)
        if parts is not None and any(p[0] == "arg" and is_suffix_call(b, p[1]) for p in parts):
            shape = ["suffix" if p[0] == "arg" and is_suffix_call(b, p[1]) else "name" if p[0] == "arg" and is_fn_name(b, p[1]) else "?" for p in parts]
            self.tokens.append(("WRAPNAME", shape == ["name", "suffix"]))
            return
        if r.get("k") == "Field" and r["f"] == "0":
            u = strip(r["base"])
            if u.get("k") == "MCall" and u["name"] in ("unwrap", "expect") and strip(u["recv"]).get("k") == "MCall" and strip(u["recv"])["name"] == "last":
                self.tokens.append(("LAST", local_id(strip(u["recv"])["recv"])))
                return
        self.tokens.append(("ARG", b.canon(n, 3)))

    # -- execution ----------------------------------------------------------------------------------
    def run(self):
        try:
            self.ex(self.b.root)
        except Stop:
            pass
        return self.tokens

    def ex(self, n):
        b = self.b
        k = n.get("k")
        if k == "Block":
            for st in n.get("stmts", []):
                self.ex(st)
            if isinstance(n.get("tail"), dict):
                self.ex(n["tail"])
        elif k == "Let":
            if isinstance(n.get("init"), dict):
                self.ex(n["init"])
        elif k in ("Semi", "ExprStmt", "Try", "AddrOf", "Cast"):
            self.ex(n["e"])
        elif k == "Ret":
            if "e" in n:
                self.ex(n["e"])
            raise Stop()
        elif k == "If":
            v = self.cond(n["cond"])
            if v is True:
                self.ex(n["then"])
            elif v is False:
                if "else" in n:
                    self.ex(n["else"])
            elif "else" not in n and b.diverges(n["then"]):
                return      # error exit, not part of a successful serialisation
            elif self.has_output(n):
                self.tokens.append(("UNKNOWN", "branch at %s" % b.loc(n)))
        elif k == "Match":
            a = self.pick_arm(n)
            if a is not None:
                self.ex(a["body"])
            elif self.has_output(n):
                self.tokens.append(("UNKNOWN", "match at %s" % b.loc(n)))
        elif k in ("For", "While", "Loop"):
            if self.has_output(n):
                self.tokens.append(("UNKNOWN", "loop at %s" % b.loc(n)))
        elif k == "Closure":
            return
        elif k in ("Call", "MCall") and self.is_write(n):
            sink = self.out(self.target_of(n["recv"]))
            ps = fmt_pieces(b, n)
            if ps is None:
                a = n["args"][0] if n["args"] else {}
                v = self.value(a)
                if n["name"] != "write_fmt" and v is not None:
                    self.lit(v, sink)
                else:
                    sink.append(("UNKNOWN", "write at %s" % b.loc(n)))
                return
            for kind, x in ps:
                if kind == "lit":
                    self.lit(x, sink)
                else:
                    self.arg(x, sink)
        elif k == "MCall" and n.get("name") == "push" and self.stack is not None and local_id(n["recv"]) == self.stack:
            # text queued on the declarator stack is written right after the specifier of the next type that is serialised
            v = self.value(n["args"][0]) if n["args"] else None
            if v is None and n["args"] and strip(n["args"][0]).get("k") == "MCall" and strip(n["args"][0])["name"] in ("to_owned", "to_string", "into"):
                v = self.value(strip(n["args"][0])["recv"])
            if v is not None:
                self.lit(v, self.pending)
            else:
                ids = []
                todo, seen = [n["args"][0]], set()
                while todo:
                    e = todo.pop()
                    for x in b.walk(e):
                        if x["k"] == "Local" and x["id"] not in seen:
                            seen.add(x["id"])
                            if x["id"] in self.bufs:
                                ids.append(x["id"])
                            elif b.local_init(x["id"]) is not None:
                                todo.append(b.local_init(x["id"]))
                if len(ids) == 1:
                    self.pending += self.bufs[ids[0]]
                else:
                    self.pending.append(("UNKNOWN", "declarator pushed at %s" % b.loc(n)))
        elif k in ("Call", "MCall") and self.is_helper(n):
            cal = callee(n)
            if cal.endswith("serialize_args"):
                tgt = self.target_of(n["args"][-1])
                (self.out(tgt) if tgt is not None else self.tokens).append(("PARAMS", local_id(n["args"][0]), n))
            elif cal.endswith("serialize_sep"):
                src = strip(n["args"][1])
                self.tokens.append(("NAMES", local_id(src), self.value(n["args"][0]), n))
            elif cal.startswith("<%s as %s" % (TYPE, CS)) or cal.startswith("<%s as %s" % (TYPEID, CS)):
                self.tokens.append(("TYPE", "ret" if mentions(b, n["recv"], "FunctionSig::return_type") else "?"))
                if local_id(n["args"][2]) == self.stack:
                    self.tokens += self.pending
                    self.pending = []
            else:
                self.tokens.append(("UNKNOWN", "call %s" % cal))
        else:
            for _, c in kids(n):
                self.ex(c)


def find_seq(tokens, pat, start=0):
    """first index >= start where the token texts match pat (strings match ("T", s); tuples match by prefix; None = any)."""
    def m(tok, p):
        if p is None:
            return True
        if isinstance(p, str):
            return tok == ("T", p)
        return tok[:len(p)] == p
    for i in range(start, len(tokens) - len(pat) + 1):
        if all(m(tokens[i + j], p) for j, p in enumerate(pat)):
            return i
    return -1


def show(tokens):
    out = []
    for t in tokens:
        out.append(t[1] if t[0] == "T" else "<%s>" % t[0])
    return " ".join(out)


def chain_to(body, n, target_id, allowed, depth=12):
    """(reaches target local, [method names on the way]) following receiver chains and immutable/never-reassigned locals."""
    names = []
    while depth > 0:
        depth -= 1
        while n.get("k") in ("AddrOf", "Cast") or (n.get("k") == "Unary" and n.get("op") == "*") or \
                (n.get("k") == "Block" and not n.get("stmts") and n.get("tail") is not None):
            n = n.get("e") or n.get("tail")
        k = n.get("k")
        if k == "Local":
            if n["id"] == target_id:
                return True, names
            d = body.local_def.get(n["id"])
            if d and d[0][0] == "let" and not d[1] and d[0][1].get("init") is not None and n["id"] not in body.local_assigned:
                n = d[0][1]["init"]
                while n.get("k") == "Block" and n.get("tail") is not None:
                    n = n["tail"]      # `let x = { lets…; chain }`
                continue
            return False, names
        if k == "MCall":
            names.append(n["name"])
            n = n["recv"]
            continue
        return False, names
    return False, names


@RULES.rule("R16.5", "wrapper text: `<ret> <name+suffix>(<params>) { [return] <name>(<same names, same order>); }` in all four worlds", floor=33)
def r16_5(rep):
    """Necessary: the wrapper must be a C function definition that forwards every argument in order and returns the
    result.  Breaking edits: `.rev()` / `.skip(1)` on the forwarded names (arguments swapped or missing: wrong
    results or a C compile error), dropping `return` for non-void functions (garbage return value that no golden
    test executes), removing `count += 1` (two parameters both called `arg_0`), forwarding to `wrap_name`
    instead of `name` (infinite recursion), passing a different list to `serialize_args` and to the call."""
    prog = rep.prog
    sb = serializer(rep, FN)
    rep.need(sb.params and sb.params[-1].get("k") == "Bind", "writer parameter of <Function as CSerialize>::serialize")
    A = None
    for va in (False, True):
        for void in (False, True):
            w = "va_list=%d,void=%d" % (va, void)
            wt = WrapperText(prog, sb, {"va": va, "void": void})
            rep.need(wt.va_id is not None, "the Option<WrapAsVariadic> parameter of <Function as CSerialize>::serialize")
            toks = wt.run()
            text = show(toks)
            loc = sb.loc(sb.root)
            unk = [t for t in toks if t[0] in ("UNKNOWN", "ARG")]
            if not rep.check(not unk, "decidable:" + w, "abstract execution yields: %s%s" % (text[:160], ("  [unresolved: %s]" % unk[:2]) if unk else ""), loc):
                continue
            # header
            head = [("TYPE", "ret"), ("WRAPNAME", True), "(", ("PARAMS",)]
            head += [",", "...", ")", "{"] if va else [")", "{"]
            ok = find_seq(toks, head) == 0
            rep.check(ok, "header:" + w, "starts with `<ret type> <name+suffix> ( <params> %s) {`: %s" % (", ... " if va else "", text[:90]), loc)
            if not ok:
                continue
            A = toks[3][1]
            body_start = len(head)
            # the forwarded call
            calls = [i for i in range(len(toks)) if toks[i][0] == "NAME"]
            j = calls[0] if len(calls) == 1 else -1
            okc = j >= body_start and find_seq(toks, [("NAME",), "(", ("NAMES",), ")", ";"], j) == j
            rep.check(okc, "forward-call:" + w, "exactly one `<name> ( <names> ) ;` in the body (found %d use(s) of the function name)" % len(calls), loc)
            if not okc:
                continue
            names = toks[j + 2]
            B = names[1]
            # names come from the parameter list, order-preserving
            bn = None
            for n in sb.nodes:
                if n["k"] == "Local" and n["id"] == B:
                    bn = n
                    break
            reached, chain = chain_to(sb, bn, A, ORDER_PRESERVING) if bn is not None and A is not None else (False, [])
            reached = reached or (B == A and A is not None)
            bad_adaptors = [m for m in chain if m not in ORDER_PRESERVING]
            rep.check(reached and not bad_adaptors and "," in (names[2] or ""), "names-from-params-in-order:" + w,
                      "forwarded names derive from the list given to serialize_args through %s, separated by %r%s" %
                      (chain or "identity", names[2], (" — not order/size preserving: %s" % bad_adaptors) if bad_adaptors else ""), sb.loc(names[3]))
            # mutations of the forwarded list: only the `ap` insertion of the va_list world
            muts = []
            for c in sb.calls(lambda n: n["k"] == "MCall" and n["name"] in MUTATORS and local_id(n["recv"]) == B and n["_i"] < names[3]["_i"]):
                if wt.truth(wt.lg.reachf(c)) is not False:
                    muts.append(c)
            if not va:
                rep.check(not muts, "names-unmodified:" + w, "%d mutation(s) of the forwarded list before the call" % len(muts),
                          sb.loc(muts[0]) if muts else loc)
            # value returned
            prev = toks[j - 1]
            if not void:
                direct = prev == ("T", "return")
                via = False
                if prev == ("T", "=") and toks[j - 2][0] == "T":
                    x = toks[j - 2][1]
                    via = find_seq(toks, ["return", x, ";"], j) > j and 0 <= find_seq(toks, [("TYPE", "ret"), x, ";"], body_start) < j
                rep.check(direct or via, "returns-value:" + w, "the call's value is returned (%s)" % ("`return <name>(..)`" if direct else "`x = <name>(..); return x;`" if via else "no return of the call's value: " + text[-80:]), loc)
            else:
                decl = find_seq(toks, [("TYPE", "ret"), None, ";"], body_start)
                rep.check(prev != ("T", "=") and decl < 0, "void-no-value:" + w, "no `void` variable is declared or assigned", loc)
            # closing
            depth = par = 0
            okb = True
            for t in toks:
                if t == ("T", "{"):
                    depth += 1
                elif t == ("T", "}"):
                    depth -= 1
                elif t == ("T", "("):
                    par += 1
                elif t == ("T", ")"):
                    par -= 1
                okb = okb and depth >= 0 and par >= 0
            okb = okb and depth == 0 and par == 0 and toks[-1] == ("T", "}")
            rest = toks[j + 5:]
            if not va:
                okb = okb and rest == [("T", "}")]
            rep.check(okb, "closes:" + w, "braces / parentheses balance and the definition ends with `}`%s" % ("" if va else " right after the call"), loc)
            # va_list protocol
            if va:
                i1 = find_seq(toks, ["va_list", None, ";"], body_start)
                y = toks[i1 + 1][1] if i1 >= 0 and toks[i1 + 1][0] == "T" else None
                i2 = find_seq(toks, ["va_start", "(", y, ",", ("LAST", A), ")", ";"], body_start) if y else -1
                i3 = find_seq(toks, ["va_end", "(", y, ")", ";"], j) if y else -1
                ins = [c for c in muts if c["name"] == "insert" and len(c["args"]) == 2]
                ok_ins = len(muts) == 1 and len(ins) == 1 and mentions(sb, ins[0]["args"][0], "WrapAsVariadic::idx_of_va_list_arg") and \
                    wt.value(strip(ins[0]["args"][1]).get("recv", ins[0]["args"][1])) == y
                rep.check(0 <= i1 < i2 < j < i3 and ok_ins, "va-list-protocol:" + w,
                          "`va_list %s; va_start(%s, <last named>); <call with %s inserted at idx_of_va_list_arg>; va_end(%s);` (decl %d, start %d, call %d, end %d, insert ok %s)"
                          % (y, y, y, y, i1, i2, j, i3, ok_ins), loc)

    # the parameter list itself
    an = None
    for n in sb.nodes:
        if n["k"] == "Let" and n["pat"].get("k") == "Bind" and n["pat"]["id"] == A:
            an = n
    rep.need(an, "definition of the (name, type) list handed to serialize_args")
    init = an["init"]
    tail = init
    while tail.get("k") == "Block" and tail.get("tail") is not None:
        tail = tail["tail"]
    chain = []
    n = strip(tail)
    while n.get("k") == "MCall":
        chain.append(n)
        n = strip(n["recv"]) if n["name"] not in () else n
    src_ok = bool(chain) and callee(chain[-1]) == "ir::function::FunctionSig::argument_types"
    names = [c["name"] for c in chain[:-1]]
    bad = [m for m in names if m not in ORDER_PRESERVING]
    rep.check(src_ok and not bad, "params-from-signature", "list = signature.argument_types() through %s%s" % (names[::-1], (" — drops/reorders: %s" % bad) if bad else ""), sb.loc(an))
    fm = [c for c in chain if c["name"] in ("filter_map", "filter", "map")]
    for c in fm:
        clo = strip(c["args"][0])
        if clo.get("k") != "Closure":
            rep.bad("params-closure:" + c["name"], "adaptor argument is not a closure", sb.loc(c))
            continue
        lgc = Logic(sb)
        nones = [x for x in sb.walk(clo["body"]) if x["k"] == "Path" and x.get("def", "").endswith("::None") and (sb.ty(x) or "").startswith("std::option::Option<(")]
        okn = True
        for x in nones:
            g = [gg for gg in sb.guards(x) if gg not in sb.guards(clo)]
            okn = okn and bool(g) and any(gg[1] == "cond" and mentions(sb, gg[2], "WrapAsVariadic::idx_of_va_list_arg") for gg in g)
        rep.check(okn, "params-drop-only-va_list", "an argument is left out only when its index is WrapAsVariadic.idx_of_va_list_arg (%d `None` path(s))" % len(nones), sb.loc(clo))
        tups = [x for x in sb.walk(clo["body"]) if x["k"] == "Tup" and len(x.get("es", [])) == 2 and "TypeId" in (sb.ty(x) or "")]
        okt = bool(tups)
        for t in tups:
            nm, ty = strip(t["es"][0]), strip(t["es"][1])
            d = sb.local_def.get(ty.get("id")) if ty.get("k") == "Local" else None
            okt = okt and d is not None and d[0][0] == "cparam" and d[0][1] is clo
            r = nm
            if r.get("k") == "MCall" and r["name"] in ("unwrap_or_else", "unwrap_or", "unwrap_or_default", "map_or_else"):
                d2 = sb.local_def.get(local_id(r["recv"]))
                okt = okt and d2 is not None and d2[0][0] == "cparam" and d2[0][1] is clo
                fb = strip(r["args"][-1]) if r["args"] else {}
                # fallback name: a counter that is interpolated and incremented
                uniq = False
                if fb.get("k") == "Closure":
                    incs = {local_id(x["l"]) for x in sb.walk(fb["body"]) if x["k"] in ("AssignOp", "Assign")}
                    for x in sb.walk(fb["body"]):
                        if sb.macro_name(x) == "format":
                            for kind, e in fmt_pieces(sb, x) or []:
                                if kind == "arg" and local_id(e) in incs:
                                    uniq = True
                rep.check(uniq, "unnamed-params-get-distinct-names", "the fallback name interpolates a counter that is incremented per unnamed parameter", sb.loc(r))
            else:
                okt = False
        rep.check(okt, "params-pair-name-with-own-type", "each entry pairs the argument's own name (or fallback) with its own type id", sb.loc(clo))

    # serialize_args: each parameter is `<type> <name>` of the same entry; serialize_sep visits every element in order
    ab = rep.need(prog.fn("codegen::serialize::serialize_args"), "serialize_args")
    seps = [c for c in ab.calls(lambda n: n["k"] == "Call" and callee(n).endswith("serialize::serialize_sep"))]
    ok = False
    for c in seps:
        reached, ch = chain_to(ab, strip(c["args"][1]), ab.params[0].get("id"), ORDER_PRESERVING)
        clo = strip(c["args"][-1])
        if reached and all(m in ORDER_PRESERVING for m in ch) and clo.get("k") == "Closure":
            for s in ab.calls(lambda n: n["k"] == "MCall" and callee(n).startswith("<%s as %s" % (TYPEID, CS)), clo["body"]):
                d = ab.local_def.get(local_id(s["recv"]))
                nm_ids = {lid for lid, dd in ab.local_def.items() if dd[0][0] == "cparam" and dd[0][1] is clo and dd[1] and dd[1][-1] == ("tuple", "0")}
                in_stack = any(x["k"] == "Local" and x["id"] in nm_ids for x in ab.walk(s["args"][2]))
                ok = ok or (d is not None and d[0][0] == "cparam" and d[0][1] is clo and d[1] and d[1][-1] == ("tuple", "1") and in_stack)
    rep.check(ok, "param-declarator@serialize_args", "every entry is written as its type with its own name as declarator", ab.loc(ab.root))
    pb = rep.need(prog.fn("codegen::serialize::serialize_sep"), "serialize_sep")
    it_id, f_id = pb.params[1].get("id"), pb.params[-1].get("id")
    fcalls = [c for c in pb.calls(lambda n: n["k"] == "Call" and "f" in n and local_id(n["f"]) == f_id)]
    loops = [n for n in pb.nodes if n["k"] in ("For", "While") and local_id((n.get("iter") or strip(n.get("cond", {})).get("init") or {})) == it_id or
             (n["k"] == "While" and mentions(pb, n.get("cond", {}), "Iterator::next") and any(x.get("k") == "Local" and x["id"] == it_id for x in pb.walk(n["cond"])))]
    in_loop = [c for c in fcalls if loops and any(a is loops[0] for a in pb.ancestors(c))]
    okv = len(loops) == 1 and len(in_loop) == 1 and not loop_exits(pb, loops[0]) and \
        not [g for g in pb.guards(in_loop[0]) if g[1] == "cond" and g not in pb.guards(loops[0]["body"]) and loops[0]["k"] == "For"]
    # elements consumed before the loop (`iter.next()`) must be handed to f as well
    nexts = [c for c in pb.calls(lambda n: n["k"] == "MCall" and n["name"] == "next" and local_id(n["recv"]) == it_id) if not loops or not any(a is loops[0] for a in pb.ancestors(c)) and c is not strip(loops[0].get("cond", {})).get("init")]
    pre = [c for c in fcalls if c not in in_loop and loops and c["_i"] < loops[0]["_i"]]
    okv = okv and len(pre) == len(nexts) and all(c["args"] and sb is not None and pb.local_def.get(local_id(c["args"][0]), (("",),))[0][0] in ("letcond", "let", "arm", "for") for c in fcalls)
    rep.check(okv, "visits-every-element-in-order@serialize_sep", "f is called once per element (%d before the loop for %d `next()`, %d in the loop), no skip" % (len(pre), len(nexts), len(in_loop)), pb.loc(pb.root))
    seps_w = [c for c in pb.calls(lambda n: n["k"] == "MCall" and n["name"] in ("write_all", "write_fmt", "write_str"))]
    oks = bool(seps_w) and all(loops and any(a is loops[0] for a in pb.ancestors(c)) and in_loop and c["_i"] < in_loop[0]["_i"] and mentions(pb, c["args"][0], "param") is False for c in seps_w) and \
        all(any(x.get("k") == "Local" and x["id"] == pb.params[0].get("id") for x in pb.walk(resolve(pb, c["args"][0]))) or local_id(c["args"][0]) is not None for c in seps_w)
    rep.check(oks, "separator-between-elements@serialize_sep", "the separator is written inside the loop before each further element", pb.loc(pb.root))


def check_queue_survives(rep):
    """Every body that makes a fresh CodegenResult either hands it to serialize_items or merges its
    `items_to_serialize` into another CodegenResult (unconditionally)."""
    prog = rep.prog
    n_found = 0
    for bb in prog.bodies.values():
        news = [c for c in bb.calls(lambda n: n["k"] == "Call" and re.search(r"codegen::CodegenResult(::<[^>]*>)?::new$", callee(n)))]
        for c in news:
            n_found += 1
            let = None
            for a in bb.ancestors(c):
                if a["k"] == "Let" and a["pat"].get("k") == "Bind":
                    let = a
                    break
            key = "queue-survives@" + short(bb)
            if let is None:
                rep.bad(key, "a fresh CodegenResult is not bound to a local: cannot follow its items_to_serialize", bb.loc(c))
                continue
            lid = let["pat"]["id"]
            to_ser = [x for x in bb.calls(lambda n: n["k"] == "Call" and callee(n) == "codegen::utils::serialize_items")
                      if any(y.get("k") == "Local" and y["id"] == lid for y in bb.walk(x["args"][0]))]
            if to_ser:
                rep.ok(key, "the CodegenResult is handed to serialize_items", bb.loc(c))
                continue
            merges = []
            for m in bb.calls(lambda n: n["k"] == "MCall" and n["name"] in ("append", "extend", "extend_from_slice")):
                r = strip(m["recv"])
                if r.get("k") == "Field" and r.get("adt") == RESULT and r["f"] == "items_to_serialize" and local_id(r["base"]) != lid:
                    src = [y for y in bb.walk(m["args"][0]) if y.get("k") == "Field" and y.get("adt") == RESULT and y["f"] == "items_to_serialize" and local_id(y["base"]) == lid]
                    if src and not [g for g in bb.guards(m) if g[1] in ("cond", "arm")]:
                        merges.append(m)
            rep.check(bool(merges), key, "items_to_serialize of the inner CodegenResult is %s" %
                      ("appended to the outer one" if merges else "dropped: functions queued inside a module generated through it get a "
                       "binding (`--enable-cxx-namespaces`: every module, including the root) but no wrapper"), bb.loc(c))
    return n_found


@RULES.rule("R16.6", "functions queued for wrapping survive nested CodegenResults", floor=2)
def r16_6(rep):
    """Necessary: `serialize_items` only sees the outermost CodegenResult.  Breaking edit: `CodegenResult::inner` not
    appending `new.items_to_serialize` — with `--enable-cxx-namespaces` the binding links against foo__extern and no
    wrapper file is written (the defect repaired by the `fix:` commit for C01/C16)."""
    n = check_queue_survives(rep)
    rep.need(n > 0, "a `CodegenResult::new` call")


# ---------------------------------------------------------------------------------------------------------------------
# R16.7 — added by the main session after an independently seeded change was missed (`IntKind::ULongLong` serialised as
# "unsigned long" while moving the table into a helper).
C_SPELLING = {
    "ir::int::IntKind": {"Bool": "bool", "SChar": "signed char", "UChar": "unsigned char", "WChar": "wchar_t", "Short": "short",
                         "UShort": "unsigned short", "Int": "int", "UInt": "unsigned int", "Long": "long", "ULong": "unsigned long",
                         "LongLong": "long long", "ULongLong": "unsigned long long", "Char": "char"},
    "ir::ty::FloatKind": {"Float16": "_Float16", "Float": "float", "Double": "double", "LongDouble": "long double", "Float128": "__float128"},
}


COMPLEX_SPELLING = {"Float128": "__complex128"}
# keyword spellings that are equally correct
C_SPELLING_ALT = {("IntKind", "Bool"): ["_Bool"]}
# C99/C11 keywords that can occur in a type specifier
C_KEYWORDS = {"void", "char", "short", "int", "long", "float", "double", "signed", "unsigned", "_Bool", "_Complex", "_Imaginary", "const",
              "volatile", "restrict", "struct", "union", "enum", "_Float16", "_Atomic"}
# names that are keywords in C++ only, for kinds that only C++ translation units produce (C's wchar_t is a typedef => Alias arm)
CXX_ONLY_BUILTINS = {"wchar_t"}
CXX_ONLY_KINDS = {("IntKind", "WChar")}
LIB_HEADER = {"bool": "stdbool.h", "complex": "complex.h", "wchar_t": "stddef.h", "nullptr_t": "stddef.h"}


def includes_std_header(prog, hdr):
    """does serialize_items write `#include <hdr>` into the wrapper file?"""
    if hdr is None:
        return False
    si = prog.fn("codegen::utils::serialize_items")
    if si is None:
        return False
    return any(x["k"] == "Lit" and isinstance(x.get("v"), str) and ("<%s>" % hdr) in x["v"] for x in si.walk())


def _fmt_text(v):
    import re as _re
    return _re.sub(r"[\x00-\x1f]", "", v or "").replace("�", "{}")


@RULES.rule("R16.7", "wrapper signatures spell every C scalar type by its own C name, in keywords", floor=36)
def r16_7(rep):
    """The wrapper is compiled by a C compiler against the original static function: `unsigned long f__extern(unsigned long)`
    for an `unsigned long long` function silently truncates on ILP32/LLP64 targets while the Rust binding passes 64 bits."""
    from hir import pat_variants as _pv
    prog = rep.prog
    found = {}
    for p, b in prog.bodies.items():
        if not (p.startswith("codegen::serialize") or "codegen::serialize::" in p):
            continue
        for m in b.walk():
            if m["k"] != "Match":
                continue
            for enum, table in C_SPELLING.items():
                rows = []
                for a in m["arms"]:
                    vs = [v[len(enum) + 2:] for v in _pv(a["pat"]) if v.startswith(enum + "::")]
                    if not vs:
                        continue
                    lits = [_fmt_text(x.get("v")) for x in b.walk(a["body"]) if x["k"] == "Lit" and x.get("lk") in ("str", "bytes") and isinstance(x.get("v"), str)]
                    rows.append((vs, "".join(lits).strip(), a))
                if len(rows) >= 3:
                    for vs, text, a in rows:
                        for v in vs:
                            if v in table:
                                found.setdefault((enum, v), []).append((text, b, a))
    for enum, table in C_SPELLING.items():
        short = enum.split("::")[-1]
        for v, want in table.items():
            hits = found.get((enum, v), [])
            if not hits:
                if short == "FloatKind" or v in ("Bool", "SChar", "UChar", "WChar", "Short", "UShort", "Int", "UInt", "Long", "ULong", "LongLong", "ULongLong", "Char"):
                    rep.bad("c-name:%s::%s" % (short, v), "no serialisation row for %s::%s" % (short, v))
                continue
            for text, b, a in hits:
                is_complex = any(kind == "arm" and any("TypeKind::Complex" in x for x in _pv(g[0]["arms"][g[1]]["pat"]))
                                 for pol, kind, g in b.guards(a["body"]))
                accept = ([COMPLEX_SPELLING[v]] if v in COMPLEX_SPELLING else [want + " _Complex", want + " complex"]) if is_complex else \
                    [want] + C_SPELLING_ALT.get((short, v), [])
                rep.check(text in accept, "c-name:%s::%s%s" % (short, v, ":complex" if is_complex else ""),
                          "%s::%s is written as `%s` (C spelling: `%s`)" % (short, v, text, accept[0]), b.loc(a["body"]))
                # the wrapper file includes nothing but the user's headers: a spelling that is a library macro / typedef rather than
                # a keyword only compiles when the header happens to include the defining standard header
                if text in accept:
                    lib = [t for t in C_TOKEN.findall(text) if re.match(r"[A-Za-z_]", t) and t not in C_KEYWORDS and not t.startswith("__")
                           and not (t in CXX_ONLY_BUILTINS and (short, v) in CXX_ONLY_KINDS)]
                    missing = [t for t in lib if not includes_std_header(prog, LIB_HEADER.get(t))]
                    rep.check(not missing, "c-name-is-keyword:%s::%s%s" % (short, v, ":complex" if is_complex else ""),
                              "`%s` consists of keywords / compiler builtins only" % text if not missing else
                              "`%s` is not a C keyword but a name from <%s>, which the wrapper file does not include: a header that uses `%s` "
                              "without it gets a wrapper that does not compile" % (missing[0], LIB_HEADER.get(missing[0], "?"),
                                                                                  {"bool": "_Bool", "complex": "_Complex"}.get(missing[0], missing[0])),
                              b.loc(a["body"]))


@RULES.rule("R16.8", "options the wrapper file is assembled from are still there when it is assembled", floor=2)
def r16_8(rep):
    """`serialize_items` pastes `options.input_header_contents` into the wrapper source so that the wrappers see the
    declarations of headers given as text; if `Builder::generate` has moved the contents out of the options before codegen,
    the wrapper source for a `header_contents` input has no declarations and does not compile."""
    prog = rep.prog
    OPT = "options::BindgenOptions"
    si = rep.need(prog.fn("codegen::utils::serialize_items"), "utils::serialize_items")
    used = set()
    for n in si.walk():
        if n["k"] == "Field" and n.get("adt") == OPT:
            used.add(n["f"])
    rep.need(used, "option fields read by serialize_items")
    emptied = {}
    # anywhere between the builder and code generation (the option setters themselves only add)
    for path, b in sorted(prog.bodies.items()):
        if "::tests::" in path:
            continue
        for n in b.nodes:
            if n["k"] == "Assign":
                t = strip(n["l"])
                if t.get("k") == "Field" and t.get("adt") == OPT:
                    r = strip(n["r"])
                    rc = b.canon(r, 3)
                    empties = (r.get("k") in ("Call", "MCall") and (rc.startswith("std::vec::Vec::<T>::new(") or "Default>::default(" in rc or rc.startswith("std::vec::Vec::new"))) or \
                        (r.get("k") == "Array" and not r.get("es"))
                    if empties:
                        emptied[t["f"]] = (b, n)
        for c in b.calls():
            callee = c.get("callee") or ""
            if callee in ("std::mem::take", "std::mem::replace") or (c["k"] == "MCall" and c["name"] in ("drain", "clear", "take")):
                tgt = c["args"][0] if c["k"] == "Call" else c["recv"]
                t = strip(tgt)
                while t.get("k") in ("AddrOf",):
                    t = strip(t["e"])
                if t.get("k") == "Field" and t.get("adt") == OPT:
                    emptied[t["f"]] = (b, c)
    for f in sorted(used):
        if f in emptied:
            b, c = emptied[f]
            rep.bad("option-emptied-before-use:%s@%s" % (f, b.path), "`options.%s` is moved out in %s before code generation, but "
                    "serialize_items still reads it to build the wrapper file (it is always empty there)" % (f, b.path), b.loc(c))
        else:
            rep.ok("option-intact:%s" % f)


# ---------------------------------------------------------------------------------------------------------
# R16.9  C declarator composition: where `const` and the `[n]` / `(..)` suffixes go
# ---------------------------------------------------------------------------------------------------------
ARM_CLASS = {
    # writes a type specifier: a `const ` prefix qualifies exactly this type
    "Void": "specifier", "NullPtr": "specifier", "Int": "specifier", "Float": "specifier", "Complex": "specifier",
    "Comp": "specifier", "Enum": "specifier",
    # a typedef name is a specifier; an unnamed alias hands over to its referent
    "Alias": "specifier-or-delegate",
    # hands over to another type with the same pending declarator
    "ResolvedTypeRef": "delegate",
    # `*` is a prefix operator of the declarator
    "Pointer": "prefix-declarator",
    # `[n]` and `(params)` are suffix operators: they bind tighter than `*`
    "Array": "suffix-declarator", "Function": "suffix-declarator",
}


def _is_self_const(tb, n):
    n = strip(n)
    return n.get("k") == "MCall" and callee(n) == TYPE + "::is_const" and local_id(n["recv"]) == tb.params[0].get("id")


def _const_sites(tb, arm_body, wid, stack_id):
    """(node, how) for every place of the arm where the qualifier of `self` is acted on: how = 'prefix' (written to the output
    before anything else of the type) or 'push' (queued on the declarator stack)."""
    out = []
    for n in tb.walk(arm_body):
        if n["k"] != "If" or not any(_is_self_const(tb, x) for x in tb.walk(n["cond"])):
            continue
        for c in tb.calls(None, n["then"]):
            if c["k"] == "MCall" and c["name"] == "write_fmt" and local_id(c["recv"]) in wid:
                out.append((c, "prefix", n))
            elif c["k"] == "MCall" and c["name"] == "push" and local_id(c["recv"]) == stack_id:
                out.append((c, "push", n))
    return out


@RULES.rule("R16.9", "C declarators: `const` is placed by the arm that owns the type, suffixes bind before `*` and in source order", floor=16)
def r16_9(rep):
    """Necessary for the wrapper to compile against the static function (`int f(int (*p)[2])`, `int g(int m[3][2])`,
    `int h(int *const p)`): C declarators are read inside-out, `[n]` and `(..)` bind tighter than `*`, and a qualifier written as
    a prefix attaches to the innermost base type.  So (a) an arm that only forwards to another type must not print `const `
    itself unless it knows the referent will not — otherwise a const POINTER behind a type reference becomes a pointer to
    const (`const int *const p`) and const referents are qualified twice; (b) a suffix arm has to take the pending declarator
    off the stack (parenthesised when it starts with `*`) before it recurses; (c) its own suffix has to be attached before the
    element type adds inner suffixes."""
    tb = serializer(rep, TYPE)
    wid = {tb.params[-1].get("id")}
    stack_id = tb.params[-2].get("id")
    km = [n for n in tb.nodes if n["k"] == "Match" and (tb.ty(n["scrut"]) or "").replace("&", "") == "ir::ty::TypeKind"]
    rep.need(km, "match over TypeKind in <Type as CSerialize>::serialize")
    top = km[0]
    seen = set()
    for a in top["arms"]:
        for v in pat_variants(a["pat"]):
            kind = v.split("::")[-1]
            cls = ARM_CLASS.get(kind)
            if cls is None:
                continue
            seen.add(kind)
            body = a["body"]
            rec = [c for c in tb.calls(lambda x: x["k"] == "MCall" and CS in callee(x), body)
                   if any(local_id(x) == stack_id for x in c["args"]) and not any(y["k"] == "Closure" for y in tb.ancestors(c) if y["_i"] > body["_i"])]
            sites = _const_sites(tb, body, wid, stack_id)
            for c, how, iff in sites:
                if cls in ("specifier", "specifier-or-delegate"):
                    # on a path that also recurses with the same stack the arm is a delegate
                    same_path = [r for r in rec if any(x is iff for x in tb.ancestors(r)) or
                                 not ([g for g in tb.guards(r) if g not in tb.guards(iff)])]
                    delegating = cls == "specifier-or-delegate" and bool(same_path) and how == "prefix"
                    rep.check(how == "prefix" and not delegating, "const-placement:" + kind,
                              "`const ` is written in front of the specifier" if how == "prefix" and not delegating else
                              "the qualifier of a %s is %s" % (kind, "queued on the declarator stack" if how == "push" else "written before handing over to the referent"),
                              tb.loc(c))
                elif cls == "delegate":
                    other = []
                    for pol, gk, g in tb.guards(c):
                        if gk == "cond":
                            other += [x for x in tb.walk(g) if x["k"] == "MCall" and x.get("name") == "is_const" and not _is_self_const(tb, x)]
                    other += [x for x in tb.walk(iff["cond"]) if x["k"] == "MCall" and x.get("name") == "is_const" and not _is_self_const(tb, x)]
                    ok = how == "prefix" and bool(other)
                    rep.check(ok, "const-placement:" + kind,
                              "`const ` is only written when the referent does not carry the qualifier itself" if ok else
                              "`const ` is written unconditionally before the referent: a const pointer parameter (`int *const p`) becomes `const int *const p`, "
                              "a const referent is qualified twice", tb.loc(c))
                elif cls == "prefix-declarator" or cls == "suffix-declarator":
                    rep.check(how == "push", "const-placement:" + kind,
                              "the qualifier of the %s joins the declarator (stack)" % kind if how == "push" else
                              "a `const ` prefix in a %s arm qualifies the base type, not the %s" % (kind, kind.lower()), tb.loc(c))
            if cls == "suffix-declarator":
                pops = [c for c in tb.calls(lambda x: x["k"] == "MCall" and x["name"] in ("pop", "drain", "split_off", "take") and
                                            local_id(x["recv"]) == stack_id, body)]
                pops += [c for c in tb.calls(lambda x: x["k"] == "Call" and callee(x).startswith("std::mem::take") and
                                             any(local_id(y) == stack_id for y in x["args"]), body)]
                rep.check(bool(pops), "suffix-binds-tighter:" + kind,
                          "the pending declarator is taken off the stack inside the arm" if pops else
                          "the %s suffix is written without taking the pending declarator: with `*` pending (`int (*p)[2]`) the text reads `int *p [2]`, "
                          "an array of pointers" % kind, tb.loc(body))
                if kind == "Array":
                    # the local(s) bound to the length
                    ids = set()
                    def binds(p):
                        if p.get("k") == "Bind":
                            ids.add(p["id"])
                        for q in p.get("ps", []):
                            binds(q)
                    binds(a["pat"])
                    ty_len = [i for i in ids if (tb.prog.types[tb.local_def[i][2].get("t")] if tb.local_def[i][2].get("t") is not None else "").replace("&", "") == "usize"]
                    uses = [n for n in tb.walk(body) if n["k"] == "Local" and n["id"] in (ty_len or ids) and
                            (tb.ty(n) or "").replace("&", "") == "usize"]
                    first_rec = min((c["_i"] for c in rec), default=None)
                    ok = bool(uses) and first_rec is not None and all(u["_i"] < first_rec for u in uses)
                    rep.check(ok, "array:dimension-order", "the `[len]` of this array is attached before the element type is serialised" if ok else
                              "the element type is serialised before this array's `[len]` is written: nested arrays print the inner dimension "
                              "first (`int m[3][2]` becomes `int m [2] [3]`)", tb.loc(body))
    for kind in ("Array", "Function", "Pointer", "ResolvedTypeRef", "Alias", "Int", "Comp", "Enum"):
        rep.need(kind in seen, "TypeKind::%s arm of <Type as CSerialize>::serialize" % kind)
    # (d) the return type is a type like any other: what it declares (the wrapper with its parameter list, the `ret` variable)
    # has to be its pending declarator, otherwise `int (*f(void))(int)` is written `int (*) (int) f__extern(void)`
    sb = serializer(rep, FN)
    fstack = sb.params[-2].get("id")
    rets = [c for c in sb.calls(lambda x: x["k"] == "MCall" and callee(x).startswith("<%s as %s" % (TYPE, CS)))
            if mentions(sb, c["recv"], "FunctionSig::return_type")]
    rep.need(rets, "serialisation of the return type in <Function as CSerialize>::serialize")
    cs_calls = sorted(c["_i"] for c in sb.calls(lambda x: x["k"] == "MCall" and CS in callee(x)))
    for n, c in enumerate(rets):
        st = strip(c["args"][2])
        ok = False
        what = "an empty declarator"
        if st.get("k") == "Local" and st["id"] == fstack:
            prev = max([i for i in cs_calls if i < c["_i"]], default=-1)
            pushes = [p for p in sb.calls(lambda x: x["k"] == "MCall" and x["name"] == "push" and local_id(x["recv"]) == fstack)
                      if prev < p["_i"] < c["_i"] and [g for g in sb.guards(p) if g[1] != "letelse"] == [g for g in sb.guards(c) if g[1] != "letelse"]]
            ok = bool(pushes)
            if ok:
                what = "`%s`" % sb.canon(pushes[-1]["args"][0], 2)[:60]
        elif mentions(sb, st, "into_vec") or st.get("k") == "Array" or sb.macro_name(st) == "vec":
            ok = any(x["k"] in ("Local", "Lit") for x in sb.walk(st) if x is not st)
            what = "`%s`" % sb.canon(st, 2)[:60]
        rep.check(ok, "return-type-declarator:%d@Function::serialize" % n,
                  "the return type is written around %s" % what if ok else
                  "the return type is serialised with nothing pending and the name is written after it: a function returning a pointer to a "
                  "function or array gets `int (*) (int) f__extern(void)`, which is not C", sb.loc(c))


@RULES.rule("R16.10", "struct / union / enum tags are written as C spells them, function-pointer parameters keep their `...`", floor=4)
def r16_10(rep):
    """The wrapper is C source: `struct type`, `struct Inner` (declared inside `struct Outer`) and, under `--c-naming`, `struct foo`
    have to be written with the tag the header uses.  `Item::canonical_name` is bindgen's RUST name (`type_`, `Outer_Inner`,
    `struct_foo`): `int f(struct type_ t)` names an incomplete type and does not compile.  Likewise a parameter of type
    `int (*)(int, ...)` has to keep its ellipsis, or an incompatible function pointer is passed on."""
    tb = serializer(rep, TYPE)
    km = [n for n in tb.nodes if n["k"] == "Match" and (tb.ty(n["scrut"]) or "").replace("&", "") == "ir::ty::TypeKind"]
    rep.need(km, "match over TypeKind in <Type as CSerialize>::serialize")
    top = km[0]
    n = 0
    for a in top["arms"]:
        kinds = [v.split("::")[-1] for v in pat_variants(a["pat"])]
        if not set(kinds) & {"Comp", "Enum"}:
            continue
        for c in tb.calls(lambda x: x["k"] == "MCall" and x["name"] == "write_fmt", a["body"]):
            ps = fmt_pieces(tb, c)
            if not ps:
                continue
            lits_ = [x for k_, x in ps if k_ == "lit"]
            if not any(re.search(r"\b(struct|union|enum)\b", l) for l in lits_):
                continue
            for k_, x in ps:
                if k_ != "arg":
                    continue
                n += 1
                src = tb.canon(x, 8)
                ok = "ir::ty::Type::name(param:self)" in src or "param:self.ir::ty::Type::name" in src
                rep.check(ok, "c-tag:%s@Type::serialize#%d" % ("|".join(sorted(set(kinds) & {"Comp", "Enum"})), n),
                          "the tag is the type's C name (Rust name only as a fall-back for unnamed types)" if ok else
                          "the tag is `%s`: bindgen's Rust-side name, not the tag the C header declares" % src[:70], tb.loc(c))
    rep.need(n >= 3, "`struct {name}` / `union {name}` / `enum {name}` writes in the Comp and Enum arms")
    fa = [a for a in top["arms"] if any(v.endswith("TypeKind::Function") for v in pat_variants(a["pat"]))]
    rep.need(fa, "the Function arm of <Type as CSerialize>::serialize")
    body = fa[0]["body"]
    dots = [c for c in tb.calls(lambda x: x["k"] == "MCall" and x["name"] in ("write_fmt", "write_all", "write_str"), body)
            if any(y["k"] == "Lit" and isinstance(y.get("v"), str) and "..." in y["v"] for y in tb.walk(c))]
    ok = bool(dots) and all(any(kind == "cond" and pol and "FunctionSig::is_variadic" in tb.canon(g, 5) for pol, kind, g in tb.guards(d_)) for d_ in dots)
    rep.check(ok, "fnptr-ellipsis@Type::serialize", "a variadic function type is written with `, ...`" if ok else
              "the Function arm never writes `...`: `int (*cb)(int, ...)` is serialised as `int (*cb) (int)`", tb.loc(body))


# names rust_mangle rewrites although no edition reserves them any more (reserved before Rust 1.0); the golden expectation
# keywords.rs pins them.  Each is an instance of the recorded R16.1 finding (a renamed static function gets no wrapper).
LEGACY_MANGLED = {"alignof", "offsetof", "proc", "pure", "sizeof"}


@RULES.rule("R16.11", "rust_mangle renames no name that Rust does not reserve (a renamed static function is bound without a wrapper)", floor=70)
def r16_11(rep):
    """`Function::codegen` wraps a static function only when the binding needs no `#[link_name]` (`should_wrap = .. &&
    link_name_attr.is_none()`, the recorded R16.1 finding).  A function whose C name is rewritten by `rust_mangle` always needs one.
    Every word added to the table therefore moves one more C identifier from "wrapped" to "bound to an internal symbol, no wrapper":
    adding `f16` / `f128` did that to `static inline int f16(void)` in a seeded change.  The table may hold exactly the words the
    language reserves (all editions), `_`, the primitive type names bindgen writes without a path, and the five legacy words."""
    import c01
    orc = c01.oracle()
    b, words, word_nodes, tested, test_nodes = c01.mangle_model(rep)
    rep.need(words, "the literal keyword set matched on `name` in rust_mangle")
    allowed = set(orc["keywords"]) | set(orc["wildcard"]) | set(orc["primitive_types_emitted_unqualified"])
    loc = b.loc(word_nodes[0]) if word_nodes else b.loc(b.root)
    for w in sorted(set(words)):
        ok = w in allowed or w in LEGACY_MANGLED
        rep.check(ok, "needless-rename:" + w, ("reserved by the language" if w in allowed else "legacy word, pinned by keywords.rs") if ok else
                  "`%s` is a legal Rust identifier, but rust_mangle renames it to `%s_`: a static function of that name now gets "
                  "`#[link_name = \"%s\"]` on an internal symbol and no wrapper" % (w, w, w), loc)


@RULES.rule("R16.12", "the wrapper file holds exactly this generation's wrappers: files opened for writing start empty (shared with C11 R11.9)", floor=2)
def r16_12(rep):
    """`fs::write` replaces the file.  Streaming the wrappers through `OpenOptions::new().write(true).create(true)` without
    `truncate(true)` leaves the tail of the previous run behind when the new text is shorter: the file then defines wrappers for
    functions that have no binding any more, or does not compile (seeded change)."""
    import c11
    c11.r11_9(rep)


@RULES.rule("R16.13", "the name the C serialiser writes for a typedef is the name C knows it by", floor=5)
def r16_13(rep):
    """`CSerialize for Type` writes `Type::name()` for a typedef.  That is only C's name for it if `Type::from_clang_ty` stores what
    libclang spelled: every value assigned to the `name` handed to `Type::new` must come from a `spelling()` call (or be a fixed
    ObjC name), and the stored string must not be edited afterwards."""
    prog = rep.prog
    b = rep.need(prog.fn("ir::ty::Type::from_clang_ty"), "Type::from_clang_ty")
    news = [c for c in b.calls(lambda x: (x.get("callee") or "").endswith("ty::Type::new"))]
    rep.need(news, "Type::new in from_clang_ty")
    a0 = strip(news[-1]["args"][0])
    rep.need(a0.get("k") == "Local", "the name local handed to Type::new")
    nid = a0["id"]

    def is_name(x):
        x = strip(x)
        while x.get("k") in ("Unary", "Field", "MCall") and x.get("k") != "Local":
            x = strip(x.get("e") or x.get("base") or x.get("recv") or {})
        if x.get("k") != "Local":
            return False
        if x["id"] == nid:
            return True
        d = b.local_def.get(x["id"])
        # `if let Some(ref mut name) = name`
        return bool(d and d[0][0] in ("letcond", "arm", "let") and strip(d[0][1].get("init") or d[0][1].get("scrut") or {}).get("id") == nid)
    n = 0
    for x in b.nodes:
        if x["k"] == "Assign" and is_name(x["l"]):
            n += 1
            src = b.canon(x["r"], 6)
            ok = "::spelling(" in src or "ObjCInterface::rust_name" in src or "lit:'id'" in src or ("Option::<T>::filter(" in src) or "None" == src.split("::")[-1]
            rep.check(ok, "typedef-name-from-clang@L%s" % ("spelling" if "spelling" in src else src.split("(")[0].split("::")[-1][:20]),
                      "assigned from `%s`" % src[:70] if ok else "`name` is assigned `%s`, which is not a spelling reported by libclang" % src[:80], b.loc(x))
        elif (x["k"] == "AssignOp" and is_name(x["l"])) or \
                (x["k"] == "MCall" and x["name"] in ("push_str", "push", "insert_str", "insert", "truncate", "make_ascii_lowercase", "make_ascii_uppercase", "clear", "replace_range")
                 and is_name(x["recv"])):
            n += 1
            rep.bad("c-name-edited@Type::from_clang_ty",
                    "the stored name is edited in place (`%s`): the C wrapper of a function taking this typedef names a type C has never "
                    "heard of" % b.canon(x, 4)[:80], b.loc(x))
    rep.need(n >= 5, "assignments to the name local")


@RULES.rule("R16.14", "the wrapper file includes every header clang was given: the input headers and the `-include` arguments", floor=2)
def r16_14(rep):
    """A wrapper can only call the static function if its header is included.  Headers reach clang in two ways: as `input_headers`
    and as `-include <header>` clang arguments — which is how all headers but the last one arrive once a configuration has been through
    `command_line_flags()`.  `serialize_items` has to write an `#include` for both kinds (before the fix only for the first, so the
    same two-header configuration gave a complete wrapper file directly and an incomplete one through the CLI)."""
    prog = rep.prog
    b = rep.need(next((x for p, x in prog.bodies.items() if p.endswith("utils::serialize_items")), None), "utils::serialize_items")
    # loops that write `#include "<x>"`
    incs = []
    for n in b.nodes:
        if n["k"] == "For" and any(x["k"] == "Lit" and isinstance(x.get("v"), str) and "#include" in x["v"] for x in b.walk(n["body"])):
            incs.append(n)
    rep.need(incs, "loops writing `#include` lines in serialize_items")
    srcs = []
    for l in incs:
        src = b.canon(l["iter"], 12)
        for x in b.walk(l["iter"]):
            if x["k"] == "Local" and b.local_init(x["id"]) is not None:
                src += " " + b.canon(b.local_init(x["id"]), 14)
                for y in b.walk(b.local_init(x["id"])):
                    if y["k"] == "Lit" and isinstance(y.get("v"), str):
                        src += " lit:" + y["v"]
                    if y["k"] == "Field":
                        src += " ." + y.get("f", "")
        srcs.append(src)
    has_inputs = any("input_headers" in s_ for s_ in srcs)
    has_forced = any("clang_args" in s_ and "-include" in s_ for s_ in srcs)
    rep.check(has_inputs, "includes:input-headers", "every input header is included", b.loc(incs[0]))
    rep.check(has_forced, "includes:forced-headers", "every `-include <header>` clang argument is included" if has_forced else
              "headers given to clang as `-include <header>` are not included in the wrapper file: after a trip through the command line "
              "that is every input header but the last", b.loc(incs[0]))


@RULES.rule("R16.15", "a function with internal linkage that is never defined gets no binding and no wrapper", floor=1)
def r16_15(rep):
    """A `static` function exists only where it is defined.  `static int f(int);` without a body in the translation unit (typical for
    single-header libraries whose bodies sit behind `#ifdef X_IMPLEMENTATION`) has nothing a wrapper could call: `f__extern` would
    reference an undefined function and the wrapper object would not link, which takes every other wrapper in the file with it.
    `Function::parse` must leave such declarations out, before anything else is decided about inline functions: an early exit under
    "internal linkage and `cursor.definition()` is none", not nested in any other condition.  (Before the fix only the `inline`
    variant was left out, through `is_deleted_function`; an independently seeded change that restricted that test to external linkage
    is what drew attention to it.)"""
    import qq
    prog = rep.prog
    b = rep.need(prog.impl_fn("parse::ClangSubItemParser", "ir::function::Function", "parse"), "<Function as ClangSubItemParser>::parse")
    found = None
    for r in b.walk():
        if r["k"] != "Ret" or "Err" not in b.canon(r.get("e") or {}, 2):
            continue
        atoms = qq.guard_atoms(b, r)
        pos = [a for a, pol, g in atoms if pol]
        internal = any("Linkage::Internal" in a for a in pos)
        nodef = any("Cursor::definition" in a and "is_none" in a for a in pos)
        if internal and nodef:
            others = [a for a in pos if "Linkage::Internal" not in a and "Cursor::definition" not in a and not a.startswith("letelse:")]
            found = (r, others)
    ok = found is not None and not found[1]
    rep.check(ok, "undefined-internal-function-skipped", "`Err(Continue)` under internal linkage && no definition, unconditionally" if ok else
              ("the exit for undefined internal functions is additionally conditioned on `%s`" % found[1][0][:80]) if found else
              "no early exit for a function with internal linkage and no definition: it is bound (and wrapped) although nothing defines it",
              b.loc(found[0]) if found else b.loc(b.root))


@RULES.rule("R16.16", "the suffix of the wrapper symbols is the configured one, unless none was configured", floor=1)
def r16_16(rep):
    """Binding and wrapper both take the suffix from `BindgenContext::wrap_static_fns_suffix` (R16.2), so they always agree with each
    other — but the C side is also compiled and linked by the user, who was told which suffix to expect.  The accessor returns the
    option when it is set and the default otherwise; "hardening" it (`filter(is_valid_identifier)`: a suffix such as `2c` starts with a
    digit and is silently replaced by `__extern`) makes the wrappers carry a suffix nobody asked for (seeded change)."""
    prog = rep.prog
    b = rep.need(prog.fn("ir::context::BindgenContext::wrap_static_fns_suffix"), "BindgenContext::wrap_static_fns_suffix")
    tail = strip(b.root.get("tail") or b.root)
    names = [x.get("name") for x in b.walk(tail) if x["k"] == "MCall"]
    reads = any(x["k"] == "Field" and x.get("f") == "wrap_static_fns_suffix" for x in b.walk(tail))
    allowed = {"unwrap_or", "as_deref", "as_ref", "map", "unwrap_or_else", "as_str", "map_or", "unwrap_or_default", "options"}
    extra = [n_ for n_ in names if n_ not in allowed]
    conds = [x for x in b.walk() if x["k"] in ("If", "Match")]
    ok = reads and not extra and not conds
    rep.check(ok, "suffix-is-the-option", "`options.wrap_static_fns_suffix` or the default" if ok else
              "the configured suffix goes through `%s` before it is used: some values the user configured are replaced silently"
              % (", ".join(extra) or "a condition"), b.loc(tail))
