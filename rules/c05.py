"""C05 — constants carry the C compiler's value in a type that can hold it.

Decided: the integer kind chosen for every macro value contains that value (interval analysis of the comparison
tree, all option combinations), the value is carried unchanged from evaluation to the literal, signed/unsigned
values are read and printed with the accessor/printer of their own signedness.
"""
import re

from engine import RuleSet
from hir import strip, pat_variants
import intervals
import qq

RULES = RuleSet("C05", "§3 C02/C04/C05 (R5.x)",
                not_decided=["the value cexpr / clang compute for a macro body or a const initialiser (run-time evaluation)",
                             "macros whose value does not fit an i64 (wrapping is inherited from cexpr's Wrapping<i64>)"])

INTKIND = "ir::int::IntKind::"
KIND_RANGE = {"I8": "i8", "U8": "u8", "I16": "i16", "U16": "u16", "I32": "i32", "U32": "u32", "I64": "i64", "U64": "u64",
              "I128": "i128", "U128": "u128"}
EVV = "ir::enum_ty::EnumVariantValue::"


@RULES.rule("R5.1", "the integer kind picked for a macro value can hold every value that reaches it", floor=8)
def r5_1(rep):
    prog = rep.prog
    b = rep.need(prog.fn("ir::var::default_macro_constant_type"), "ir::var::default_macro_constant_type")
    vparam = [p for p in b.params if p.get("k") == "Bind" and prog.types[p["t"]] == "i64"]
    rep.need(vparam, "the i64 value parameter")
    vid = vparam[0]["id"]
    leaves = []

    def on_leaf(it, n, st):
        n = strip(n)
        if n.get("k") != "Path" or not n["def"].startswith(INTKIND):
            leaves.append((None, None, n))
            return
        kind = n["def"][len(INTKIND):]
        val = it.eval({"k": "Local", "id": vid, "name": vparam[0]["name"], "t": vparam[0]["t"]}, st)
        leaves.append((kind, val, n))

    it = intervals.Interp(b, 64, on_leaf=on_leaf)
    it.run()
    rep.need(leaves, "leaves of the decision tree")
    seen = {}
    for kind, val, n in leaves:
        if kind is None:
            rep.bad("leaf:non-constant", "a leaf does not return a literal IntKind; cannot be decided", b.loc(n))
            continue
        ty = KIND_RANGE.get(kind)
        if ty is None:
            rep.bad("leaf:" + kind, "IntKind::%s has no fixed range" % kind, b.loc(n))
            continue
        lo, hi = intervals.INT_TYPES[ty]
        key = "leaf:%s" % kind
        ok = val[0] >= lo and val[1] <= hi
        prev = seen.get(key)
        seen[key] = (min(prev[0], val[0]), max(prev[1], val[1])) if prev else val
        if not ok:
            rep.bad(key, "values in [%s, %s] reach the leaf `IntKind::%s`, whose range is [%s, %s]: the constant would be "
                    "emitted with a type that cannot hold it" % (val[0], val[1], kind, lo, hi), b.loc(n))
    for key, val in seen.items():
        kind = key[5:]
        lo, hi = intervals.INT_TYPES[KIND_RANGE[kind]]
        if val[0] >= lo and val[1] <= hi:
            rep.ok(key, "values in [%s, %s]" % val)
    # every i64 is covered by some leaf (the tree is total) and negative values only reach signed kinds
    allv = [v for k, v, n in leaves if k]
    rep.check(min(v[0] for v in allv) <= -2 ** 63 and max(v[1] for v in allv) >= 2 ** 63 - 1, "tree-total",
              "the leaves cover the whole i64 range")
    for kind, val, n in leaves:
        if kind and kind.startswith("U"):
            rep.check(val[0] >= 0, "unsigned-nonneg:" + kind, "only non-negative values reach IntKind::%s" % kind, b.loc(n))


def mentions(b, e, depth=4):
    """callee paths called anywhere in the expression, immutable locals expanded to their initialisers (closures included)"""
    out = []
    for x in b.walk(e):
        if x["k"] in ("Call", "MCall"):
            out.append(x.get("resolved") or x.get("callee") or "")
        elif x["k"] == "Local" and depth > 0:
            init = b.local_init(x["id"])
            if init is not None:
                out.append(mentions(b, init, depth - 1))
    return " ".join(out)


@RULES.rule("R5.2", "literals are printed with the printer of their own signedness; non-finite floats keep their class", floor=10)
def r5_2(rep):
    prog = rep.prog
    b = rep.need(prog.impl_fn("codegen::CodeGenerator", "ir::var::Var", "codegen"), "<Var as CodeGenerator>::codegen")
    ints = [c for c in b.calls(lambda n: n["k"] == "Call" and (n.get("callee") or "").endswith(("ast_ty::int_expr", "ast_ty::uint_expr")))]
    rep.check(len(ints) == 2, "var-int-printers", "Var::codegen prints integers through int_expr and uint_expr (found %d calls)" % len(ints), b.loc(b.root))
    for c in ints:
        signed = c["callee"].endswith("::int_expr")
        pol = None
        for a, p, node in qq.guard_atoms(b, c):
            if "IntKind::is_signed" in mentions(b, node):
                pol = p
        rep.check(pol is signed, "var-int:%s" % ("signed" if signed else "unsigned"),
                  "%s is used exactly when the variable's integer kind %s signed" % (c["callee"].split("::")[-1], "is" if signed else "is not"), b.loc(c))
        src = b.canon(c["args"][0], 6)
        rep.check(src.endswith("~ir::var::VarType::Int.0"), "var-int-value:%s" % ("signed" if signed else "unsigned"),
                  "the printed value is the VarType::Int payload itself (found %s)" % src[-80:], b.loc(c))
    # the two printers
    for name, lit in (("int_expr", "i64_unsuffixed"), ("uint_expr", "u64_unsuffixed")):
        f = rep.need(prog.fn("codegen::helpers::ast_ty::" + name), "ast_ty::" + name)
        cs = [c for c in f.calls() if (c.get("callee") or "").startswith("proc_macro2::Literal::")]
        a0 = strip(cs[0]["args"][0]) if len(cs) == 1 else {}
        d0 = f.local_def.get(a0.get("id")) if a0.get("k") == "Local" else None
        rep.check(len(cs) == 1 and cs[0]["callee"].endswith(lit) and bool(d0) and d0[0][0] == "param" and not d0[1], "printer:" + name,
                  "%s prints its parameter with Literal::%s (found %s)" % (name, lit, [c["callee"] for c in cs]), f.loc(f.root))
    fe = rep.need(prog.fn("codegen::helpers::ast_ty::float_expr"), "ast_ty::float_expr")
    for q in qq.quote_sites(fe):
        t = q.tokens
        atoms = qq.guard_atoms(fe, q.root)
        if "NAN" in t:
            rep.check(qq.has_atom(atoms, "is_nan", True), "float:nan", "NAN is printed for NaN", q.loc())
        elif "INFINITY" in t:
            rep.check(qq.has_atom(atoms, "is_infinite", True) and qq.has_atom(atoms, "is_sign_positive", True), "float:+inf",
                      "INFINITY is printed for +inf", q.loc())
        elif "NEG_INFINITY" in t:
            rep.check(qq.has_atom(atoms, "is_infinite", True) and qq.has_atom(atoms, "is_sign_positive", False), "float:-inf",
                      "NEG_INFINITY is printed for -inf", q.loc())
        elif "#val" in t:
            rep.check(qq.has_atom(atoms, "is_finite", True), "float:finite", "finite values are printed as literals", q.loc())
    # the finite literal is the value itself, sign included: IEEE has a negative zero, `f < 0.0` does not see it
    lits = [c for c in fe.calls() if (c.get("callee") or "").startswith("proc_macro2::Literal::f")]
    rep.check(bool(lits), "float:literal-site", "float_expr prints finite values through proc_macro2::Literal::f64_*", fe.loc(fe.root))
    for c in lits:
        a = strip(c["args"][0])
        d = fe.local_def.get(a.get("id")) if a.get("k") == "Local" else None
        ident = bool(d) and d[0][0] == "param" and not d[1]
        if ident:
            rep.ok("float:finite-value-whole", "the literal is made from the parameter itself (sign bit included)", fe.loc(c))
            continue
        mag = a.get("k") == "MCall" and a.get("name") == "abs" and strip(a["recv"]).get("k") == "Local" and \
            (fe.local_def.get(strip(a["recv"])["id"]) or ((None,),))[0][0] == "param"
        signs = [x for x in fe.calls() if x["k"] == "MCall" and x.get("name") in ("is_sign_negative", "is_sign_positive", "signum", "copysign")]
        cmps = [x for x in fe.nodes if x["k"] == "Binary" and x["op"] in ("<", ">", "<=", ">=") and
                any(y.get("k") == "Lit" and y.get("v") in (0, 0.0, "0.0", "0") for y in (strip(x["l"]), strip(x["r"])))]
        rep.check(mag and bool(signs) and not cmps, "float:finite-value-whole",
                  "magnitude and sign bit are printed separately" if mag and signs and not cmps else
                  "the literal is made from `%s` and the sign from %s: -0.0 is printed as 0.0" %
                  (fe.canon(a, 3)[:60], "a comparison with zero" if cmps else "nothing"), fe.loc(c))
    # enumerators
    eb = [x for x in prog.bodies.values() if any(n["k"] == "Match" and any(EVV + "Signed" in pat_variants(a["pat"]) for a in n["arms"]) for n in x.walk())
          and x.path.startswith("codegen::")]
    rep.need(eb, "the match over EnumVariantValue in codegen")
    n_arms = 0
    for x in eb:
        for n in x.walk():
            if n["k"] != "Match":
                continue
            for a in n["arms"]:
                vs = pat_variants(a["pat"])
                body = strip(a["body"])
                callee = (body.get("callee") or "")
                if EVV + "Signed" in vs:
                    n_arms += 1
                    rep.check(callee.endswith("ast_ty::int_expr") and x.canon(body["args"][0], 4).endswith("Signed.0"), "enum-value:signed",
                              "signed enumerators are printed with int_expr of their own value", x.loc(body))
                if EVV + "Unsigned" in vs:
                    n_arms += 1
                    rep.check(callee.endswith("ast_ty::uint_expr") and x.canon(body["args"][0], 4).endswith("Unsigned.0"), "enum-value:unsigned",
                              "unsigned enumerators are printed with uint_expr of their own value", x.loc(body))
    rep.check(n_arms >= 2, "enum-value-arms", "%d enumerator printing arms" % n_arms)


@RULES.rule("R5.3", "evaluated values are stored unchanged, with the kind computed from the same value", floor=7)
def r5_3(rep):
    prog = rep.prog
    b = rep.need(prog.impl_fn("parse::ClangSubItemParser", "ir::var::Var", "parse"), "<Var as ClangSubItemParser>::parse")
    EV = "cexpr::expr::EvalResult::"
    VT = "ir::var::VarType::"
    ms = [n for n in b.walk() if n["k"] == "Match" and any(any(v.startswith(EV) for v in pat_variants(a["pat"])) for a in n["arms"])]
    rep.need(ms, "match over cexpr EvalResult in Var::parse")
    m = ms[0]
    for a in m["arms"]:
        vs = {v[len(EV):] for v in pat_variants(a["pat"]) if v.startswith(EV)}
        ctors = [c for c in b.calls(lambda n: n["k"] == "Call" and (n.get("ctor") or "").startswith(VT), a["body"])]
        for v in vs:
            if v == "Invalid":
                rep.check(any(x["k"] == "Ret" for x in b.walk(a["body"])), "macro:invalid-skipped", "an unevaluable macro is skipped, not emitted", b.loc(a["body"]))
                continue
            want = {"Int": "Int", "Float": "Float", "Str": "String", "Char": "Char"}.get(v)
            got = [c for c in ctors if c["ctor"] == VT + (want or "?")]
            if not rep.check(len(got) == 1, "macro:%s-stored" % v, "an EvalResult::%s becomes exactly one VarType::%s" % (v, want), b.loc(a["body"])):
                continue
            src = b.canon(got[0]["args"][0], 8)
            if v in ("Int", "Float", "Str"):
                rep.check(re.search(r"~cexpr::expr::EvalResult::%s\.0(~std::num::Wrapping\.0)?$" % v, src) is not None, "macro:%s-value-unchanged" % v,
                          "the stored value is the evaluated value itself (found %s)" % src[-90:], b.loc(got[0]))
            if v == "Int":
                dm = [c for c in b.calls(lambda n: n["k"] == "Call" and (n.get("callee") or "").endswith("default_macro_constant_type"), a["body"])]
                rep.check(len(dm) == 1 and b.canon(dm[0]["args"][1], 8) == src, "macro:Int-kind-of-same-value",
                          "the integer kind is computed from the very value that is stored", b.loc(a["body"]))
                cb = [c for c in b.calls(lambda n: n["k"] == "MCall" and n["name"] == "int_macro", a["body"])]
                rep.check(len(cb) == 1 and b.canon(cb[0]["args"][1], 8) == src, "macro:Int-callback-same-value",
                          "the int_macro callback is asked about the same value", b.loc(a["body"]))
    # const variables: Bool iff the kind is Bool, otherwise the evaluated integer unchanged
    bools = [c for c in b.calls(lambda n: n["k"] == "Call" and n.get("ctor") == VT + "Bool")]
    for c in bools:
        atoms = [b.canon(g, 6) for p, k, g in b.guards(c) if k == "cond" and p]
        rep.check(any("IntKind::Bool" in a and "==" in a for a in atoms), "const:bool-iff-bool-kind", "VarType::Bool only for variables of kind Bool", b.loc(c))
        rep.check(re.search(r"!= lit:0\)$", b.canon(c["args"][0], 4)) is not None, "const:bool-value", "the bool is `value != 0`", b.loc(c))


@RULES.rule("R5.4", "enumerator values are read with the accessor of the underlying type's signedness", floor=6)
def r5_4(rep):
    prog = rep.prog
    b = rep.need(prog.fn("ir::enum_ty::Enum::from_ty"), "Enum::from_ty")
    table = {"Signed": "enum_val_signed", "Unsigned": "enum_val_unsigned", "Boolean": "enum_val_boolean"}
    found = 0
    for n in b.walk():
        if n["k"] == "MCall" and n["name"] == "map" and n["args"]:
            a = strip(n["args"][0])
            if a.get("k") == "Path" and a["def"].startswith(EVV):
                variant = a["def"][len(EVV):]
                src = strip(n["recv"])
                found += 1
                rep.check(src.get("k") == "MCall" and src["name"] == table.get(variant), "enum-read:" + variant,
                          "EnumVariantValue::%s is built from Cursor::%s (found %s)" % (variant, table.get(variant), src.get("name")), b.loc(n))
                conds = [(p, mentions(b, node)) for a, p, node in qq.guard_atoms(b, n)]
                if variant == "Signed":
                    rep.check(any(p and "IntKind::is_signed" in c for p, c in conds), "enum-read-guard:Signed",
                              "the signed accessor is used when the underlying integer kind is signed", b.loc(n))
                if variant == "Unsigned":
                    rep.check(any((not p) and "IntKind::is_signed" in c for p, c in conds), "enum-read-guard:Unsigned",
                              "the unsigned accessor is used when the underlying integer kind is not signed", b.loc(n))
    rep.check(found == 3, "enum-read-sites", "%d accessor sites" % found, b.loc(b.root))
    # clang accessors call the libclang function of the same signedness
    for meth, ffi in (("enum_val_signed", "clang_getEnumConstantDeclValue"), ("enum_val_unsigned", "clang_getEnumConstantDeclUnsignedValue")):
        f = rep.need(prog.fn("clang::Cursor::" + meth), "Cursor::" + meth)
        calls = [c.get("callee", "").split("::")[-1] for c in f.calls() if "clang_get" in (c.get("callee") or "")]
        rep.check(calls == [ffi], "clang:" + meth, "Cursor::%s calls %s (found %s)" % (meth, ffi, calls), f.loc(f.root))


NARROW = {"i8", "u8", "i16", "u16", "i32", "u32", "f32"}


def narrow_nodes(b, e, depth=4, seen=None):
    """sub-expressions on the value's dataflow whose type is narrower than 64 bits (immutable locals expanded)"""
    out = []
    seen = seen if seen is not None else set()
    for x in b.walk(e):
        t = b.ty(x)
        if x["k"] in ("Call", "MCall", "Cast", "Local", "Binary", "Unary") and t in NARROW:
            out.append((x, t))
        if x["k"] == "Local" and depth > 0 and x["id"] not in seen:
            seen.add(x["id"])
            init = b.local_init(x["id"])
            if init is not None:
                out += narrow_nodes(b, init, depth - 1, seen)
    return out


@RULES.rule("R5.5", "values evaluated by libclang reach bindgen at full width (no pass through a 32-bit type)", floor=6)
def r5_5(rep):
    """`clang_EvalResult_getAsInt` returns a C int: routing a `long long` constant through it keeps the right Rust type
    but silently truncates the value (`1L<<40` becomes 0)."""
    prog = rep.prog
    want = {"clang::EvalResult::as_int": ({"clang_EvalResult_getAsLongLong", "clang_EvalResult_getAsUnsigned"}, "i64"),
            "clang::EvalResult::as_double": ({"clang_EvalResult_getAsDouble"}, "f64"),
            "clang::Cursor::enum_val_signed": ({"clang_getEnumConstantDeclValue"}, "i64"),
            "clang::Cursor::enum_val_unsigned": ({"clang_getEnumConstantDeclUnsignedValue"}, "u64")}
    for path, (ffi, ty) in want.items():
        b = rep.need(prog.fn(path), path)
        short = path.split("::")[-1]
        got = {(c.get("callee") or "").split("::")[-1] for c in b.calls() if "clang_" in (c.get("callee") or "") and
               ("getAs" in (c.get("callee") or "") or "getEnumConstant" in (c.get("callee") or ""))}
        rep.check(got == ffi, "ffi:" + short, "%s reads the value with %s (found %s)" % (short, sorted(ffi), sorted(got)), b.loc(b.root))
        somes = [c for c in b.calls(lambda n: n["k"] == "Call" and (n.get("ctor") or "").endswith("Some"))]
        rep.check(bool(somes), "returns:" + short, "%d value-returning sites" % len(somes), b.loc(b.root))
        for c in somes:
            bad = narrow_nodes(b, c["args"][0])
            rep.check(not bad, "full-width:" + short, "the returned %s never passes through a narrower type%s" %
                      (ty, (" (found %s: %s)" % (bad[0][1], b.canon(bad[0][0], 3)[:60])) if bad else ""), b.loc(c))


    # the carrier of macro values: cexpr hands integers over as EvalResult::Int(Wrapping<i64>); C integer constants range over
    # [-2^63, 2^64), and an expression of unsigned type (`~0u`) has an unsigned value
    vp = rep.need(prog.impl_fn("parse::ClangSubItemParser", "ir::var::Var", "parse"), "<Var as ClangSubItemParser>::parse")
    carriers = set()
    for m in vp.walk():
        if m["k"] != "Match":
            continue
        for a in m["arms"]:
            if any(v == "cexpr::expr::EvalResult::Int" for v in pat_variants(a["pat"])):
                def binds(p_):
                    if p_.get("k") == "Bind":
                        t = prog.types[p_["t"]] if p_.get("t") is not None else None
                        if t:
                            carriers.add(t.replace("&", ""))
                    for q in p_.get("ps", []):
                        binds(q)
                    if isinstance(p_.get("p"), dict):
                        binds(p_["p"])
                    for f_ in p_.get("fs", []):
                        binds(f_["p"])
                    if isinstance(p_.get("sub"), dict):
                        binds(p_["sub"])
                binds(a["pat"])
    rep.need(carriers, "the binding of cexpr's EvalResult::Int payload in Var::parse")
    wide = {"i128", "std::num::Wrapping<i128>"}
    rep.check(carriers <= wide, "macro-int-carrier:holds-u64-and-sign",
              "macro integers arrive as %s" % sorted(carriers) if carriers <= wide else
              "macro integers arrive as %s: a constant in [2^63, 2^64) or of unsigned type has already wrapped to a negative number before "
              "bindgen chooses its type" % sorted(carriers), vp.loc(vp.root))


class _FilteredReport:
    """Report proxy for rules shared from another property: instances recorded as known findings of THAT property are its
    business (they are printed by its own check) and are not re-reported here."""

    def __init__(self, rep, other_prop):
        import engine
        self._rep = rep
        self._skip = {k[2] for k in engine.load_known() if k[0] == other_prop}

    def __getattr__(self, name):
        return getattr(self._rep, name)

    def bad(self, key, detail, loc=""):
        if key in self._skip:
            self._rep.ok(key, "recorded as a known finding of the owning property", loc)
        else:
            self._rep.bad(key, detail, loc)

    def check(self, cond, key, detail="", loc=""):
        if not cond and key in self._skip:
            self._rep.ok(key, "recorded as a known finding of the owning property", loc)
            return cond
        return self._rep.check(cond, key, detail, loc)


@RULES.rule("R5.6", "integer-kind tables (signedness, size, Rust type, enum repr) agree with C (shared with C02 R2.1)", floor=200)
def r5_6(rep):
    """An enumerator is read as signed or unsigned according to `IntKind::is_signed` of the underlying type: when `U16`
    (char16_t) falls into a `_ => true` catch-all, `enum Glyph : char16_t { LAST = 0xFFFF }` is emitted as -1 with repr(i16)."""
    import c02
    c02.r2_1(_FilteredReport(rep, "C02"))


@RULES.rule("R5.7", "macros are evaluated under the same clang arguments as the headers (fallback arguments snapshot taken last)", floor=3)
def r5_7(rep):
    """`--clang-macro-fallback` re-evaluates macros in its own translation unit built from `options.fallback_clang_args`, a
    snapshot of `clang_args`.  If the snapshot is taken before the arguments from BINDGEN_EXTRA_CLANG_ARGS are appended, a macro
    whose value depends on `-DCFG_MODE=2` from the environment is emitted with the value it has without it."""
    prog = rep.prog
    OPT = "options::BindgenOptions"
    b = rep.need(prog.fn("Builder::generate"), "Builder::generate")
    snaps = [n for n in b.walk() if n["k"] == "Assign" and strip(n["l"]).get("k") == "Field" and strip(n["l"]).get("adt") == OPT and strip(n["l"])["f"] == "fallback_clang_args"]
    if not rep.check(len(snaps) == 1, "fallback-snapshot-site", "one assignment of options.fallback_clang_args (found %d)" % len(snaps), b.loc(b.root)):
        return
    s = snaps[0]
    src = b.canon(s["r"], 10)
    rep.check("BindgenOptions::clang_args" in src, "fallback-snapshot-source", "the snapshot is taken from options.clang_args (%s)" % src[:100], b.loc(s))
    exts = [c for c in b.calls(lambda n: n["k"] == "MCall" and n["name"] in ("extend", "push", "extend_from_slice", "append", "insert"))
            if strip(c["recv"]).get("k") == "Field" and strip(c["recv"]).get("adt") == OPT and strip(c["recv"])["f"] == "clang_args"]
    env_ext = [c for c in exts if "get_extra_clang_args" in b.canon(c["args"][0], 8)]
    rep.check(len(env_ext) == 1, "env-args-appended", "the arguments from the environment are appended to clang_args once", b.loc(b.root))
    for c in env_ext:
        rep.check(c["_i"] < s["_i"] and not b.guards(c), "fallback-snapshot-after-env-args",
                  "the fallback snapshot is taken after the environment's extra clang arguments were appended", b.loc(s))
    # arguments that are deliberately NOT part of the snapshot: the `-include <other headers>` added afterwards
    later = [c for c in exts if c["_i"] > s["_i"]]
    rep.note("clang_args-extensions-after-snapshot", [b.canon(c["args"][0], 4)[:80] for c in later])


@RULES.rule("R5.8", "the clang fallback evaluates a macro as a full expression of its own type", floor=2)
def r5_8(rep):
    """`--clang-macro-fallback` lets clang evaluate a macro by parsing a scratch function whose body is the macro.  The macro has to be
    a full-expression statement (`int main() { MACRO; }`): put into a context with a type of its own (`return MACRO;` from
    `int main`, an initialiser, an argument) clang wraps it in an implicit conversion and evaluates the CONVERTED value:
    `(U64C(1) << 40)` becomes 0, `U64C(5)*1024*1024*1024` becomes 1073741824, a floating macro becomes an integer."""
    prog = rep.prog
    b = rep.need(prog.fn("ir::var::parse_macro_clang_fallback"), "ir::var::parse_macro_clang_fallback")
    from c17 import format_template
    tpls = []
    seen_sites = set()
    for n in b.nodes:
        if (b.macro_name(n) or "") != "format":
            continue
        site = b.macro_site(n)
        if site in seen_sites:
            continue
        seen_sites.add(site)
        tpl = format_template(prog, site)
        if tpl is None:
            continue
        pieces, holes = tpl
        text = "{}".join(pieces)
        if "main" in text:
            tpls.append((n, text))
    rep.need(tpls, "the scratch translation unit text in parse_macro_clang_fallback")
    for x, t in tpls:
        i = t.find("{}")
        before = t[:i].rstrip()
        after = t[i + 2:].lstrip()
        stmt = i >= 0 and before.endswith(("{", ";")) and after.startswith(";")
        rep.check(stmt, "fallback-macro-is-a-statement", "`%s`: the macro stands alone as an expression statement" % t if stmt else
                  "`%s`: the macro is placed in a typed context (`.. %s`), clang evaluates it after converting it to that type" %
                  (t, before[-12:].strip()), b.loc(x))
    # the evaluated cursor is reached by descending through first children only (no re-typing on the way is decided by the text above)
    ev = [c for c in b.calls(lambda n: n["k"] == "MCall" and n.get("name") == "evaluate")]
    rep.check(bool(ev), "fallback-evaluates-the-expression", "the expression cursor is handed to clang's evaluator", b.loc(b.root))


@RULES.rule("R5.9", "a function-like macro never reaches the constant evaluator, whether or not callbacks are registered", floor=1)
def r5_9(rep):
    """Only object-like macros have a value.  `Var::parse` leaves function-like ones to `ParseCallbacks::func_macro` and returns — but
    that exit sits inside the loop over the registered callbacks, so with no callback at all (the plain CLI) `#define F(x) -x` is
    handed to the expression evaluator, which reads it as the object-like `F` = `(x) - x`: with `#define x 2` in scope bindgen emits
    `pub const F: u32 = 0;`."""
    prog = rep.prog
    b = rep.need(prog.impl_fn("parse::ClangSubItemParser", "ir::var::Var", "parse"), "<Var as ClangSubItemParser>::parse")
    exits = []
    for r in b.nodes:
        if r["k"] != "Ret":
            continue
        if any(kind == "cond" and pol and "is_macro_function_like" in b.canon(g, 4) for pol, kind, g in b.guards(r)):
            exits.append(r)
    rep.need(exits, "the `if cursor.is_macro_function_like() { .. return }` exit in Var::parse")
    for r in exits:
        loops = [a for a in b.ancestors(r) if a["k"] == "For" and "parse_callbacks" in b.canon(a["iter"], 5)]
        rep.check(not loops, "function-like-exit-unconditional", "the exit does not depend on a callback being registered" if not loops else
                  "the exit is inside `for callbacks in parse_callbacks`: without any callback a function-like macro is evaluated as if it were "
                  "object-like", b.loc(r))
    evals = [c for c in b.calls(lambda n: n["k"] == "Call" and str(n.get("callee") or "").endswith("var::parse_macro"))]
    rep.check(bool(evals) and all(c["_i"] > max(r["_i"] for r in exits) for c in evals), "evaluator-after-exit",
              "parse_macro runs after the function-like exit", b.loc(evals[0]) if evals else b.loc(b.root))


@RULES.rule("R5.10", "a variable only gets an evaluated value when libclang's evaluator and the emitted type can carry it", floor=3)
def r5_10(rep):
    """libclang hands integer results over as `long long` / `unsigned long long` and floating results as `double`.  A 128-bit
    integer constant is truncated on the way (`const unsigned __int128 big = (unsigned __int128)1 << 100;` became `pub const big:
    u128 = 0;`), and a `long double` constant is emitted with bindgen's `u128` stand-in for the type and a float literal for the
    value (`pub const ld: u128 = 1.5;`, which does not compile).  For those kinds `Var::parse` must not evaluate at all (the variable
    is then declared as an `extern` static)."""
    from hir import pat_str as _ps
    prog = rep.prog
    b = rep.need(prog.impl_fn("parse::ClangSubItemParser", "ir::var::Var", "parse"), "<Var as ClangSubItemParser>::parse")
    ints = [c for c in b.calls(lambda n: n["k"] == "MCall" and (n.get("callee") or n.get("resolved") or "").endswith("clang::EvalResult::as_int"))]
    # bindgen's own literal parser is a 64-bit carrier as well
    ints += [c for c in b.calls(lambda n: n["k"] == "Call" and (n.get("callee") or "").endswith("var::get_integer_literal_from_cursor"))]
    flts = [c for c in b.calls(lambda n: n["k"] == "MCall" and (n.get("callee") or n.get("resolved") or "").endswith("clang::EvalResult::as_double"))]
    rep.need(ints and flts, "the as_int / as_double evaluations of variable initialisers in Var::parse")

    def excluded(c, wide, narrow):
        """True when the guards of c show the wide kinds cannot reach it: an enclosing match whose arm for c names none of the wide
        kinds (and, when it is the catch-all, some other arm names all of them), or a condition that tests the kind."""
        for pol, kind, g in b.guards(c, nested=True):
            if kind == "arm":
                m_, idx = g
                pats = [_ps(a["pat"]) for a in m_["arms"]]
                if not any(w in p_ for p_ in pats for w in wide + narrow):
                    continue
                mine = pats[idx]
                others = " ".join(p_ for k_, p_ in enumerate(pats) if k_ != idx)
                if any(w in mine for w in wide):
                    return False
                if any(n in mine for n in narrow) and mine.strip() != "_":
                    return True
                return all(w in others for w in wide)
            if kind == "cond":
                srcs = [b.canon(g, 8)]
                for x in b.walk(g):
                    if x["k"] == "Local" and b.local_init(x["id"]) is not None:
                        srcs.append(b.canon(b.local_init(x["id"]), 8))
                if any(w in s_ for s_ in srcs for w in wide + narrow):
                    return True
        return False
    for c in ints:
        ok = excluded(c, ["IntKind::I128", "IntKind::U128"], [])
        rep.check(ok, "wide-int-not-evaluated", "128-bit integer kinds are excluded before the 64-bit evaluator is asked" if ok else
                  "`as_int()` is asked for every integer kind: a 128-bit constant is truncated to 64 bits", b.loc(c))
    for c in flts:
        ok = excluded(c, ["FloatKind::LongDouble", "FloatKind::Float128", "FloatKind::Float16"], ["FloatKind::Float|", "FloatKind::Float)", "FloatKind::Double"])
        rep.check(ok, "wide-float-not-evaluated", "only float / double constants are evaluated" if ok else
                  "`as_double()` is asked for every floating kind: a `long double` constant gets an f64 literal while its type is emitted as a "
                  "16-byte integer blob", b.loc(c))



NARROW_CHAR_KINDS = {"CXType_Char_S", "CXType_SChar", "CXType_Char_U", "CXType_UChar"}


@RULES.rule("R5.11", "a string constant is taken from libclang only for the one-byte character kinds, named one by one", floor=1)
def r5_11(rep):
    """`clang_EvalResult_getAsStr` returns the bytes of the literal up to the first NUL.  That is the string for `char` kinds; for
    `L"hi"` it is `h` (the next byte of the first code unit is 0).  In a C translation unit `wchar_t`, `char16_t`, `char32_t` are
    typedefs of plain integer types, so they cannot be recognised and excluded by kind: the arm that reads the bytes has to list the
    narrow kinds (a catch-all there emitted `pub const WIDE: &[u8; 2] = b"h\\0";` for `L"hi"` in a seeded change)."""
    from hir import pat_variants as _pv
    prog = rep.prog
    b = rep.need(prog.fn("clang::EvalResult::as_literal_string"), "clang::EvalResult::as_literal_string")
    gets = [c for c in b.calls(lambda n: n["k"] == "Call" and (n.get("callee") or "").endswith("clang_EvalResult_getAsStr"))]
    rep.need(gets, "clang_EvalResult_getAsStr in as_literal_string")
    for c in gets:
        arms = [(g[0], g[1]) for pol, kind, g in b.guards(c) if kind == "arm"]
        ok = False
        why = "not inside a match over the character kind"
        for m, i in arms:
            vs = {v.split("::")[-1] for v in _pv(m["arms"][i]["pat"])}
            if vs and vs <= NARROW_CHAR_KINDS:
                ok = True
                why = "read for %s only" % ", ".join(sorted(vs))
            elif vs:
                why = "read for %s" % ", ".join(sorted(vs))
        rep.check(ok, "narrow-kinds-listed", why if ok else
                  "the literal's bytes are %s: a wide literal in C (where wchar_t / char16_t / char32_t are typedefs of int types) is cut at "
                  "its first zero byte and emitted as a byte string" % why, b.loc(c))


VALUE_PRESERVING_WRAPPERS = {"CXCursor_UnexposedExpr", "CXCursor_ParenExpr"}


@RULES.rule("R5.12", "the literal fallback only looks through wrappers that cannot change the value", floor=1)
def r5_12(rep):
    """`get_integer_literal_from_cursor` is used when libclang's evaluator gives nothing.  It may descend through the expression
    nodes libclang leaves unexposed and through parentheses; an explicit cast converts (`(unsigned char)300` is 44,
    `(unsigned)-1` is 4294967295), so descending through one hands the operand's value to the constant (seeded change)."""
    from hir import pat_variants as _pv
    prog = rep.prog
    b = rep.need(prog.fn("ir::var::get_integer_literal_from_cursor"), "ir::var::get_integer_literal_from_cursor")
    rec = [c for c in b.calls(lambda n: n["k"] == "Call" and (n.get("callee") or "").endswith("var::get_integer_literal_from_cursor"))]
    rep.need(rec, "the recursive call of get_integer_literal_from_cursor")
    for c in rec:
        kinds = None
        for pol, kind, g in b.guards(c):
            if kind == "arm":
                vs = {v.split("::")[-1] for v in _pv(g[0]["arms"][g[1]]["pat"])}
                if any(v.startswith("CXCursor_") or v == "_" for v in vs):
                    kinds = vs
        ok = kinds is not None and kinds <= VALUE_PRESERVING_WRAPPERS
        rep.check(ok, "descends-through-wrappers-only", "descends through %s" % ", ".join(sorted(kinds or [])) if ok else
                  "the fallback descends through %s: a cast changes the value, the literal below it is not the constant's value"
                  % ", ".join(sorted(kinds or ["an unconditional call"])), b.loc(c))


@RULES.rule("R5.13", "cexpr's value for a macro is taken only when it parsed the whole replacement list", floor=1)
def r5_13(rep):
    """cexpr does not know `?:`, comparisons, `&&`, `||`.  `IdentifierParser::macro_definition` fails unless every token was consumed
    (the macro is then left to the clang fallback or omitted); `IdentifierParser::expr` returns the value of the prefix it understood
    together with the remaining tokens.  Using the latter and dropping the remainder emits `#define SELECT 1 ? BASE : 30` as 1 and
    `#define AT_LEAST 5 >= 3` as 5 (seeded change).  In `parse_macro` the parser entry is `macro_definition`, or the remainder of any
    other entry is checked for emptiness."""
    prog = rep.prog
    b = rep.need(prog.fn("ir::var::parse_macro"), "ir::var::parse_macro")
    calls = [c for c in b.calls(lambda x: x["k"] == "MCall" and "cexpr::expr::IdentifierParser" in (x.get("callee") or x.get("resolved") or ""))]
    calls = [c for c in calls if c["name"] not in ("new",)]
    rep.need(calls, "the cexpr parser call in parse_macro")
    for c in calls:
        if c["name"] == "macro_definition":
            rep.ok("whole-macro-parsed", "`macro_definition` (asserts a full parse)", b.loc(c))
            continue
        # another entry: is the remainder looked at?
        src = " ".join((y.get("name") or "") for y in b.walk() if y["k"] == "MCall")
        checked = "is_empty" in src or "assert_full_parse" in " ".join((y.get("callee") or "") for y in b.walk() if y["k"] == "Call")
        rep.check(checked, "whole-macro-parsed", "`%s`, remainder checked" % c["name"] if checked else
                  "`IdentifierParser::%s` returns the value of whatever prefix it could parse; the remaining tokens are not checked, so a macro "
                  "with an operator cexpr does not know is emitted with the value of its prefix" % c["name"], b.loc(c))
