"""C08 — traits are derived exactly when the rules allow; hand-written impls act like derives.

Structure of the module
  * `Interp`            a small evaluator of pure bodies of the type-checked HIR (match / if / matches! /
                        ==, &&, constants, calls into other crate bodies).  It turns every `DeriveTrait::can_derive_*`
                        predicate into a truth table, whatever its syntactic shape (if <-> match, reordered arms,
                        extracted helpers), so the tables can be compared with `oracle/derive_rules.json`.
  * `conditional_results` / `check_guarded_unwraps`
                        the generic "a result that is computed only under condition C is only unwrapped under a
                        guard that implies C" check (R8.3; written for re-use by C12 R12.1).
  * rules R8.1 .. R8.7.
"""
import itertools
import json
import os
import re

from engine import RuleSet
from hir import strip, pat_variants
import qq

RULES = RuleSet("C08", "§3 C08",
                assumptions=["oracle/derive_rules.json states what the Rust language/library and the property statement allow; "
                             "it is knowledge about Rust, not about bindgen"],
                not_decided=["run-time behaviour of the hand-written impls on concrete values (needs execution)",
                             "that the fix-point driver reaches the least fixed point of the extracted rules (decided under C07)",
                             "trait support of user-blocklisted types (answered by the user's callback)"])

HERE = os.path.dirname(os.path.abspath(__file__))
with open(os.path.join(HERE, "oracle", "derive_rules.json")) as _fh:
    ORACLE = json.load(_fh)

DT = "ir::analysis::derive::DeriveTrait"
CD = "ir::derive::CanDerive"
TK = "ir::ty::TypeKind"
EK = "ir::traversal::EdgeKind"
CTX = "ir::context::BindgenContext"
OPTS = "options::BindgenOptions"
TRAITS = ORACLE["traits"]
LOG_MACROS = {"trace", "debug", "info", "warn", "error", "log::trace", "log::debug", "log::info", "log::warn", "log::error"}
ASSERT_MACROS = {"assert", "debug_assert", "assert_eq", "assert_ne", "debug_assert_eq", "debug_assert_ne", "extra_assert",
                 "extra_assert_eq"}
PANIC_CALLEES = ("::panic_fmt", "::panicking::panic", "::panicking::assert_failed", "::panic_display", "::unreachable_display",
                 "::panicking::panic_explicit")


# =====================================================================================================
#  Interp: evaluation of pure HIR bodies
# =====================================================================================================
class Undecidable(Exception):
    """The evaluator met a construct whose value decides the result but is not known."""


class Panics(Exception):
    """Evaluation reached panic!/unreachable!."""


class _Return(Exception):
    def __init__(self, v):
        self.v = v


UNK = ("unk",)


def V(path, args=None):
    """an enum variant value; args = tuple of payload values or None when the payload is unknown/irrelevant"""
    return ("v", path, args)


def is_v(x):
    return isinstance(x, tuple) and len(x) == 3 and x[0] == "v"


def vname(x):
    """printable form of an evaluation result"""
    if is_v(x):
        s = x[1].split("::")[-1]
        if x[2]:
            s += "(%s)" % ",".join(vname(a) for a in x[2])
        return s
    if x is UNK:
        return "?"
    if isinstance(x, tuple) and x and x[0] == "tup":
        return "(%s)" % ",".join(vname(a) for a in x[1])
    return str(x)


class Interp:
    """Evaluates expression trees of `hir.Body`.

    hook(body, node, env, interp) -> value | NotImplemented   lets the caller supply symbolic inputs
    state: dict (adt, field) -> value for tracked field assignments (`self.options.x = ..`)."""

    MAX_DEPTH = 8

    def __init__(self, prog, hook=None, state=None):
        self.prog = prog
        self.hook = hook
        self.state = state if state is not None else {}
        self.depth = 0
        self._variant_index = {}

    # ---- entry points -----------------------------------------------------------------------------
    def call(self, body, args):
        """value of calling `body` with positional argument values (panics -> Panics)."""
        if self.depth >= self.MAX_DEPTH:
            return UNK
        env = {}
        for p, a in zip(body.params, list(args) + [UNK] * len(body.params)):
            self.pmatch(body, p, a, env)
        self.depth += 1
        try:
            return self.ev(body, body.root, env)
        except _Return as r:
            return r.v
        finally:
            self.depth -= 1

    def call_closure(self, clo, args):
        _, body, node, env = clo
        env = dict(env)
        for p, a in zip(node["params"], list(args) + [UNK] * len(node["params"])):
            self.pmatch(body, p, a, env)
        self.depth += 1
        try:
            return self.ev(body, node["body"], env)
        except _Return as r:
            return r.v
        finally:
            self.depth -= 1

    # ---- helpers ----------------------------------------------------------------------------------
    def variant_rank(self, path):
        adt = path.rsplit("::", 1)[0]
        if adt not in self._variant_index:
            a = self.prog.adts.get(adt)
            self._variant_index[adt] = {adt + "::" + v["name"]: i for i, v in enumerate(a["variants"])} if a else {}
        return self._variant_index[adt].get(path)

    def derived_ord(self, adt):
        b = self.prog.impl_fn("std::cmp::Ord", adt, "cmp")
        return b is not None and (b.macro_name(b.root) or "").startswith("derive")

    def is_unit_variant(self, path):
        adt = path.rsplit("::", 1)[0]
        a = self.prog.adts.get(adt)
        if not a:
            return False
        for v in a["variants"]:
            if v["name"] == path.rsplit("::", 1)[1]:
                return not v["fields"]
        return False

    def has_effects(self, body, n):
        for x in body.walk(n):
            if x["k"] in ("Ret", "Assign", "AssignOp", "Break", "Continue"):
                return True
        return False

    def cmp_values(self, op, a, b):
        if a is UNK or b is UNK:
            return UNK
        if op in ("==", "!="):
            if is_v(a) and is_v(b):
                if a[1] != b[1]:
                    r = False
                elif a[2] is None or b[2] is None:
                    if not self.is_unit_variant(a[1]):
                        return UNK
                    r = True
                else:
                    r = a[2] == b[2]
            elif isinstance(a, (bool, int, str)) and isinstance(b, (bool, int, str)):
                r = a == b
            elif isinstance(a, tuple) and isinstance(b, tuple) and a[:1] == ("tup",) and b[:1] == ("tup",):
                r = a == b
            else:
                return UNK
            return r if op == "==" else not r
        # ordering
        if isinstance(a, int) and isinstance(b, int) and not isinstance(a, bool) and not isinstance(b, bool):
            x, y = a, b
        elif is_v(a) and is_v(b):
            adt = a[1].rsplit("::", 1)[0]
            if adt != b[1].rsplit("::", 1)[0] or not self.derived_ord(adt):
                return UNK
            x, y = self.variant_rank(a[1]), self.variant_rank(b[1])
            if x is None or y is None:
                return UNK
        else:
            return UNK
        return {"<": x < y, "<=": x <= y, ">": x > y, ">=": x >= y}[op]

    # ---- patterns ---------------------------------------------------------------------------------
    def irrefutable(self, p):
        k = p.get("k")
        if k in ("Wild", "Missing"):
            return True
        if k == "Bind":
            return "sub" not in p or self.irrefutable(p["sub"])
        if k in ("PRef", "PGuard"):
            return self.irrefutable(p["p"])
        if k == "PTuple":
            return all(self.irrefutable(q) for q in p["ps"])
        return False

    def pmatch(self, body, p, v, env):
        """True / False / None (unknown)"""
        k = p.get("k")
        if k in ("Wild", "Missing"):
            return True
        if k == "Bind":
            env[p["id"]] = v
            return self.pmatch(body, p["sub"], v, env) if "sub" in p else True
        if k in ("PRef", "PGuard"):
            return self.pmatch(body, p["p"], v, env)
        if k == "PTuple":
            if isinstance(v, tuple) and v[:1] == ("tup",) and len(v[1]) == len(p["ps"]):
                out = True
                for q, x in zip(p["ps"], v[1]):
                    r = self.pmatch(body, q, x, env)
                    if r is False:
                        return False
                    if r is None:
                        out = None
                return out
            return True if self.irrefutable(p) else None
        if k == "POr":
            unknown = False
            for q in p["ps"]:
                r = self.pmatch(body, q, v, env)
                if r is True:
                    return True
                if r is None:
                    unknown = True
            return None if unknown else False
        if k == "PLit":
            if v is UNK or not isinstance(v, (bool, int, str)):
                return None
            lit = p.get("v")
            if p.get("neg"):
                lit = -lit
            return v == lit
        if k == "PPath":
            if not is_v(v):
                return None
            return v[1] == p["res"].get("def")
        if k in ("PTupleStruct", "PStruct"):
            if not is_v(v):
                return None
            if v[1] != p["res"].get("def"):
                return False
            subs = p["ps"] if k == "PTupleStruct" else [f["p"] for f in p["fs"]]
            if v[2] is not None and k == "PTupleStruct" and len(v[2]) == len(subs):
                out = True
                for q, x in zip(subs, v[2]):
                    r = self.pmatch(body, q, x, env)
                    if r is False:
                        return False
                    if r is None:
                        out = None
                return out
            for q in subs:
                self.pmatch(body, q, UNK, env)
            return True if all(self.irrefutable(q) for q in subs) else None
        if k == "PRange":
            return None
        return None

    # ---- expressions ------------------------------------------------------------------------------
    def ev(self, body, n, env):
        if self.hook is not None:
            r = self.hook(body, n, env, self)
            if r is not NotImplemented:
                return r
        return getattr(self, "ev_" + n["k"], self.ev_other)(body, n, env)

    def ev_other(self, body, n, env):
        return UNK

    def ev_Block(self, body, n, env):
        for st in n.get("stmts", []):
            self.ev(body, st, env)
        if isinstance(n.get("tail"), dict):
            return self.ev(body, n["tail"], env)
        return ("tup", ())

    def ev_Let(self, body, n, env):
        v = self.ev(body, n["init"], env) if isinstance(n.get("init"), dict) else UNK
        r = self.pmatch(body, n["pat"], v, env)
        if "els" in n:
            if r is None:
                raise Undecidable("let-else on an unknown value at %s" % body.loc(n))
            if r is False:
                self.ev(body, n["els"], env)
        return ("tup", ())

    def _stmt(self, body, n, env):
        e = n["e"]
        mac = body.macro_name(e)
        if mac in LOG_MACROS:
            return ("tup", ())
        self.ev(body, e, env)
        return ("tup", ())

    ev_Semi = _stmt
    ev_ExprStmt = _stmt

    def _unknown_branch(self, body, n, what):
        mac = body.macro_name(n)
        if mac in ASSERT_MACROS or mac in LOG_MACROS:
            return UNK
        if self.has_effects(body, n):
            raise Undecidable("%s on a value the evaluator does not know, at %s" % (what, body.loc(n)))
        return UNK

    def ev_If(self, body, n, env):
        c = n["cond"]
        if c["k"] == "LetCond":
            v = self.ev(body, c["init"], env)
            r = self.pmatch(body, c["pat"], v, env)
        else:
            r = self.ev(body, c, env)
            if r is UNK:
                r = None
        if r is None:
            return self._unknown_branch(body, n, "`if`")
        if r:
            return self.ev(body, n["then"], env)
        if "else" in n:
            return self.ev(body, n["else"], env)
        return ("tup", ())

    def ev_LetCond(self, body, n, env):
        v = self.ev(body, n["init"], env)
        r = self.pmatch(body, n["pat"], v, env)
        return UNK if r is None else r

    def ev_Match(self, body, n, env):
        v = self.ev(body, n["scrut"], env)
        for a in n["arms"]:
            r = self.pmatch(body, a["pat"], v, env)
            if r is None:
                return self._unknown_branch(body, n, "`match`")
            if not r:
                continue
            if "guard" in a:
                g = self.ev(body, a["guard"], env)
                if g is UNK:
                    return self._unknown_branch(body, n, "match guard")
                if not g:
                    continue
            return self.ev(body, a["body"], env)
        raise Undecidable("no arm of the match at %s matches %s" % (body.loc(n), vname(v)))

    def ev_Unary(self, body, n, env):
        v = self.ev(body, n["e"], env)
        if n["op"] == "!":
            return UNK if not isinstance(v, bool) else (not v)
        if n["op"] == "*":
            return v
        if n["op"] == "-" and isinstance(v, int):
            return -v
        return UNK

    def ev_AddrOf(self, body, n, env):
        return self.ev(body, n["e"], env)

    ev_Cast = ev_AddrOf

    def ev_Binary(self, body, n, env):
        op = n["op"]
        if op in ("&&", "||"):
            l = self.ev(body, n["l"], env)
            if isinstance(l, bool):
                if op == "&&" and not l:
                    return False
                if op == "||" and l:
                    return True
                return self.ev(body, n["r"], env)
            try:
                r = self.ev(body, n["r"], env)
            except (Undecidable, Panics):
                return UNK
            if isinstance(r, bool) and ((op == "&&" and not r) or (op == "||" and r)):
                return r
            return UNK
        l = self.ev(body, n["l"], env)
        r = self.ev(body, n["r"], env)
        if op in ("==", "!=", "<", "<=", ">", ">="):
            return self.cmp_values(op, l, r)
        if isinstance(l, int) and isinstance(r, int) and not isinstance(l, bool):
            try:
                return {"+": l + r, "-": l - r, "*": l * r, "/": l // r if r else UNK, "%": l % r if r else UNK,
                        "<<": l << r, ">>": l >> r, "&": l & r, "|": l | r, "^": l ^ r}.get(op, UNK)
            except (ValueError, OverflowError):
                return UNK
        if op == "|" and is_v(l) and is_v(r):
            return self._op_trait(body, "std::ops::BitOr", "bitor", l, r)
        return UNK

    def _op_trait(self, body, trait, meth, l, r):
        adt = l[1].rsplit("::", 1)[0]
        b = self.prog.impl_fn(trait, adt, meth)
        if b is None:
            return UNK
        return self.call(b, [l, r])

    def ev_Path(self, body, n, env):
        dk = n.get("dk", "")
        if dk.startswith("Ctor(Variant, Const") or dk.startswith("Ctor(Struct, Const"):
            return V(n["def"], ())
        if dk.startswith("Ctor("):
            return ("ctor", n["def"])
        if dk.startswith("Const") or dk.startswith("AssocConst"):
            cb = self.prog.bodies.get(n["def"])
            if cb is not None and self.depth < self.MAX_DEPTH:
                return self.call(cb, [])
            return UNK
        if dk in ("Fn", "AssocFn"):
            return ("fn", n["def"])
        return UNK

    def ev_Lit(self, body, n, env):
        v = n.get("v")
        return v if isinstance(v, (bool, int, str)) else UNK

    def ev_Local(self, body, n, env):
        return env.get(n["id"], UNK)

    def ev_Tup(self, body, n, env):
        return ("tup", tuple(self.ev(body, e, env) for e in n["es"]))

    def ev_Field(self, body, n, env):
        key = (n.get("adt"), n["f"])
        if key in self.state:
            return self.state[key]
        b = self.ev(body, n["base"], env)
        if isinstance(b, tuple) and b[:1] == ("tup",) and n["f"].isdigit() and int(n["f"]) < len(b[1]):
            return b[1][int(n["f"])]
        return UNK

    def ev_Closure(self, body, n, env):
        return ("closure", body, n, env)

    def ev_Ret(self, body, n, env):
        raise _Return(self.ev(body, n["e"], env) if isinstance(n.get("e"), dict) else ("tup", ()))

    def ev_Assign(self, body, n, env):
        v = self.ev(body, n["r"], env)
        l = n["l"]
        if l["k"] == "Field" and (l.get("adt"), l["f"]) in self.state:
            self.state[(l.get("adt"), l["f"])] = v
            return ("tup", ())
        t = strip(l)
        if t["k"] == "Local":
            env[t["id"]] = v
        return ("tup", ())

    def ev_AssignOp(self, body, n, env):
        t = strip(n["l"])
        r = self.ev(body, n["r"], env)
        if t["k"] == "Local":
            cur = env.get(t["id"], UNK)
            if n["op"] == "|=" and is_v(cur) and is_v(r):
                adt = cur[1].rsplit("::", 1)[0]
                b = self.prog.impl_fn("std::ops::BitOr", adt, "bitor")
                env[t["id"]] = self.call(b, [cur, r]) if b is not None else UNK
            else:
                env[t["id"]] = UNK
        return ("tup", ())

    def _apply(self, body, n, callee_names, args):
        """shared by Call / MCall once the argument values are known"""
        for name in callee_names:
            if not name:
                continue
            if any(name.endswith(p) for p in PANIC_CALLEES):
                raise Panics(body.loc(n))
            last = name.rsplit("::", 1)[-1]
            if name in ("std::cmp::max", "core::cmp::max", "std::cmp::Ord::max") and len(args) == 2:
                c = self.cmp_values(">=", args[1], args[0])
                return UNK if c is UNK else (args[1] if c else args[0])
            if name in ("std::cmp::min", "core::cmp::min", "std::cmp::Ord::min") and len(args) == 2:
                c = self.cmp_values("<", args[1], args[0])
                return UNK if c is UNK else (args[1] if c else args[0])
            if name in ("std::cmp::PartialEq::eq", "std::cmp::PartialEq::ne") and len(args) == 2:
                return self.cmp_values("==" if last == "eq" else "!=", args[0], args[1])
            if name == "<bool as std::default::Default>::default":
                return False
            if last == "clone" and len(args) == 1 and (name.startswith("std::clone::") or "as std::clone::Clone>" in name):
                return args[0]
            tb = self.prog.bodies.get(name)
            if tb is not None and tb.kind in ("Fn", "AssocFn") and len(tb.params) == len(args):
                return self.call(tb, args)
        if body.ty(n) == "!":
            raise Panics(body.loc(n))
        return UNK

    def ev_Call(self, body, n, env):
        args = [self.ev(body, a, env) for a in n["args"]]
        if "ctor" in n:
            return V(n["ctor"], tuple(args))
        if "f" in n and "callee" not in n:
            f = self.ev(body, n["f"], env)
            if isinstance(f, tuple) and f[:1] == ("closure",):
                return self.call_closure(f, args)
            if isinstance(f, tuple) and f[:1] == ("fn",):
                return self._apply(body, n, [f[1]], args)
            if isinstance(f, tuple) and f[:1] == ("ctor",):
                return V(f[1], tuple(args))
            return UNK
        return self._apply(body, n, [n.get("resolved"), n.get("callee")], args)

    def ev_MCall(self, body, n, env):
        recv = self.ev(body, n["recv"], env)
        args = [self.ev(body, a, env) for a in n["args"]]
        if n["name"] in ("clone", "to_owned", "borrow", "as_ref", "into", "copied", "cloned") and not args:
            return recv
        if n["name"] in ("max", "min") and n.get("trait") == "std::cmp::Ord":
            return self._apply(body, n, ["std::cmp::" + n["name"]], [recv] + args)
        return self._apply(body, n, [n.get("resolved"), n.get("callee")], [recv] + args)


def result_name(interp, body, args):
    """'Yes' / 'No' / 'Manually' / 'true' / 'false' / 'unreachable' / 'undecidable: ..'"""
    try:
        v = interp.call(body, args)
    except Panics:
        return "unreachable"
    except Undecidable as e:
        return "undecidable: %s" % e
    if isinstance(v, bool):
        return "true" if v else "false"
    if v is UNK:
        return "undecidable: the result is not a function of the inputs"
    return vname(v)


# =====================================================================================================
#  small shared helpers
# =====================================================================================================
def variants(prog, adt):
    a = prog.adts.get(adt)
    return [v["name"] for v in a["variants"]] if a else []


def dt_method(rep, name):
    return rep.need(rep.prog.fn("%s::%s" % (DT, name)), "DeriveTrait::" + name)


def find_fn(prog, suffix, contains=None):
    """the unique body whose path ends with `suffix` (and contains `contains`)"""
    out = [b for p, b in prog.bodies.items() if p.endswith(suffix) and (contains is None or contains in p)]
    return out[0] if len(out) == 1 else None


def short(path):
    return path.rsplit("::", 1)[-1]


def atoms_of(b, e, pol=True):
    return qq._atoms(b, e, pol)


def callee_of(n):
    return n.get("resolved") or n.get("callee") or ""


def opt_field(n):
    """`options().x` / `self.options.x` -> 'x' for fields of BindgenOptions, else None"""
    n = strip(n)
    if n.get("k") == "Field" and n.get("adt") == OPTS:
        return n["f"]
    return None


def toplevel_index(b, n):
    """index of the top-level statement of b.root that contains n (len(stmts) for the tail)"""
    cur = n
    while True:
        p = b.parent[cur["_i"]]
        if p is None:
            return None
        if p is b.root:
            r = b.role[cur["_i"]]
            return r[1] if isinstance(r, tuple) else len(b.root.get("stmts", []))
        cur = p


# =====================================================================================================
#  R8.1  rule tables
# =====================================================================================================
def _dt(t):
    return V("%s::%s" % (DT, t), ())


def _compare(rep, key, got, want, what, loc):
    """compare one table entry with the oracle ('any' = unconstrained)"""
    if want == "any":
        rep.ok(key, "%s = %s (not constrained by the oracle)" % (what, got), loc)
        return
    if isinstance(want, bool):
        want = "true" if want else "false"
    rep.check(got == want, key, "%s is %s, the oracle (statement + Rust language) says %s" % (what, got, want), loc)


def fnptr_sig_hook(nargs, abi):
    def hook(body, n, env, interp):
        if n["k"] == "MCall" and n["name"] == "len" and strip(n["recv"]).get("k") == "Field" and \
                strip(n["recv"]).get("adt") == "ir::function::FunctionSig":
            return nargs
        if n["k"] == "Field" and n.get("adt") == "ir::function::FunctionSig" and body.ty(n) == "ir::function::ClangAbi":
            return abi
        return NotImplemented
    return hook


def edge_set(prog, interp, pred_body, trait):
    """set of EdgeKind variants for which the predicate returned by `pred_body(trait)` answers true; None if undecidable"""
    try:
        f = interp.call(pred_body, [_dt(trait)])
    except (Undecidable, Panics):
        return None
    out = set()
    for e in variants(prog, EK):
        arg = V("%s::%s" % (EK, e), ())
        try:
            if isinstance(f, tuple) and f[:1] == ("closure",):
                r = interp.call_closure(f, [arg])
            elif isinstance(f, tuple) and f[:1] == ("fn",) and f[1] in prog.bodies:
                r = interp.call(prog.bodies[f[1]], [arg])
            else:
                return None
        except (Undecidable, Panics):
            return None
        if r is True:
            out.add(e)
        elif r is not False:
            return None
    return out


@RULES.rule("R8.1", "derive rule tables, limits and the CanDerive lattice agree with the oracle", floor=166)
def r8_1(rep):
    """Every `DeriveTrait::can_derive_*` predicate is evaluated for every DeriveTrait variant (can_derive_simple for every
    simple TypeKind, can_derive_fnptr for both answers of function_pointers_can_derive) and compared with
    oracle/derive_rules.json.  Breaks: `can_derive_pointer` answering Yes for Default puts `#[derive(Default)]` on a struct
    with a `*mut T` member (E0277); `can_derive_simple(Hash, Float)` = Yes derives Hash over an f64; reversing the
    lattice order lets a member's `No` be overwritten by `Yes`."""
    prog = rep.prog
    it = Interp(prog)
    have = variants(prog, DT)
    rep.check(sorted(have) == sorted(TRAITS), "traits", "DeriveTrait variants %s (oracle knows %s)" % (have, TRAITS))

    # -- boolean predicates --------------------------------------------------------------------------
    for name, row in ORACLE["bool_predicates"].items():
        b = dt_method(rep, name)
        for t in TRAITS:
            got = result_name(it, b, [_dt(t)] + [UNK] * (len(b.params) - 1))
            _compare(rep, "table:%s:%s" % (name, t), got, row[t], "%s(%s)" % (name, t), b.loc(b.root))
    # -- CanDerive-valued predicates -----------------------------------------------------------------
    for name in ("can_derive_pointer", "can_derive_vector"):
        b = dt_method(rep, name)
        for t in TRAITS:
            got = result_name(it, b, [_dt(t)])
            _compare(rep, "table:%s:%s" % (name, t), got, ORACLE[name][t], "%s(%s)" % (name, t), b.loc(b.root))
    b = dt_method(rep, "can_derive_fnptr")
    for ok, rowname in ((True, "std_impls"), (False, "no_std_impls")):
        def hook(body, n, env, interp, ok=ok):
            if n["k"] == "MCall" and n["name"] == "function_pointers_can_derive":
                return ok
            return NotImplemented
        it2 = Interp(prog, hook)
        for t in TRAITS:
            got = result_name(it2, b, [_dt(t), UNK])
            _compare(rep, "table:can_derive_fnptr:%s:%s" % (t, rowname), got, ORACLE["can_derive_fnptr"][rowname][t],
                     "can_derive_fnptr(%s) when function_pointers_can_derive() is %s" % (t, str(ok).lower()), b.loc(b.root))
    b = dt_method(rep, "can_derive_simple")
    for kind in ORACLE["simple_kinds"]:
        for t in TRAITS:
            got = result_name(it, b, [_dt(t), V("%s::%s" % (TK, kind), None)])
            _compare(rep, "table:can_derive_simple:%s:%s" % (t, kind), got, ORACLE["can_derive_simple"][kind][t],
                     "can_derive_simple(%s, %s)" % (t, kind), b.loc(b.root))

    # -- which signatures get the std impls ----------------------------------------------------------
    fp = rep.need(prog.fn("ir::function::FunctionSig::function_pointers_can_derive"), "FunctionSig::function_pointers_can_derive")
    spec = ORACLE["function_pointers_can_derive"]
    abis = [("Known(%s)" % a, V("ir::function::ClangAbi::Known", (V("ir::function::Abi::" + a, ()),)))
            for a in variants(prog, "ir::function::Abi")] + [("Unknown", V("ir::function::ClangAbi::Unknown", None))]
    rep.need(variants(prog, "ir::function::Abi"), "enum ir::function::Abi")
    for nm, abi in abis:
        got = result_name(Interp(prog, fnptr_sig_hook(1, abi)), fp, [UNK])
        _compare(rep, "fnptr-sig:abi:" + nm, got, nm in spec["abi_ok"], "function_pointers_can_derive() for ABI %s" % nm, fp.loc(fp.root))
    cabi = dict(abis)["Known(C)"]
    answers = [result_name(Interp(prog, fnptr_sig_hook(k, cabi)), fp, [UNK]) for k in range(0, 41)]
    ok_upto = [k for k, a in enumerate(answers) if a == "true"]
    shape = answers == ["true"] * (max(ok_upto) + 1 if ok_upto else 0) + ["false"] * (40 - (max(ok_upto) if ok_upto else -1))
    rep.check(shape and ok_upto and max(ok_upto) == spec["max_args"], "fnptr-sig:max-args",
              "function pointers derive normally up to %s arguments (oracle: %d)" % (max(ok_upto) if ok_upto else "?", spec["max_args"]),
              fp.loc(fp.root))

    # -- limits --------------------------------------------------------------------------------------
    for cname, ent in ORACLE["limits"].items():
        cb = [x for p, x in prog.bodies.items() if p.endswith("::" + cname) and x.kind.startswith("Const")]
        rep.need(cb, "const " + cname)
        try:
            val = it.call(cb[0], [])
        except (Undecidable, Panics):
            val = UNK
        rep.check(val == ent["value"], "limit:" + cname, "%s = %s (oracle: %d; %s)" % (cname, vname(val), ent["value"], ent["why"]),
                  cb[0].loc(cb[0].root))

    # -- lattice -------------------------------------------------------------------------------------
    lat = ORACLE["lattice"]
    order = variants(prog, CD)
    rep.check(order == lat["order"] and it.derived_ord(CD), "lattice:order",
              "CanDerive is ordered %s by a derived Ord (oracle: %s)" % (" < ".join(order), " < ".join(lat["order"])))
    db = rep.need(prog.impl_fn("std::default::Default", CD, "default"), "<CanDerive as Default>::default")
    rep.check(result_name(it, db, []) == lat["default"], "lattice:default",
              "an item nobody has complained about counts as %s (oracle: %s)" % (result_name(it, db, []), lat["default"]), db.loc(db.root))
    rank = {v: i for i, v in enumerate(lat["order"])}
    joins = [("join", rep.need(prog.fn(CD + "::join"), "CanDerive::join")),
             ("bitor", rep.need(prog.impl_fn("std::ops::BitOr", CD, "bitor"), "<CanDerive as BitOr>::bitor"))]
    for a, c in itertools.product(lat["order"], repeat=2):
        want = a if rank[a] >= rank[c] else c
        for nm, jb in joins:
            got = result_name(it, jb, [V("%s::%s" % (CD, a), ()), V("%s::%s" % (CD, c), ())])
            rep.check(got == want, "lattice:%s:%s|%s" % (nm, a, c), "%s(%s, %s) = %s (least upper bound: %s)" % (nm, a, c, got, want),
                      jb.loc(jb.root))
    ba = rep.need(prog.impl_fn("std::ops::BitOrAssign", CD, "bitor_assign"), "<CanDerive as BitOrAssign>::bitor_assign")
    asg = [n for n in ba.walk() if n["k"] == "Assign"]
    good = len(asg) == 1 and strip(asg[0]["l"]).get("name") == "self" and \
        short(callee_of(strip(asg[0]["r"]))) in ("join", "bitor", "max") and len([x for x in ba.walk(asg[0]["r"]) if x["k"] == "Local"]) == 2
    rep.check(good, "lattice:bitor_assign", "`a |= b` stores join(a, b) into a", ba.loc(ba.root))

    # -- edges followed by the joins -----------------------------------------------------------------
    never = set(ORACLE["edges"]["never"])
    for name in ("consider_edge_comp", "consider_edge_typeref", "consider_edge_tmpl_inst"):
        b = dt_method(rep, name)
        req = set(ORACLE["edges"][name]["required"])
        for t in TRAITS:
            es = edge_set(prog, it, b, t)
            if es is None:
                rep.bad("edges:%s:%s" % (name, t), "the edge predicate returned by %s(%s) cannot be evaluated" % (name, t), b.loc(b.root))
                continue
            rep.check(req <= es and not (es & never), "edges:%s:%s" % (name, t),
                      "%s(%s) follows %s; must follow %s and never %s" % (name, t, sorted(es), sorted(req), sorted(es & never) or "method/inner-item edges"),
                      b.loc(b.root))

    # -- user exclusion lists ------------------------------------------------------------------------
    nb = dt_method(rep, "not_by_name")
    for t in TRAITS:
        seen = []

        def hook(body, n, env, interp):
            if n["k"] == "MCall" and body is nb and n.get("callee", "").startswith(CTX + "::"):
                seen.append(n["callee"])
                return True
            return NotImplemented
        try:
            Interp(prog, hook).call(nb, [_dt(t), UNK, UNK])
        except (Undecidable, Panics):
            pass
        fields = set()
        for c in seen:
            cb = prog.fn(c)
            if cb is not None:
                fields |= {opt_field(x["recv"]) for x in cb.calls(lambda x: x["k"] == "MCall" and x["name"] == "matches")} - {None}
        want = ORACLE["not_by_name"][t]
        rep.check(fields == {want}, "not_by_name:" + t, "the %s analysis excludes the types matched by %s (oracle: %s)" % (t, sorted(fields), want),
                  nb.loc(nb.root))


# =====================================================================================================
#  R8.5  CannotDerive::constrain_type consults the tables for the right kind with the right polarity
# =====================================================================================================
FAMILY = {"can_derive_simple": "simple", "can_derive_pointer": "pointer", "can_derive_fnptr": "fnptr", "can_derive_vector": "vector",
          "can_derive_incomplete_array": "array", "can_derive_compound_forward_decl": "comp", "consider_edge_comp": "comp",
          "consider_edge_typeref": "join", "consider_edge_tmpl_inst": "join"}


def cannot_derive_bodies(prog):
    """methods of `impl CannotDerive` (constrain_type and whatever helpers it may be split into) + MonotoneFramework::constrain"""
    return [b for p, b in prog.bodies.items() if "ir::analysis::derive::CannotDerive" in p and b.kind == "AssocFn"]


def deep_callees(prog, b, node, helpers, depth=2):
    """callee paths of the calls below `node`, following calls into `helpers` (other CannotDerive methods)"""
    out = set()
    for c in b.calls(None, node):
        name = callee_of(c)
        out.add(name)
        hb = helpers.get(name)
        if hb is not None and depth > 0 and hb is not b:
            out |= deep_callees(prog, hb, hb.root, helpers, depth - 1)
    return out


def threshold(b, cond, interp):
    """for a comparison `x > C` / `x >= C` / `C < x` / `C <= x` with a constant side: least x that makes it true"""
    e = strip(cond)
    if e.get("k") != "Binary" or e["op"] not in (">", ">=", "<", "<="):
        return None
    for side, other, flip in ((e["r"], e["l"], False), (e["l"], e["r"], True)):
        try:
            c = interp.ev(b, side, {})
        except (Undecidable, Panics):
            continue
        if isinstance(c, int) and not isinstance(c, bool):
            op = e["op"]
            if flip:
                op = {">": "<", ">=": "<=", "<": ">", "<=": ">="}[op]
            if op == ">":
                return c + 1
            if op == ">=":
                return c
            return None
    return None


def returns_of(b, value):
    """nodes at which the body answers CanDerive::<value>: `return X`, a tail expression X, or `can_derive = X`"""
    out = []
    want = "%s::%s" % (CD, value)
    for n in b.walk():
        if n["k"] == "Path" and n["def"] == want:
            p = b.parent[n["_i"]]
            if p is None:
                continue
            if p["k"] == "Ret" or (p["k"] == "Block" and p.get("tail") is n) or (p["k"] == "Assign" and p["r"] is n):
                out.append(n)
            elif p["k"] == "Match" or p["k"] == "If":
                out.append(n)
    return out


def disjuncts(e):
    e = strip(e)
    if e.get("k") == "Binary" and e["op"] == "||":
        return disjuncts(e["l"]) + disjuncts(e["r"])
    return [e]


def has_all(atoms, req):
    return all(any(s in a and p == pol for a, p, _ in atoms) for s, pol in req)


@RULES.rule("R8.5", "constrain_type applies each table to the kind it is about, with the right polarity, and joins over members", floor=43)
def r8_5(rep):
    """The tables of R8.1 only matter through their use sites.  Routing: every TypeKind is decided by the rule family
    the oracle names (a `Reference` moved into the type-reference join would make Default follow the pointee).  Polarity:
    each `return No`/`Manually` is taken exactly when the predicate says the trait is NOT supported and the structural
    condition holds (dropping the `!` in `!can_derive_compound_with_vtable() && has_vtable` derives Default over a
    vtable pointer).  Joins: arrays/vectors answer No unless the element type is Yes; composites join over members."""
    prog = rep.prog
    it = Interp(prog)
    bodies = cannot_derive_bodies(prog)
    helpers = {p: b for p, b in prog.bodies.items() if b in bodies}
    ct = rep.need(find_fn(prog, "::constrain_type", "CannotDerive"), "CannotDerive::constrain_type")
    # ---- routing ------------------------------------------------------------------------------------
    ms = [n for n in ct.walk() if n["k"] == "Match" and ct.ty(strip(n["scrut"])) in (TK, "&" + TK) and not ct.macro_name(n)]
    rep.need(ms, "match over TypeKind in constrain_type")
    m = max(ms, key=lambda n: len(n["arms"]))
    routed = {}
    for a in m["arms"]:
        callees = deep_callees(prog, ct, a["body"], helpers)
        fam = {FAMILY[short(c)] for c in callees if c.startswith(DT + "::") and short(c) in FAMILY}
        if not fam and any(x.endswith(p) for x in callees for p in PANIC_CALLEES):
            fam = {"unreachable"}
        for v in pat_variants(a["pat"]):
            routed.setdefault(v.replace(TK + "::", "") if v != "_" else "_", set()).update(fam)
    for kind in variants(prog, TK):
        got = routed.get(kind, routed.get("_", set()))
        want = ORACLE["routing"].get(kind)
        if want is None:
            rep.bad("route:" + kind, "TypeKind::%s is unknown to the oracle; it is decided by %s" % (kind, sorted(got)), ct.loc(m))
            continue
        rep.check(got == set(want), "route:" + kind, "TypeKind::%s is decided by %s (oracle: %s)" % (kind, sorted(got), want), ct.loc(m))

    # ---- polarity of the use sites --------------------------------------------------------------------
    LIM = "RUST_DERIVE_IN_ARRAY_LIMIT"
    specs = [
        ("use:forward-decl", "No", [("can_derive_compound_forward_decl", False), ("CompInfo::is_forward_declaration", True)]),
        ("use:destructor", "No", [("can_derive_compound_with_destructor", False), ("lookup_has_destructor", True)]),
        ("use:vtable", "No", [("can_derive_compound_with_vtable", False), ("has_vtable", True)]),
        ("use:rust-union", "No", [("can_derive_union", False), ("BindgenOptions::untagged_union", True), ("CompKind::Union", True)]),
        ("use:rust-union-opaque", "No", [("can_derive_union", False), ("BindgenOptions::untagged_union", True), ("Type::is_union", True),
                                         ("IsOpaque>::is_opaque", True)]),
        ("use:incomplete-array", "No", [("can_derive_incomplete_array", False), ("== lit:0)", True)]),
        ("use:large-array", "Manually", [("can_derive_large_array", False), (LIM, True)]),
        ("use:large-bitfield-unit", "No", [("can_derive_large_array", False), ("has_too_large_bitfield_unit", True)]),
        ("use:large-alignment", "Manually", [("can_derive_large_array", False), ("Type::layout", True)]),
        ("use:excluded-by-name", "No", [("DeriveTrait::not_by_name", True)]),
        ("use:array-element", "No", [("arm:Array", True), ("CannotDerive::can_derive", True), ("!= %s::Yes" % CD, True)]),
        ("use:vector-element", "No", [("arm:Vector", True), ("CannotDerive::can_derive", True), ("!= %s::Yes" % CD, True)]),
    ]
    sites = {}
    for b in bodies:
        for val in ("No", "Manually"):
            for n in returns_of(b, val):
                atoms = list(qq.guard_atoms(b, n))
                # name the TypeKind arm the site sits in
                for pol, kind, payload in b.guards(n):
                    if kind == "arm":
                        mm, i = payload
                        for v in pat_variants(mm["arms"][i]["pat"]):
                            if v.startswith(TK + "::"):
                                atoms.append(("arm:" + short(v), True, mm))
                # `x == Yes` with negative polarity is `x != Yes`
                atoms += [(a.replace(" == ", " != "), True, x) for a, p, x in atoms if not p and " == " in a]
                sites.setdefault(val, []).append((b, n, atoms))
    for key, val, req in specs:
        hit = [(b, n) for b, n, atoms in sites.get(val, []) if has_all(atoms, req)]
        rep.check(bool(hit), key, "%s is answered when %s" % (val, " and ".join(("" if p else "not ") + s for s, p in req)),
                  hit[0][0].loc(hit[0][1]) if hit else ct.loc(ct.root))
    # no `No`/`Manually` answer under a *positive* table answer (inverted polarity)
    for val in ("No", "Manually"):
        for b, n, atoms in sites.get(val, []):
            inv = [a for a, p, _ in atoms if p and re.search(r"DeriveTrait::can_derive_\w+\(", a) and " == " not in a and " != " not in a]
            # `if can_derive_union() { if untagged && templated { return No } }` is the one legitimate positive use (rust issue 36640)
            inv = [a for a in inv if "can_derive_union" not in a]
            if inv:
                rep.bad("polarity:%s@%s" % (short(b.path), short(inv[0].split("(")[0])),
                        "%s is answered although %s says the trait is supported" % (val, inv[0][:80]), b.loc(n))
    rep.ok("polarity", "no No/Manually answer is guarded by a positive table answer")

    # ---- thresholds -----------------------------------------------------------------------------------
    want = ORACLE["limits"][LIM]["value"] + 1
    th = []
    for b, n, atoms in sites.get("Manually", []):
        for a, p, x in atoms:
            if LIM in a and p and isinstance(x, dict):
                th.append((b, x, threshold(b, x, it)))
    rep.check(bool(th) and all(t == want for _, _, t in th), "limit:array-length",
              "arrays become Manually from length %s (oracle: %d)" % ([t for _, _, t in th], want), th[0][0].loc(th[0][1]) if th else "")
    cons = [b for b in bodies if b.path.endswith("::constrain")]
    rep.need(cons, "<CannotDerive as MonotoneFramework>::constrain")
    al = []
    for b in cons:
        for n in b.walk():
            if n["k"] == "Binary" and n["op"] in (">", ">=", "<", "<=") and any(x["k"] == "Field" and x.get("adt") == "ir::layout::Layout" and
                                                                               x["f"] == "align" for x in b.walk(n)):
                al.append((b, n, threshold(b, n, it)))
    rep.check(bool(al) and all(t == want for _, _, t in al), "limit:alignment",
              "types become Manually from alignment %s (oracle: %d; padding arrays may exceed the limit)" % ([t for _, _, t in al], want),
              al[0][0].loc(al[0][1]) if al else "")
    bu = rep.need(prog.fn("ir::comp::CompInfo::has_too_large_bitfield_unit"), "CompInfo::has_too_large_bitfield_unit")
    bt = [(n, threshold(bu, n, it)) for n in bu.walk() if n["k"] == "Binary" and n["op"] in (">", ">=", "<", "<=")]
    rep.check(bool(bt) and all(t == want for _, t in bt), "limit:bitfield-unit",
              "a bit-field unit is too large from %s bytes (oracle: %d)" % ([t for _, t in bt], want), bu.loc(bu.root))
    # "some unit is too large" is an existential over ALL fields: the comparison sits in the predicate of an `any` over the whole
    # field list (or in a loop that returns true), never behind an adapter that stops at / selects the first unit
    for n, _ in bt:
        cl = next((a for a in bu.ancestors(n) if a["k"] == "Closure"), None)
        host = None
        if cl is not None:
            host = next((a for a in bu.ancestors(cl) if a["k"] == "MCall" and any(x is cl or strip(x) is cl for x in a["args"])), None)
        chain = []
        if host is not None:
            chain.append(host["name"])
            x = strip(host["recv"])
            while x.get("k") == "MCall":
                chain.append(x["name"])
                x = strip(x["recv"])
            # adapters applied to the result of the host call
            up = host
            while True:
                par = bu.parent[up["_i"]]
                if par is not None and par["k"] == "MCall" and strip(par["recv"]) is up:
                    chain.insert(0, par["name"])
                    up = par
                else:
                    break
        in_loop = any(a["k"] in ("For", "While", "Loop") for a in bu.ancestors(n))
        partial = [m for m in chain if m in ("find_map", "find", "position", "next", "first", "last", "nth", "take", "skip", "take_while",
                                             "skip_while", "step_by", "min", "min_by_key", "unwrap_or", "unwrap_or_default", "all")]
        ok = (host is not None and host["name"] == "any" and not partial) or (host is None and in_loop)
        rep.check(ok, "limit:bitfield-unit:every-unit", "every unit of the record is compared with the limit" if ok else
                  "the comparison only reaches some of the units (%s): a record whose oversized unit is not the one looked at derives "
                  "Default / Debug over `[u8; N]` with N > 32" % (" <- ".join(chain) or "no iteration"), bu.loc(n))

    # ---- joins ----------------------------------------------------------------------------------------
    cj = rep.need(find_fn(prog, "::constrain_join", "CannotDerive"), "CannotDerive::constrain_join")
    ors = [n for n in cj.walk() if n["k"] == "AssignOp" and n["op"] == "|="]
    reads = [c for c in cj.calls(lambda x: x["k"] == "MCall" and x["name"] == "get") if "CannotDerive::can_derive" in cj.canon(c["recv"], 3)]
    rep.check(len(ors) >= 1 and bool(reads), "join:members", "constrain_join folds the members' results with `|=` (%d site(s))" % len(ors),
              cj.loc(cj.root))
    ok = True
    for r in [n for n in cj.walk() if n["k"] in ("Ret", "Continue")]:
        for pol, kind, g in cj.guards(r):
            if kind != "cond" or cj.macro_name(g) in LOG_MACROS:
                continue
            for d in disjuncts(g) if pol else [g]:
                s_ = cj.canon(d, 5)
                self_edge = " == " in s_ and "Item::id" in s_ and pol
                rejected = pol and re.fullmatch(r"\(!param:\w+\(cparam:\w+\)\)", s_) is not None
                if not (self_edge or rejected):
                    ok = False
    rep.check(ok, "join:skips", "a member is skipped only when it is the item itself or its edge kind is rejected by the edge predicate", cj.loc(cj.root))
    tails = [n for n in cj.walk() if n["k"] == "MCall" and n["name"] in ("unwrap_or_default", "unwrap_or") and cj.parent[n["_i"]] is cj.root]
    rep.check(bool(tails), "join:result", "the folded value is the answer (Yes when there is no member)", cj.loc(cj.root))
    # the opaque early return is not trait dependent apart from the union test (R8.6 relies on it)
    yes = [(b, n) for b in bodies for n in returns_of(b, "Yes") if qq.has_atom(qq.guard_atoms(b, n), "IsOpaque>::is_opaque", True)]
    dep = [a for b, n in yes for a, p, _ in qq.guard_atoms(b, n) if "derive_trait" in a and "can_derive_union" not in a and "not_by_name" not in a
           and "can_derive_compound_with_destructor" not in a]
    rep.check(bool(yes) and not dep, "opaque:all-traits", "an opaque item answers Yes for every trait (blob of integers)%s" %
              ("; but depends on %s" % dep[0][:60] if dep else ""), yes[0][0].loc(yes[0][1]) if yes else ct.loc(ct.root))


# =====================================================================================================
#  R8.2  option gating, float exclusion, wiring of the analysis results
# =====================================================================================================
def result_fields(prog):
    """Option-typed field of BindgenContext -> (generic analysis name, DeriveTrait variant or None, body, assign node)"""
    out = {}
    for b in prog.methods_of(CTX):
        for n in b.walk():
            if n["k"] != "Assign":
                continue
            l = n["l"]
            if l.get("k") != "Field" or l.get("adt") != CTX:
                continue
            for c in b.calls(lambda x: x["k"] == "Call" and x.get("callee") == "ir::analysis::analyze", n["r"]):
                g = re.sub(r"<.*", "", c.get("gargs", "[?]").strip("[]")).rsplit("::", 1)[-1]
                tr = [short(x["def"]) for x in b.walk(c) if x["k"] == "Path" and x["def"].startswith(DT + "::")]
                out[l["f"]] = (g, tr[0] if tr else None, b, n)
    return out


def fields_read(b, fields):
    return {n["f"] for n in b.walk() if n["k"] == "Field" and n.get("adt") == CTX and n["f"] in fields}


@RULES.rule("R8.2", "CanDeriveX = option && analysis result [&& no float]; results are wired to the right analysis", floor=34)
def r8_2(rep):
    """`impl<T> CanDeriveX for T` must be exactly `options.derive_x && lookup_x(id)`, Eq and Ord additionally
    `!lookup_has_float(id)`, reading the result of the analysis the oracle names.  Breaks: dropping `!lookup_has_float`
    from can_derive_eq derives Eq on `struct { float f; }` (E0277); can_derive_hash reading the Debug result derives
    Hash over floats; dropping `options.derive_hash` derives Hash although the user did not ask (and unwraps a result
    that was never computed)."""
    prog = rep.prog
    res = result_fields(prog)
    rep.need(res, "assignments of analysis results to BindgenContext fields")
    # wiring of compute_* : field <- analysis
    by_trait = {}
    for f, (g, tr, b, n) in sorted(res.items()):
        if g == "CannotDerive":
            rep.check(tr is not None and f.replace("cannot_derive_", "").replace("_", "") == tr.lower(),
                      "wire:compute:" + f, "`%s` holds the CannotDerive analysis of DeriveTrait::%s" % (f, tr), b.loc(n))
            by_trait.setdefault(tr, []).append(f)
        elif g == "HasFloat":
            rep.check(f == "has_float", "wire:compute:" + f, "`%s` holds the HasFloat analysis" % f, b.loc(n))
    for t in TRAITS:
        rep.check(len(by_trait.get(t, [])) == 1, "wire:analysis:" + t, "exactly one result field holds the %s analysis (%s)" % (t, by_trait.get(t)))
    float_fields = {f for f, v in res.items() if v[0] == "HasFloat"}
    derive_fields = {f: v[1] for f, v in res.items() if v[0] == "CannotDerive"}

    # lookup_* : which result they read and with which polarity
    lookups = {}
    for b in prog.methods_of(CTX):
        rd = fields_read(b, set(derive_fields) | float_fields)
        if not rd or b.path in {v[2].path for v in res.values()}:
            continue
        tail = b.root.get("tail")
        if tail is None:
            continue
        lookups[b.path] = (b, rd)
        if b.ty(tail) == "bool":
            ats = atoms_of(b, tail)
            own = [(a, p) for a, p, x in ats if any("%s::%s" % (CTX, f) in a for f in rd) and "contains(" in a]
            want_pol = bool(rd & float_fields)     # has_float: member of the set; cannot_derive_x: NOT member of the set
            rep.check(len(own) == 1 and own[0][1] == want_pol and len(rd) == 1, "wire:lookup:" + short(b.path),
                      "%s is %s membership in `%s`" % (short(b.path), "" if want_pol else "the negation of", sorted(rd)), b.loc(tail))
            extra = [(a, p) for a, p, x in ats if (a, p) not in own]
            for a, p in extra:
                rep.check(not p and "BindgenContext::lookup_" in a, "wire:lookup-extra:" + short(b.path),
                          "additional condition of %s only withholds: %s%s" % (short(b.path), "" if p else "!", a[:70]), b.loc(tail))
        else:
            t = strip(tail)
            dflt = t.get("k") == "MCall" and t["name"] == "unwrap_or" and b.canon(t["args"][0], 2) == CD + "::" + ORACLE["lattice"]["default"]
            rep.check(dflt and len(rd) == 1, "wire:lookup:" + short(b.path),
                      "%s returns the recorded value of `%s`, %s for items the analysis never complained about" %
                      (short(b.path), sorted(rd), ORACLE["lattice"]["default"]), b.loc(tail))

    def classify(b, a, p, x):
        """('opt', name) | ('analysis', DeriveTrait, form) | ('float',) | ('other', text)"""
        of = opt_field(x)
        if of:
            return ("opt", of)
        e = strip(x)
        cmp_yes = None
        if e.get("k") == "Binary" and e["op"] in ("==", "!="):
            for u, w in ((e["l"], e["r"]), (e["r"], e["l"])):
                if strip(w).get("k") == "Path" and strip(w)["def"].startswith(CD + "::"):
                    cmp_yes = (e["op"], short(strip(w)["def"]))
                    e = strip(u)
        if e.get("k") == "MCall" and callee_of(e) in lookups:
            lb, rd = lookups[callee_of(e)]
            arg_ok = len(e["args"]) == 1 and b.canon(e["args"][0], 2) in ("param:self", "(*param:self)")
            if rd & float_fields:
                return ("float", arg_ok)
            f = sorted(rd)[0]
            return ("analysis", derive_fields.get(f), cmp_yes, arg_ok)
        return ("other", a[:80])

    for x, g in sorted(ORACLE["gating"].items()):
        if x.startswith("_"):
            continue
        trait = "ir::derive::CanDerive" + x
        meth = "can_derive_" + x.lower()
        gen = [b for b in prog.bodies.values() if b.fact.get("impl_trait") == trait and b.fact.get("impl_self") != "ir::item::Item" and
               b.path.endswith("::" + meth)]
        rep.need(gen, "impl<T> %s for T" % trait)
        b = gen[0]
        tail = rep.need(b.root.get("tail"), "tail expression of " + b.path)
        got = []
        for a, p, node in atoms_of(b, tail) + [g for g in qq.guard_atoms(b, tail) if isinstance(g[2], dict) and g[2].get("k") != "Match"]:
            c = classify(b, a, p, node)
            if c[0] == "analysis":
                # bool lookups are used as-is (positive); CanDerive lookups must be compared `== Yes`
                form_ok = (c[2] is None and p) or (c[2] == ("==", "Yes") and p) or (c[2] == ("!=", "Yes") and not p)
                got.append(("analysis", c[1], form_ok and c[3]))
            elif c[0] == "float":
                got.append(("float", p, c[1]))
            elif c[0] == "opt":
                got.append(("opt", c[1], p))
            else:
                got.append(c)
        want = [("opt", g["option"], True), ("analysis", g["analysis"], True)] + ([("float", False, True)] if g["float_excluded"] else [])
        rep.check(sorted(map(str, got)) == sorted(map(str, want)), "gate:" + x,
                  "%s for an id is %s; must be exactly %s" % (meth, got, want), b.loc(tail))
        # the Item impl delegates to the same trait on its own id
        ib = rep.need(prog.impl_fn(trait, "ir::item::Item", meth), "<Item as %s>" % trait)
        t = strip(ib.root.get("tail") or {})
        ok = t.get("k") == "MCall" and t.get("trait") == trait and t["name"] == meth and ib.canon(t["recv"], 3) == "param:self.ir::item::Item::id"
        rep.check(ok, "gate-item:" + x, "<Item as CanDerive%s> asks the same question about its own id (%s)" % (x, ib.canon(t, 3)[:90] if t else "?"),
                  ib.loc(ib.root))


# =====================================================================================================
#  R8.3  results that are computed only under a condition are only unwrapped under a guard implying it
#        (generic; C12 R12.1 re-uses `check_guarded_unwraps`)
# =====================================================================================================
UNWRAPS = ("unwrap", "expect", "unwrap_unchecked")


# formulas in negation normal form: ("lit", key, polarity) | ("and", [f..]) | ("or", [f..]);  TRUE = ("and", [])
TRUE = ("and", [])


def f_and(fs):
    out = []
    for f in fs:
        if f[0] == "and":
            out += f[1]
        else:
            out.append(f)
    return out[0] if len(out) == 1 else ("and", out)


def f_or(fs):
    out = []
    for f in fs:
        if f[0] == "or":
            out += f[1]
        else:
            out.append(f)
    return out[0] if len(out) == 1 else ("or", out)


def formula_of(b, e, pol=True):
    """boolean expression -> NNF formula; option fields become `opt:<field>`, every other atom `x:<canonical text>`;
    immutable bool locals are expanded"""
    e = strip(e)
    k = e.get("k")
    if k == "Unary" and e["op"] == "!":
        return formula_of(b, e["e"], not pol)
    if k == "Binary" and e["op"] in ("&&", "||"):
        parts = [formula_of(b, e["l"], pol), formula_of(b, e["r"], pol)]
        return f_and(parts) if (e["op"] == "&&") == pol else f_or(parts)
    if k == "Local":
        init = b.local_init(e["id"])
        if init is not None and b.ty(e) == "bool":
            return formula_of(b, init, pol)
    if k == "Lit" and isinstance(e.get("v"), bool):
        return TRUE if e["v"] == pol else ("or", [])
    of = opt_field(e)
    return ("lit", "opt:" + of if of else "x:" + b.canon(e, 6), pol)


def guard_formula(b, node):
    """conjunction of the guard chain of node.  Conditions that come from assertion macros are dropped (a failed assertion
    panics, it does not silently skip); match arms / let-else become opaque `x:` atoms."""
    fs = []
    for pol, kind, g in b.guards(node):
        if kind == "cond":
            if b.macro_name(g) in ASSERT_MACROS or b.macro_name(g) in LOG_MACROS:
                continue
            fs.append(formula_of(b, g, pol))
        elif kind == "arm":
            m, i = g
            fs.append(("lit", "x:arm:%s:%d" % (b.canon(m["scrut"], 4), i), True))
        elif kind == "letelse":
            fs.append(("lit", "x:letelse:" + b.canon(g.get("init", {}), 4), True))
    return f_and(fs) if fs else TRUE


def f_atoms(f, acc=None):
    acc = set() if acc is None else acc
    if f[0] == "lit":
        acc.add(f[1])
    else:
        for g in f[1]:
            f_atoms(g, acc)
    return acc


def f_eval(f, w):
    if f[0] == "lit":
        return w[f[1]] == f[2]
    if f[0] == "and":
        return all(f_eval(g, w) for g in f[1])
    return any(f_eval(g, w) for g in f[1])


def f_rename(f, pre):
    """rename the non-option atoms (they mean something only inside the body they come from)"""
    if f[0] == "lit":
        return f if f[1].startswith("opt:") else ("lit", pre + f[1], f[2])
    return (f[0], [f_rename(g, pre) for g in f[1]])


def f_options_only(f):
    """weaken an NNF formula to its option atoms (every other literal becomes true)"""
    if f[0] == "lit":
        return f if f[1].startswith("opt:") else TRUE
    parts = [f_options_only(g) for g in f[1]]
    if f[0] == "or" and any(p == TRUE for p in parts):
        return TRUE
    return f_and(parts) if f[0] == "and" else f_or(parts)


def f_str(f):
    if f[0] == "lit":
        return ("" if f[2] else "!") + (f[1][4:] if f[1].startswith("opt:") else f[1][2:60])
    if not f[1]:
        return "true" if f[0] == "and" else "false"
    return "(" + (" && " if f[0] == "and" else " || ").join(f_str(g) for g in f[1]) + ")"


def entails(g, c, implications=()):
    """g => c for every valuation of the atoms that respects `implications` (pairs (a, b): opt a => opt b).  The
    non-option atoms of c are independent of those of g (rename before calling when they come from different bodies)."""
    atoms = sorted(f_atoms(g) | f_atoms(c) | {"opt:" + x for ab in implications for x in ab})
    if len(atoms) > 16:
        return False
    for vals in itertools.product((False, True), repeat=len(atoms)):
        w = dict(zip(atoms, vals))
        if any(w["opt:" + a] and not w["opt:" + b] for a, b in implications):
            continue
        if f_eval(g, w) and not f_eval(c, w):
            return False
    return True


def call_index(prog):
    """callee path -> [(body, call node)] over the whole crate (both the trait item and the resolved impl method)"""
    idx = getattr(prog, "_c08_call_index", None)
    if idx is None:
        idx = {}
        for b in prog.bodies.values():
            for n in b.nodes:
                if n["k"] in ("Call", "MCall"):
                    for key in {n.get("resolved"), n.get("callee")} - {None}:
                        idx.setdefault(key, []).append((b, n))
        prog._c08_call_index = idx
    return idx


def conditional_results(prog, adt):
    """Option-typed fields of `adt` that some function fills with `Some(..)`.

    -> {field: {"cond": formula, "sites": [(body, assign node)], "unconditional": bool}}
    The condition of a site is its own guard chain conjoined with the disjunction of the guard chains of the calls of
    the assigning function (one level: `compute_x` is called from `gen`)."""
    a = prog.adts.get(adt)
    if not a:
        return {}
    opt_fields = {f["name"] for v in a["variants"] for f in v["fields"] if prog.types[f["ty"]].startswith("std::option::Option<")}
    idx = call_index(prog)
    out = {}
    for b in prog.bodies.values():
        for n in b.nodes:
            if n["k"] != "Assign":
                continue
            l = n["l"]
            if l.get("k") != "Field" or l.get("adt") != adt or l["f"] not in opt_fields:
                continue
            r = strip(n["r"])
            if not (r.get("k") == "Call" and short(r.get("ctor", "")) == "Some"):
                continue
            own = f_rename(guard_formula(b, n), "c:")
            callers = idx.get(b.path, [])
            if callers:
                own = f_and([own, f_or([f_rename(guard_formula(kb, kc), "c:") for kb, kc in callers])])
            ent = out.setdefault(l["f"], {"parts": [], "sites": []})
            ent["parts"].append(own)
            ent["sites"].append((b, n))
    for f, ent in out.items():
        ent["cond"] = f_or(ent.pop("parts"))
        ent["unconditional"] = entails(TRUE, ent["cond"])
    return out


_INV_CACHE = {}


def option_invariant(prog, a, b):
    """Is `options.a => options.b` an invariant of BindgenOptions?  True iff it holds for the default value and every
    body that assigns either field (or builds a BindgenOptions literal) preserves it, for all values of its bool
    parameters.  -> (bool, explanation)"""
    key = (id(prog), a, b)
    if key in _INV_CACHE:
        return _INV_CACHE[key]
    ka, kb = (OPTS, a), (OPTS, b)
    writers, literals, borrowed = [], [], []
    for body in prog.bodies.values():
        w = False
        for n in body.nodes:
            if n["k"] in ("Assign", "AssignOp") and n["l"].get("k") == "Field" and n["l"].get("adt") == OPTS and n["l"]["f"] in (a, b):
                w = True
            elif n["k"] == "Struct" and n.get("adt") == OPTS:
                literals.append((body, n))
            elif n["k"] == "AddrOf" and n.get("mut") and strip(n["e"]).get("k") == "Field" and strip(n["e"]).get("adt") == OPTS and \
                    strip(n["e"])["f"] in (a, b):
                borrowed.append(body.path)
        if w:
            writers.append(body)
    res = (True, "%d writer(s), %d literal(s)" % (len(writers), len(literals)))
    if borrowed:
        res = (False, "`&mut options.%s/%s` escapes in %s" % (a, b, borrowed[0]))
    pre = [(False, False), (False, True), (True, True)]
    for body, lit in literals:
        if not res[0]:
            break
        fs = {f["f"]: f["e"] for f in lit["fs"]}
        for sa, sb in pre:
            it = Interp(prog, state={ka: sa, kb: sb})
            try:
                va = it.ev(body, fs[a], {}) if a in fs else sa
                vb = it.ev(body, fs[b], {}) if b in fs else sb
            except (Undecidable, Panics) as e:
                va = vb = UNK
            if va is not False and vb is not True:
                res = (False, "a BindgenOptions literal in %s can hold %s=%s, %s=%s" % (body.path, a, vname(va), b, vname(vb)))
                break
    for body in writers:
        if not res[0]:
            break
        bools = [i for i, t in enumerate(body.fact.get("inputs", [])) if body.prog.types[t] == "bool"] \
            if body.fact.get("inputs") and isinstance(body.fact["inputs"][0], int) else \
            [i for i, p in enumerate(body.params) if p.get("t") is not None and body.prog.types[p["t"]] == "bool"]
        for combo in itertools.product((False, True), repeat=len(bools)):
            for sa, sb in pre:
                it = Interp(prog, state={ka: sa, kb: sb})
                args = [UNK] * len(body.params)
                for i, v in zip(bools, combo):
                    args[i] = v
                try:
                    it.call(body, args)
                    va, vb = it.state[ka], it.state[kb]
                except (Undecidable, Panics) as e:
                    va = vb = UNK
                if va is not False and vb is not True:
                    res = (False, "%s(%s) can leave %s=%s with %s=%s" % (short(body.path), ",".join(map(str, combo)), a, vname(va), b, vname(vb)))
                    break
            if not res[0]:
                break
    _INV_CACHE[key] = res
    return res


def check_guarded_unwraps(rep, adt, prefix="unwrap", only_fields=None, max_depth=4):
    """For every `self.<F>.unwrap()/expect()` of a conditionally computed Option field F of `adt`: the guard chain of the
    unwrap — extended through the callers of the enclosing function as long as necessary — implies the condition
    under which F is computed (modulo verified invariants between option flags).
    Emits one instance per unwrap site (`<prefix>:<F>@<fn>`) plus `computed:<F>` and `invariant:<a>=><b>`; returns the
    number of unwrap sites."""
    prog = rep.prog
    res = conditional_results(prog, adt)
    idx = call_index(prog)
    used_inv = {}

    def prove(g, c):
        if entails(g, c):
            return True
        opts_g = sorted(k[4:] for k in f_atoms(g) if k.startswith("opt:"))
        opts_c = sorted(k[4:] for k in f_atoms(c) if k.startswith("opt:"))
        impl = [(a, b) for a in opts_g for b in opts_c if a != b and option_invariant(prog, a, b)[0]]
        if impl and entails(g, c, impl):
            core = list(impl)          # a minimal sufficient subset (redundant implications are dropped in a fixed order)
            for ab in sorted(impl, reverse=True):
                rest = [x for x in core if x != ab]
                if entails(g, c, rest):
                    core = rest
            for ab in core:
                used_inv[ab] = option_invariant(prog, *ab)[1]
            return True
        return False

    def obligation(b, node, carried, c, depth, seen):
        """-> leaves [(ok, description, loc)]"""
        g = f_and([carried, guard_formula(b, node)])
        if prove(g, c):
            return [(True, "guarded by %s in %s" % (f_str(f_options_only(g)), short(b.path)), b.loc(node))]
        callers = list(idx.get(b.path, []))
        ti = b.fact.get("trait_item")
        if ti:
            callers += [x for x in idx.get(ti, []) if x not in callers]
        if depth <= 0 or not callers or b.path in seen:
            return [(False, "reached in %s under %s only" % (b.path, f_str(f_options_only(g))), b.loc(node))]
        out = []
        keep = f_options_only(g)
        for kb, kc in callers:
            out += obligation(kb, kc, keep, c, depth - 1, seen | {b.path})
        return out

    n_sites = 0
    for f, ent in sorted(res.items()):
        if only_fields is not None and f not in only_fields:
            continue
        cond = f_str(ent["cond"])
        rep.ok("computed:" + f, "`%s` is filled %s" % (f, "unconditionally" if ent["unconditional"] else "only when " + cond),
               ent["sites"][0][0].loc(ent["sites"][0][1]))
        for b in prog.bodies.values():
            for n in b.nodes:
                if n["k"] == "MCall" and n["name"] in UNWRAPS:
                    r = strip(n["recv"])
                    if r.get("k") == "Field" and r.get("adt") == adt and r["f"] == f:
                        n_sites += 1
                        key = "%s:%s@%s" % (prefix, f, short(b.path))
                        if ent["unconditional"]:
                            rep.ok(key, "always computed", b.loc(n))
                            continue
                        leaves = obligation(b, n, TRUE, ent["cond"], max_depth, frozenset())
                        bad = [l for l in leaves if not l[0]]
                        if bad:
                            rep.bad(key, "`%s` is computed only when %s, but its unwrap is %s" % (f, cond, bad[0][1]), bad[0][2])
                        else:
                            rep.ok(key, "`%s` (computed when %s): %s" % (f, cond, "; ".join(sorted({l[1] for l in leaves}))[:300]), b.loc(n))
    for (a, b), why in sorted(used_inv.items()):
        rep.ok("invariant:%s=>%s" % (a, b), "every setter keeps `%s` implying `%s` (%s)" % (a, b, why))
    return n_sites


@RULES.rule("R8.3", "a conditionally computed analysis result is only unwrapped under a guard that implies its condition", floor=32)
def r8_3(rep):
    """`compute_cannot_derive_hash` fills `cannot_derive_hash` only under `options.derive_hash`; `lookup_can_derive_hash`
    unwraps it.  Every path to the unwrap must carry a guard that implies the filling condition, otherwise bindgen
    panics on `None` (e.g. calling `lookup_can_derive_hash` from codegen without testing `derive_hash`, or computing the
    PartialEq/PartialOrd result under `derive_partialord || derive_partialeq` only while can_derive_eq reads it under
    `derive_eq`).  Implications between option flags (`derive_ord => derive_partialord`) are used only after checking
    that every Builder setter preserves them."""
    n = check_guarded_unwraps(rep, CTX)
    rep.check(n >= 10, "unwrap-sites", "%d unwrap sites of computed results" % n)


# =====================================================================================================
#  R8.4  derives_of_item, forward declarations, and the hand-written impls
# =====================================================================================================
DTR = "codegen::DerivableTraits::"
FIELD = "ir::comp::Field"


def flag_sites(b):
    """(flag name, node) for every place a DerivableTraits bit is added to a set: `x |= F`, `x.insert(F | ..)`"""
    out = []
    for n in b.walk():
        src = None
        if n["k"] == "AssignOp" and n["op"] == "|=":
            src = n["r"]
        elif n["k"] == "MCall" and n["name"] in ("insert", "set", "union") and n["args"]:
            src = n["args"][0]
        if src is None:
            continue
        for x in b.walk(src):
            if x["k"] == "Path" and x["def"].startswith(DTR):
                out.append((x["def"][len(DTR):], n))
    return out


def seq_in(tokens, *seq):
    n = len(seq)
    return any(tuple(tokens[i:i + n]) == tuple(seq) for i in range(len(tokens) - n + 1))


def member_accesses(b, q):
    """[(owner 'self'|'other', token, origin)] for every `self . X` / `other . X` in a quote site; origin = canonical
    definition of the interpolated local when X is `#x`, None for a literal field name"""
    ip = q.interps()
    out = []
    t = q.tokens
    for i in range(len(t) - 2):
        if t[i] in ("self", "other") and t[i + 1] == "." and (i == 0 or t[i - 1] != "."):
            x = t[i + 2]
            origin = None
            if x.startswith("#") and len(x) > 1:
                loc = ip.get(x[1:])
                origin = b.canon(loc, 6) if loc is not None else "?"
            out.append((t[i], x, origin))
    return out


def relative_guards(b, inner, outer):
    """guards of `inner` that are not already guards of `outer` (outer encloses inner)"""
    go = b.guards(outer)
    gi = b.guards(inner)
    return gi[len(go):] if gi[:len(go)] == go else gi


BITFIELD_NAMED = re.compile(r"^!?(std::option::Option::<T>::is_some\(|let std::prelude::v1::Some\(\w+\) = )<ir::comp::Bitfield as ir::comp::FieldMethods>::name\(")


def conds_text(b, gs):
    """flattened atoms (`!(a || b)` gives !a and !b) of the `cond` guards in gs"""
    return [("" if p else "!") + a for pol, kind, g in gs if kind == "cond" for a, p, _ in qq._atoms(b, g, pol)]


@RULES.rule("R8.4", "derives_of_item, forward declarations and the hand-written Default/Clone/Debug/PartialEq impls", floor=73)
def r8_4(rep):
    """Structure of `derives_of_item` (each DerivableTraits bit is set only under the matching CanDerive* answer and
    the per-item annotation; a packed type that is not Copy derives nothing at all — `#[derive(Debug)]` on a
    `#[repr(packed)]` non-Copy struct is error E0133/E0793), of the forward-declaration branch (only Debug), and of the
    manual impls: Default zero-fills the whole object including padding through `ptr::write_bytes(p, 0, 1)` on a
    `MaybeUninit<Self>`; `gen_partialeq_impl` contributes a comparison for every base, every data member and every
    named bit-field and joins them with `&&` (forgetting the `Field::Bitfields` arm makes two objects that differ
    only in a bit-field compare equal); both sides of every `==` name the same member; a manual impl is generated only
    when its options are on and the derive is impossible."""
    prog = rep.prog
    doi = rep.need(prog.fn("codegen::derives_of_item"), "codegen::derives_of_item")
    ci = rep.need(prog.impl_fn("codegen::CodeGenerator", "ir::comp::CompInfo", "codegen"), "<CompInfo as CodeGenerator>::codegen")
    spec = {k: v for k, v in ORACLE["derive_flags"].items() if not k.startswith("_")}

    # ---- A. derives_of_item ---------------------------------------------------------------------------
    sites = flag_sites(doi)
    rep.need(sites, "DerivableTraits bits set in derives_of_item")
    seen = set()
    for flag, n in sites:
        seen.add(flag)
        if flag not in spec:
            rep.bad("flag:" + flag, "DerivableTraits::%s is unknown to the oracle" % flag, doi.loc(n))
            continue
        atoms = qq.guard_atoms(doi, n)
        need = "ir::derive::CanDerive%s>::can_derive_%s(" % (spec[flag]["needs"], spec[flag]["needs"].lower())
        ok = qq.has_atom(atoms, need, True)
        ann = spec[flag].get("annotation")
        ok_ann = ann is None or qq.has_atom(atoms, "Annotations::" + ann, False)
        rep.check(ok and ok_ann, "flag:" + flag, "DerivableTraits::%s is set only when can_derive_%s%s (guards: %s)" %
                  (flag, spec[flag]["needs"].lower(), " and not " + ann if ann else "", [("" if p else "!") + short(a.split("(")[0]) for a, p, _ in atoms]),
                  doi.loc(n))
    for flag in sorted(set(spec) - seen):
        rep.bad("flag:" + flag, "DerivableTraits::%s is never set by derives_of_item: the trait is withheld from every type" % flag, doi.loc(doi.root))
    # packed types that are not Copy derive nothing
    packed_param = doi.params[2]["name"] if len(doi.params) > 2 and doi.params[2].get("k") == "Bind" else "packed"
    rets = [n for n in doi.walk() if n["k"] == "Ret"]
    early = [r for r in rets if qq.has_atom(qq.guard_atoms(doi, r), "param:" + packed_param, True) and
             qq.has_atom(qq.guard_atoms(doi, r), "CanDeriveCopy>::can_derive_copy(", False)]
    if rep.check(len(early) == 1, "packed:early-return", "derives_of_item returns early for `packed && !can_derive_copy` (%d such return(s))" % len(early),
                 doi.loc(doi.root)):
        r = early[0]
        ri = toplevel_index(doi, r)
        before = [(f, n) for f, n in sites if toplevel_index(doi, n) <= ri]
        after = [(f, n) for f, n in sites if toplevel_index(doi, n) > ri]
        ok_before = all(f in ("COPY", "CLONE") and qq.has_atom(qq.guard_atoms(doi, n), "CanDeriveCopy>::can_derive_copy(", True) for f, n in before)
        rep.check(ok_before and {f for f, _ in after} >= set(spec) - {"COPY", "CLONE"}, "packed:nothing-else",
                  "every bit other than COPY/CLONE is set after the early return (before: %s)" % sorted(f for f, _ in before), doi.loc(r))
        e = strip(r["e"]) if isinstance(r.get("e"), dict) else {}
        val = doi.canon(e, 3)
        if e.get("k") == "Local" and doi.local_def.get(e["id"], [("",)])[0][0] == "let":
            # the accumulator itself: nothing has been added to it on this path (checked above) and it starts empty
            accs = {strip(n["l"]).get("id") for _, n in sites if n["k"] == "AssignOp"}
            init = doi.local_def[e["id"]][0][1].get("init")
            val = doi.canon(init, 3) if init is not None and e["id"] in accs else val
        rep.check(val.endswith("::empty()"), "packed:returns-empty", "the early return yields the empty set (%s)" % val[:70], doi.loc(r))

    # ---- B. callers: forward declarations, packedness ----------------------------------------------------
    calls = [c for c in ci.calls(lambda x: x["k"] == "Call" and x.get("callee") == doi.path)]
    rep.need(calls, "call of derives_of_item in CompInfo::codegen")
    for c in calls:
        rep.check(qq.has_atom(qq.guard_atoms(ci, c), "CompInfo::is_forward_declaration", False), "forward-decl:not-derives_of_item",
                  "derives_of_item is consulted only for complete types", ci.loc(c))
        parg = strip(c["args"][2]) if len(c["args"]) > 2 else {}
        reprs = [x for x in ci.calls(lambda x: short(callee_of(x)) == "repr_list") if any(
            y["k"] == "Lit" and isinstance(y.get("v"), str) and "packed" in y["v"] for y in ci.walk(ci.parent[x["_i"]]))]
        reprs = reprs or [x for x in ci.calls(lambda x: short(callee_of(x)) == "repr_list")]
        same = parg.get("k") == "Local" and reprs and all(
            any(isinstance(g, dict) and strip(g).get("k") == "Local" and strip(g)["id"] == parg["id"] and p for _, p, g in qq.guard_atoms(ci, x)) for x in reprs)
        rep.check(bool(same), "packed:same-flag", "`#[repr(packed)]` is emitted only under the flag that is handed to derives_of_item", ci.loc(c))
    fwd = [(f, n) for f, n in flag_sites(ci) if qq.has_atom(qq.guard_atoms(ci, n), "CompInfo::is_forward_declaration", True)]
    rep.check(bool(fwd) and {f for f, _ in fwd} == {"DEBUG"}, "forward-decl:only-debug",
              "a forward declaration derives at most Debug (bits set: %s)" % sorted({f for f, _ in fwd}), ci.loc(fwd[0][1]) if fwd else ci.loc(ci.root))
    for f, n in fwd:
        rep.check(qq.has_atom(qq.guard_atoms(ci, n), "Annotations::disallow_debug", False), "forward-decl:nodebug",
                  "... and not when annotated nodebug", ci.loc(n))

    # ---- C. manual impls: when -----------------------------------------------------------------------------
    qs = qq.quote_sites(ci)
    impl_sites = {}
    for q in qs:
        t = q.tokens
        if t[:1] == ["impl"] and "for" in t:
            tr = t[t.index("for") - 1]
            impl_sites[tr] = q
    manual = {k: v for k, v in ORACLE["manual_impls"].items() if not k.startswith("_")}
    flagname = {"Debug": "DEBUG", "PartialEq": "PARTIAL_EQ", "Default": "DEFAULT"}
    for tr, m in sorted(manual.items()):
        q = impl_sites.get(tr)
        if q is None:
            rep.bad("manual:%s:site" % tr, "no `impl .. %s for ..` emission in CompInfo::codegen" % tr, ci.loc(ci.root))
            continue
        locals_ = [g for a, p, g in qq.guard_atoms(ci, q.root) if p and isinstance(g, dict) and strip(g).get("k") == "Local" and
                   ci.ty(strip(g)) == "bool"]
        if not rep.check(len(locals_) == 1, "manual:%s:site" % tr, "the impl is emitted under one boolean (%s)" %
                         [strip(g)["name"] for g in locals_], q.loc()):
            continue
        lid = strip(locals_[0])["id"]
        init = ci.local_def[lid][0][1].get("init") if ci.local_def[lid][0][0] == "let" else None
        asg = [n for n in ci.walk() if n["k"] == "Assign" and strip(n["l"]).get("k") == "Local" and strip(n["l"])["id"] == lid]
        starts_false = init is not None and strip(init).get("v") is False
        if not rep.check(starts_false and len(asg) == 1, "manual:%s:flag" % tr, "the boolean starts false and is decided once (%d assignment(s))" % len(asg),
                         q.loc()):
            continue
        a = asg[0]
        atoms = atoms_of(ci, a["r"]) + qq.guard_atoms(ci, a)
        for o in m["options"]:
            rep.check(any(opt_field(x) == o and p for _, p, x in atoms if isinstance(x, dict)), "manual:%s:option:%s" % (tr, o),
                      "impl %s requires `%s`" % (tr, o), ci.loc(a))
        for e in m["excluded_by"]:
            rep.check(qq.has_atom(atoms, e, False), "manual:%s:not:%s" % (tr, e), "impl %s is not written when %s" % (tr, e), ci.loc(a))
        rep.check(any("DerivableTraits>::contains(" in s and DTR + flagname[tr] in s and not p for s, p, _ in atoms) or
                  any("contains(" in s and not p and flagname[tr] in ci.canon(x, 8) for s, p, x in atoms if isinstance(x, dict)),
                  "manual:%s:only-if-not-derived" % tr, "impl %s is written only when %s is not derived" % (tr, tr), ci.loc(a))
        if m["requires_manually"]:
            rep.check(qq.has_atom(atoms, CD + "::Manually", True), "manual:%s:only-if-manually" % tr,
                      "impl %s is written only when the analysis answered Manually (a `No` means a constituent that cannot "
                      "support %s, which a hand-written impl would have to touch as well)" % (tr, tr), ci.loc(a))
    # Clone rides on Copy
    q = impl_sites.get("Clone")
    if rep.check(q is not None, "manual:Clone:site", "`impl Clone` emission exists", ci.loc(ci.root)):
        rep.check(seq_in(q.tokens, "{", "*", "self", "}"), "manual:Clone:body", "clone() is `*self`", q.loc())
        locals_ = [strip(g)["id"] for a, p, g in qq.guard_atoms(ci, q.root) if p and isinstance(g, dict) and strip(g).get("k") == "Local"]
        asg = [n for n in ci.walk() if n["k"] == "Assign" and strip(n["l"]).get("k") == "Local" and strip(n["l"])["id"] in locals_]
        gs = [ci.canon(x, 8) + (":T" if pol else ":F") for n in asg for _, pol, x in qq.guard_atoms(ci, n) if isinstance(x, dict) and x.get("k")]
        rep.check(any(DTR + "COPY" in g and g.endswith(":T") for g in gs) and any(DTR + "CLONE" in g and g.endswith(":F") for g in gs),
                  "manual:Clone:when", "impl Clone is written only for a Copy type whose Clone is not derived", q.loc())

    # ---- D. Default body ------------------------------------------------------------------------------------
    q = impl_sites.get("Default")
    if q is not None:
        body_loc = q.interps().get("body")
        bq = None
        if body_loc is not None:
            init = ci.local_init(body_loc["id"])
            bq = [x for x in qs if init is not None and any(y is x.root for y in ci.walk(init))]
        if rep.check(bool(bq), "default-impl:body", "the body of `fn default()` is a quote! bound to the interpolated local", q.loc()):
            t = bq[0].tokens
            var = t[t.index("write_bytes") + 2] if "write_bytes" in t and t.index("write_bytes") + 2 < len(t) else "?"
            rep.check(seq_in(t, "write_bytes", "(", var, ".", "as_mut_ptr", "(", ")", ",", "0", ",", "1", ")"), "default-impl:zero-fill",
                      "`ptr::write_bytes(%s.as_mut_ptr(), 0, 1)`: every byte of one whole object, padding included, is zeroed" % var, bq[0].loc())
            rep.check(seq_in(t, "let", "mut", var, "=") and seq_in(t, "MaybeUninit", "::", "<", "Self", ">", "::", "uninit", "(", ")"),
                      "default-impl:maybe-uninit", "the object is a `MaybeUninit::<Self>::uninit()` (not `mem::zeroed()`, which may leave padding undefined)",
                      bq[0].loc())
            rep.check(seq_in(t, var, ".", "assume_init", "(", ")", "}") and not seq_in(t, "zeroed"), "default-impl:returns-it",
                      "the zero-filled object itself is returned", bq[0].loc())
        rep.check(seq_in(q.tokens, "fn", "default", "(", ")", "->", "Self", "{", "#body", "}"), "default-impl:fn", "`fn default() -> Self { #body }`", q.loc())

    # ---- E. PartialEq generator -----------------------------------------------------------------------------------
    pe = rep.need(prog.fn("codegen::impl_partialeq::gen_partialeq_impl"), "gen_partialeq_impl")
    pqs = qq.quote_sites(pe)
    fin = [x for x in pqs if seq_in(x.tokens, "fn", "eq")]
    if rep.check(len(fin) == 1, "partialeq:fn-eq", "one `fn eq` emission", pe.loc(pe.root)):
        t = fin[0].tokens
        i = t.index("#(") if "#(" in t else -1
        vecname = t[i + 1] if i >= 0 else "?"
        rep.check(i >= 0 and t[i + 2:i + 5] == [")", "&&", "*"] and "||" not in t, "partialeq:conjunction",
                  "the member comparisons are joined with `&&` (%s)" % " ".join(t[i:i + 5]), fin[0].loc())
        vec = fin[0].interps().get(vecname[1:])
        vid = vec["id"] if vec is not None else None
        pushes = [c for c in pe.calls(lambda x: x["k"] == "MCall" and x["name"] in ("push", "extend") and strip(x["recv"]).get("id") == vid)]
        loops = [n for n in pe.walk() if n["k"] == "For"]
        floops = [l for l in loops if "CompInfo::fields" in pe.canon(l["iter"], 4)]
        bloops = [l for l in loops if "CompInfo::base_members" in pe.canon(l["iter"], 4)]
        # bases
        bp = [c for c in pushes if any(c is x for l in bloops for x in pe.walk(l["body"]))]
        okb = bool(bp) and all(all("Base::requires_storage" in s for s in conds_text(pe, relative_guards(pe, c, l))) for l in bloops for c in bp
                               if any(c is x for x in pe.walk(l["body"])))
        rep.check(okb, "partialeq:bases", "every base member that occupies storage contributes a comparison", pe.loc(bloops[0]) if bloops else pe.loc(pe.root))
        # fields
        ms = [n for l in floops for n in pe.walk(l["body"]) if n["k"] == "Match" and (pe.ty(strip(n["scrut"])) or "").lstrip("&") == FIELD]
        if rep.check(len(ms) == 1, "partialeq:fields-loop", "the loop over CompInfo::fields matches on the field kind", pe.loc(floops[0]) if floops else pe.loc(pe.root)):
            m = ms[0]
            have = set()
            for a in m["arms"]:
                vs = pat_variants(a["pat"])
                ap = [c for c in pushes if any(c is x for x in pe.walk(a["body"]))]
                for v in vs:
                    have.add(v)
                    name = short(v) if v != "_" else "_"
                    rel = [s for c in ap for s in conds_text(pe, relative_guards(pe, c, a["body"]))]
                    allowed = all(BITFIELD_NAMED.search(s) for s in rel) if name == "Bitfields" else not rel
                    rep.check(bool(ap) and allowed and v != "_", "partialeq:arm:" + name,
                              "`Field::%s` contributes a comparison for every %s (conditions: %s)" %
                              (name, "named bit-field" if name == "Bitfields" else "member", rel or "none"), pe.loc(a["body"]))
            for v in variants(prog, FIELD):
                if "%s::%s" % (FIELD, v) not in have:
                    rep.bad("partialeq:arm:" + v, "`Field::%s` is not handled by an arm of its own: such members are not compared" % v, pe.loc(m))
        # the non-field forms compare the whole storage
        for q in pqs:
            if "==" in q.tokens and not seq_in(q.tokens, "fn", "eq"):
                acc = member_accesses(pe, q)
                l = [(x, o) for w, x, o in acc if w == "self"]
                r = [(x, o) for w, x, o in acc if w == "other"]
                same = bool(l) and [o or x for x, o in l] == [o or x for x, o in r]
                named = all(o is None or "rust_ident" in o for _, x, o in acc)
                rep.check(same and named, "partialeq:same-member:" + (l[0][0].lstrip("#") if l else "?"),
                          "both sides of `==` name the same member (%s vs %s)" % ([x for x, _ in l], [x for x, _ in r]), q.loc())
    gf = rep.need(prog.fn("codegen::impl_partialeq::gen_field"), "impl_partialeq::gen_field")
    _check_kind_arms(rep, gf, "partialeq", lambda names: names & {"quote_equals", "gen_field"}, "PartialEqOrPartialOrd")
    # a member's comparison is a value, not an option: `eq` is hand-written exactly because some member's own PartialEq cannot be
    # derived, and that member is the one a "skip what we are not sure about" would leave out
    out = prog.types[gf.fact["output"]] if gf.fact.get("output") is not None else "?"
    rep.check(out.endswith("TokenStream") and "Option" not in out and "Vec" not in out, "partialeq:member-comparison-total",
              "`gen_field` returns the comparison itself (`%s`)" % out if out.endswith("TokenStream") and "Option" not in out else
              "`gen_field` returns `%s`: a member may contribute no comparison, and two objects differing only in it compare equal" % out,
              gf.loc(gf.root))
    early = [(a, pol) for n in gf.walk() if n["k"] == "Ret" for a, pol, _ in qq.guard_atoms(gf, n)]
    rep.check(not early, "partialeq:member-comparison-no-early-exit", "no early exit in `gen_field`" if not early else
              "`gen_field` leaves early when `%s%s`" % ("" if early[0][1] else "!", early[0][0][:100]), gf.loc(gf.root))

    # ---- F. Debug generator ------------------------------------------------------------------------------------------
    gd = rep.need(prog.fn("codegen::impl_debug::gen_debug_impl"), "gen_debug_impl")
    ms = [n for n in gd.walk() if n["k"] == "Match" and (gd.ty(strip(n["scrut"])) or "").lstrip("&") == FIELD]
    if rep.check(len(ms) == 1, "debug:fields", "gen_debug_impl matches on the field kind", gd.loc(gd.root)):
        have = set()
        for a in ms[0]["arms"]:
            cs = [c for c in gd.calls(lambda x: x["k"] == "MCall" and x.get("trait", "").endswith("ImplDebug") and x["name"] == "impl_debug", a["body"])]
            for v in pat_variants(a["pat"]):
                have.add(v)
                rep.check(bool(cs) and v != "_", "debug:arm:" + short(v), "`Field::%s` is formatted through ImplDebug" % short(v), gd.loc(a["body"]))
        for v in variants(prog, FIELD):
            if "%s::%s" % (FIELD, v) not in have:
                rep.bad("debug:arm:" + v, "`Field::%s` has no arm: such members are missing from the output" % v, gd.loc(ms[0]))
    fin = [x for x in qq.quote_sites(gd) if seq_in(x.tokens, "fn", "fmt")]
    rep.check(len(fin) == 1 and seq_in(fin[0].tokens, "write", "!", "(", "f", ",", "#(", "#tokens", ")", ",", "*", ")"), "debug:write",
              "fmt() is one `write!(f, #(#tokens),*)`: no unwrap/indexing that could panic", gd.loc(gd.root))
    bu = rep.need(prog.impl_fn("codegen::impl_debug::ImplDebug", "ir::comp::BitfieldUnit", "impl_debug"), "<BitfieldUnit as ImplDebug>::impl_debug")
    for q in qq.quote_sites(bu):
        acc = member_accesses(bu, q)
        if acc:
            rep.check(all(o is not None and "rust_ident" in o and "Bitfield::getter_name" in o for _, x, o in acc), "debug:bitfield-getter",
                      "a bit-field is printed through its own getter (%s)" % [(x, (o or "")[:50]) for _, x, o in acc], q.loc())
            rel = conds_text(bu, relative_guards(bu, q.root, bu.root))
            rep.check(all(BITFIELD_NAMED.search(s) for s in rel), "debug:bitfield-all", "every named bit-field is printed (conditions: %s)" % (rel or "none"), q.loc())
    ib = rep.need(prog.impl_fn("codegen::impl_debug::ImplDebug", "ir::item::Item", "impl_debug"), "<Item as ImplDebug>::impl_debug")
    _check_kind_arms(rep, ib, "debug", lambda names: names & {"debug_print", "impl_debug"}, None)


def _check_kind_arms(rep, b, what, delegates, reach_trait):
    """Per arm of the match over TypeKind in a per-member generator: every `self.<x>` it emits names the member that was
    asked for (an interpolation that comes from rust_ident(name)), directly or through the local helper."""
    prog = rep.prog
    ms = [n for n in b.walk() if n["k"] == "Match" and (b.ty(strip(n["scrut"])) or "").lstrip("&") == TK]
    rep.need(ms, "match over TypeKind in " + b.path)
    m = max(ms, key=lambda n: len(n["arms"]))
    sites = qq.quote_sites(b)
    it = Interp(prog)
    for a in m["arms"]:
        kinds = sorted(short(v) for v in pat_variants(a["pat"]))
        key = "%s:names-member:%s" % (what, "+".join(kinds) if len(kinds) <= 2 else "%s+%d" % (kinds[0], len(kinds) - 1))
        inside = [q for q in sites if any(x is q.root for x in b.walk(a["body"]))]
        accs = [(q, acc) for q in inside for acc in member_accesses(b, q)]
        bad = [(q, x, o) for q, (w, x, o) in accs if o is None or "rust_ident" not in o]
        if bad and reach_trait == "PartialEqOrPartialOrd" and kinds == ["Vector"]:
            cv = prog.fn(DT + "::can_derive_vector")
            if cv is not None and result_name(it, cv, [_dt(reach_trait)]) == "No":
                rep.ok(key, "unreachable: a vector member makes the container `No` for %s, so no manual impl is written" % reach_trait, b.loc(a["body"]))
                continue
        if bad:
            q, x, o = bad[0]
            rep.bad(key, "the tokens emitted for a %s member access `self.%s` (%s) instead of the member that was asked for" %
                    ("/".join(kinds), x, (o or "a literal")[:70]), q.loc())
            continue
        names = {short(callee_of(c)) for c in b.calls(None, a["body"]) if not b.macro_name(c)}
        how = "accesses self.<name>" if accs else ("delegates to %s" % sorted(delegates(names)) if delegates(names) else "emits no member access")
        rep.ok(key, "%s member: %s" % ("/".join(kinds), how), b.loc(a["body"]))
    # the local helper (debug_print / quote_equals) must itself access `self.#<its parameter>`
    for p, hb in prog.bodies.items():
        if p.startswith(b.path + "::") and hb.kind == "Fn":
            for q in qq.quote_sites(hb):
                for w, x, o in member_accesses(hb, q):
                    rep.check(o is not None and o.startswith("param:"), "%s:helper:%s:%s" % (what, short(p), w),
                              "%s accesses `%s.%s` = its parameter" % (short(p), w, x), q.loc())


# =====================================================================================================
#  R8.6  helper types that bindgen emits implement every trait the tables promise for what they stand for
# =====================================================================================================
EXPAND = {"Copy": ["Copy", "Clone"], "Debug": ["Debug"], "Default": ["Default"], "Hash": ["Hash"],
          "PartialEqOrPartialOrd": ["PartialEq", "PartialOrd"]}


def helper_definition(prog, name):
    """-> (body, loc, set of traits the emitted helper type `name` implements) or None.
    The helper is found by its `struct <name>` tokens in a quote! of crate `codegen` (or `struct #ident` next to a string
    literal `<name>` for computed names, or the text included with include_str!)."""
    for p, b in prog.bodies.items():
        if not p.startswith("codegen::"):
            continue
        lits = [n["v"] for n in b.walk() if n["k"] == "Lit" and isinstance(n.get("v"), str) and name in n["v"]]
        if not lits:
            continue
        for v in lits:
            m = re.search(r"#\[derive\(([^)]*)\)\]\s*(?:#\[[^\]]*\]\s*)*pub\s+struct\s+" + re.escape(name) + r"\b", v)
            if m:
                return b, b.loc(b.root), {x.strip() for x in m.group(1).split(",") if x.strip()}
        qs = qq.quote_sites(b)
        decl = None
        for q in qs:
            t = q.tokens
            for i, tok in enumerate(t[:-1]):
                if tok == "struct" and (t[i + 1] == name or t[i + 1].startswith("#")):
                    decl = (q, t[i + 1])
        if decl is None:
            continue
        q0, ident = decl
        traits = set()
        for q in qs:
            t = q.tokens
            for i, tok in enumerate(t):
                if tok == "derive" and i + 1 < len(t) and t[i + 1] == "(" and q is q0:
                    j = i + 2
                    while j < len(t) and t[j] != ")":
                        if t[j] != ",":
                            traits.add(t[j])
                        j += 1
                if tok == "for" and 0 < i < len(t) - 1 and t[i + 1] in (name, ident) and "impl" in t[:i]:
                    traits.add(t[i - 1])
        return b, q0.loc(), traits
    return None


@RULES.rule("R8.6", "bindgen's own helper types implement every trait the tables promise for the constituent they replace", floor=41)
def r8_6(rep):
    """The analysis answers Yes for a constituent on the assumption that the Rust type emitted for it implements the trait.
    For constituents that bindgen replaces by a helper type of its own (`__BindgenComplex<T>` for `_Complex`, `__BindgenFloat16`,
    `__BindgenOpaqueArray*` for opaque blobs, `__BindgenUnionField<T>` for unions that are not Rust unions,
    `__IncompleteArrayField<T>`, `__BindgenBitfieldUnit`) the helper's derive list / impls must therefore contain every trait
    for which the extracted table says Yes.  Breaks: removing `Hash` from `__BindgenOpaqueArray`'s derive list makes
    `--with-derive-hash --opaque-type T` emit `#[derive(Hash)]` on a struct whose only field does not implement Hash."""
    prog = rep.prog
    it = Interp(prog)
    simple = dt_method(rep, "can_derive_simple")
    inc = dt_method(rep, "can_derive_incomplete_array")
    for name, ent in sorted(ORACLE["helper_types"].items()):
        if name == "_what":
            continue
        d = helper_definition(prog, name)
        if d is None:
            rep.bad("helper:%s" % name, "the definition of helper type %s was not found in crate codegen" % name)
            continue
        b, loc, have = d
        sf = ent["stands_for"]
        if sf.startswith("simple:"):
            kind = sf.split(":")[1]
            yes = [t for t in TRAITS if result_name(it, simple, [_dt(t), V("%s::%s" % (TK, kind), None)]) == "Yes"]
            why = "can_derive_simple(_, %s) answers Yes" % kind
        elif sf == "incomplete_array":
            yes = [t for t in TRAITS if result_name(it, inc, [_dt(t)]) == "true"]
            why = "can_derive_incomplete_array answers true"
        else:
            yes = list(TRAITS)
            why = {"opaque": "an opaque item answers Yes for every trait (R8.5 opaque:all-traits)",
                   "union-without-rust-union": "a union that is not emitted as a Rust union answers Yes for every trait but Copy, and Copy is joined over its fields",
                   "bitfield-unit": "a bit-field unit is a member of its struct for every trait"}.get(sf, sf)
        need = [x for t in yes for x in EXPAND[t]]
        if "PartialEqOrPartialOrd" in yes and not ent["has_float"]:
            need += ["Eq", "Ord"]
        for tr in need:
            rep.check(tr in have, "helper:%s:%s" % (name, tr),
                      "%s %s %s (it has %s); needed because %s%s" % (name, "implements" if tr in have else "does NOT implement", tr, sorted(have), why,
                                                                     "" if tr not in ("Eq", "Ord") else " and it holds no float"), loc)


# =====================================================================================================
#  R8.7  per-item exclusions applied by derives_of_item are also known to the analysis
# =====================================================================================================
@RULES.rule("R8.7", "every per-item reason to withhold a derive is also seen by the CannotDerive analysis (it must reach containers)", floor=3)
def r8_7(rep):
    """`derives_of_item` may withhold a trait from an item for reasons of its own (`<div rustbindgen nocopy>` ..).  A type
    that *contains* such an item still derives the trait unless the fix-point analysis knows the same reason — and then
    the output does not compile (`#[derive(Copy)]` on a struct with a non-Copy member, E0204).  So every condition that
    guards a DerivableTraits bit besides the CanDerive* answer - including "packed and not Copy" - must be consulted on the analysis side
    (CannotDerive::constrain_type / DeriveTrait::not_by_name, two call levels)."""
    prog = rep.prog
    doi = rep.need(prog.fn("codegen::derives_of_item"), "codegen::derives_of_item")
    roots = cannot_derive_bodies(prog) + [b for p, b in prog.bodies.items() if p.startswith(DT + "::")]
    rep.need(roots, "CannotDerive methods")
    seen_callees, seen_fields = set(), set()
    frontier = list(roots)
    for depth in range(3):
        nxt = []
        for b in frontier:
            for n in b.nodes:
                if n["k"] in ("Call", "MCall"):
                    for c in {n.get("resolved"), n.get("callee")} - {None}:
                        if c not in seen_callees:
                            seen_callees.add(c)
                            if c in prog.bodies:
                                nxt.append(prog.bodies[c])
                elif n["k"] == "Field" and "adt" in n:
                    seen_fields.add((n["adt"], n["f"]))
        frontier = nxt
    getters = prog.getters()
    packed_param = doi.params[2]["name"] if len(doi.params) > 2 and doi.params[2].get("k") == "Bind" else "packed"
    done = set()
    for flag, n in flag_sites(doi):
        for a, pol, x in qq.guard_atoms(doi, n):
            if not isinstance(x, dict) or ("CanDerive" in a and "can_derive_" in a and not (a.startswith("all(") and ("param:" + packed_param) in a)):
                continue
            if a == "param:" + packed_param or (a.startswith("all(") and ("param:" + packed_param) in a):
                # "packed and not Copy => derive nothing" is such a reason as well: the item loses every trait, its containers do not
                if "packed" in done:
                    continue
                done.add("packed")
                vis = any("is_packed" in c for c in seen_callees)
                rep.check(vis, "exclusion-seen-by-analysis:packed-without-copy",
                          "a packed item that is not Copy derives nothing, %s" % ("and the CannotDerive analysis knows about packed items" if vis else
                          "but the CannotDerive analysis never looks at packedness: a struct that contains such an item still derives Debug / "
                          "Default / Hash / PartialEq over it (E0277)"), doi.loc(n))
                continue
            e = strip(x)
            name = callee_of(e) if e.get("k") in ("Call", "MCall") else ("%s::%s" % (e.get("adt"), e.get("f")) if e.get("k") == "Field" else a[:60])
            if name in done:
                continue
            done.add(name)
            vis = name in seen_callees or getters.get(name) in seen_fields or (e.get("k") == "Field" and (e.get("adt"), e.get("f")) in seen_fields)
            rep.check(vis, "exclusion-seen-by-analysis:" + short(name),
                      "DerivableTraits::%s is withheld from an item when %s%s, %s" %
                      (flag, "not " if pol else "", short(name), "and the CannotDerive analysis consults it too" if vis else
                       "but the CannotDerive analysis never looks at it: a struct that contains such an item still derives the trait"), doi.loc(n))


RULES.rules.sort(key=lambda r: r.id)


# ---- added by the main session after independently seeded changes ------------------------------------------------------------
@RULES.rule("R8.8", "the analyses that feed the derives re-queue on every fact they read (shared with C07 R7.1)", floor=40)
def r8_8(rep):
    """Eq/Ord are withheld through `has_float`: when `HasFloat::consider_edge` loses `TemplateDeclaration`, an instantiation visited
    before its template definition is never revisited and `struct Reading { Scaled<int> value; }` derives Eq although the definition
    of `Scaled` has a float member (caught by C07's rule only when it was seeded as a C08 change)."""
    import c07
    c07.r7_1(rep)


def _formula(b, e):
    e = strip(e)
    k = e.get("k")
    if k == "Unary" and e["op"] == "!":
        return ("not", _formula(b, e["e"]))
    if k == "Binary" and e["op"] in ("&&", "||"):
        return ("and" if e["op"] == "&&" else "or", _formula(b, e["l"]), _formula(b, e["r"]))
    if k == "Local":
        init = b.local_init(e["id"])
        if init is not None and strip(init).get("k") in ("Unary", "Binary", "Local"):
            return _formula(b, init)
    return ("atom", b.canon(e, 6))


def _reach(b, n):
    f = ("true",)
    for pol, kind, g in b.guards(n, nested=True):
        if kind == "cond":
            x = _formula(b, g)
        elif kind in ("arm", "notarm"):
            x = ("atom", "arm:%s:%d" % (b.canon(g[0]["scrut"], 4), g[1]))
        else:
            x = ("atom", "%s:%d" % (kind, id(g) % 100000))
        f = ("and", f, x if pol else ("not", x))
    return f


def _atoms(f, acc):
    if f[0] == "atom":
        acc.add(f[1])
    for x in f[1:]:
        if isinstance(x, tuple):
            _atoms(x, acc)
    return acc


def _ev(f, env):
    t = f[0]
    if t == "true":
        return True
    if t == "atom":
        return env[f[1]]
    if t == "not":
        return not _ev(f[1], env)
    if t == "and":
        return _ev(f[1], env) and _ev(f[2], env)
    return _ev(f[1], env) or _ev(f[2], env)


@RULES.rule("R8.9", "a packed type that does not get Copy derives nothing at all (decided over all combinations of the conditions)", floor=2)
def r8_9(rep):
    """`#[derive(Debug)]` on a `#[repr(packed)]` struct borrows its fields, which is only allowed for Copy types.  In
    `derives_of_item` every path on which `packed` holds and the COPY bit is not set must take the early `return`.  Un-nesting
    `if can_derive_copy && !disallow_copy {..} else if packed {return}` into `if can_derive_copy { if !disallow_copy {..} } else if packed`
    lets a packed struct annotated `nocopy` keep Debug/Default/Hash/PartialEq (E0507 / unaligned reference)."""
    import itertools
    prog = rep.prog
    cands = [b for p, b in prog.bodies.items() if p.endswith("::derives_of_item")]
    rep.need(cands, "derives_of_item")
    b = cands[0]
    sets = [n for n in b.walk() if n["k"] == "AssignOp" and n["op"] == "|=" and "DerivableTraits::COPY" in b.canon(n["r"], 6)]
    rets = [n for n in b.walk() if n["k"] == "Ret"]
    rep.need(sets, "`derivable_traits |= COPY` in derives_of_item")
    copy_f = ("false",)
    copy_f = None
    for s in sets:
        f = _reach(b, s)
        copy_f = f if copy_f is None else ("or", copy_f, f)
    ret_f = None
    for r in rets:
        f = _reach(b, r)
        # only early returns taken before any other bit is set (the packed early return)
        ret_f = f if ret_f is None else ("or", ret_f, f)
    if not rep.check(ret_f is not None, "packed-early-return-exists", "derives_of_item has an early return", b.loc(b.root)):
        return
    atoms = sorted(_atoms(copy_f, set()) | _atoms(ret_f, set()))
    packed_atoms = [a for a in atoms if a == "param:packed" or a.endswith("packed")]
    if not rep.check(len(packed_atoms) == 1, "packed-atom", "the early return depends on `packed` (atoms: %s)" % [a[:40] for a in atoms], b.loc(b.root)):
        return
    pk = packed_atoms[0]
    bad = None
    n = 0
    for vals in itertools.product([False, True], repeat=len(atoms)):
        env = dict(zip(atoms, vals))
        if not env[pk]:
            continue
        n += 1
        if not _ev(copy_f, env) and not _ev(ret_f, env):
            bad = env
            break
    rep.check(bad is None, "packed-without-copy-derives-nothing",
              "over %d combinations: packed and COPY not set implies the early return%s" %
              (n, (" — counterexample: " + ", ".join("%s=%s" % (k.split("::")[-1][:30], v) for k, v in bad.items())) if bad else ""), b.loc(sets[0]))
    # other bits are only added after that return
    others = [n_ for n_ in b.walk() if n_["k"] == "AssignOp" and n_["op"] == "|=" and "DerivableTraits::" in b.canon(n_["r"], 6) and n_ not in sets
              and "DerivableTraits::CLONE" not in b.canon(n_["r"], 6)]
    first_ret = min(r["_i"] for r in rets)
    rep.check(all(o["_i"] > first_ret for o in others), "other-bits-after-packed-return", "every other derive bit is added after the packed early return", b.loc(b.root))


@RULES.rule("R8.10", "a packed type without Copy gets no hand-written Debug either (the impl borrows every field)", floor=1)
def r8_10(rep):
    """The hand-written `impl Debug` formats `self.field` by reference, exactly what `#[derive(Debug)]` would do; for a packed type
    that is only allowed when the type is Copy (R8.9 withholds every derive otherwise).  `derives_of_item` returning the empty
    set makes `!derivable_traits.contains(DEBUG)` true, so without its own packed test the manual impl is requested for
    `struct __attribute__((packed)) P { char c; int x; }` with `--no-copy P --impl-debug` (E0793)."""
    import itertools
    prog = rep.prog
    b = rep.need(prog.impl_fn("codegen::CodeGenerator", "ir::comp::CompInfo", "codegen"), "<CompInfo as CodeGenerator>::codegen")
    # the local that requests the manual Debug impl: the one that guards the gen_debug_impl call
    gens = [c for c in b.calls(lambda n: n["k"] == "Call" and (n.get("callee") or "").endswith("impl_debug::gen_debug_impl"))]
    rep.need(gens, "call of impl_debug::gen_debug_impl in CompInfo::codegen")
    flag = None
    for pol, kind, g in b.guards(gens[0]):
        if kind == "cond" and pol and strip(g).get("k") == "Local":
            flag = strip(g)["id"]
    rep.need(flag is not None, "the flag guarding gen_debug_impl")
    asg = [n for n in b.nodes if n["k"] == "Assign" and strip(n["l"]).get("k") == "Local" and strip(n["l"])["id"] == flag]
    rep.need(asg, "assignments of the manual-Debug flag")
    # the packed flag: initialised from CompInfo::is_packed
    pk = [n["pat"]["id"] for n in b.nodes if n["k"] == "Let" and n["pat"].get("k") == "Bind" and n.get("init") is not None and
          (strip(n["init"]).get("callee") or strip(n["init"]).get("resolved") or "").endswith("CompInfo::is_packed")]
    rep.need(pk, "`let packed = self.is_packed(..)`")
    f = None
    for a in asg:
        x = ("and", _reach(b, a), _formula(b, a["r"]))
        f = x if f is None else ("or", f, x)
    atoms = sorted(_atoms(f, set()))
    pk_atoms = [a for a in atoms if a in ("local:%s" % nm for nm in {d[2]["name"] for lid, d in b.local_def.items() if lid in pk})
                or "CompInfo::is_packed(" in a]
    copy_atoms = [a for a in atoms if "DerivableTraits::COPY" in a and "contains" in a]
    bad = None
    n = 0
    if pk_atoms and copy_atoms:
        for vals in itertools.product([False, True], repeat=len(atoms)):
            env = dict(zip(atoms, vals))
            if not all(env[a] for a in pk_atoms) or any(env[a] for a in copy_atoms):
                continue
            n += 1
            if _ev(f, env):
                bad = env
                break
    ok = bool(pk_atoms) and bool(copy_atoms) and bad is None
    rep.check(ok, "manual-debug-not-for-packed-noncopy",
              "over %d combinations: packed and COPY not derived implies no hand-written Debug" % n if ok else
              "the request for a hand-written Debug impl %s: a packed type that is not Copy gets `impl Debug` that borrows its fields" %
              ("does not look at `packed` / the COPY bit" if not (pk_atoms and copy_atoms) else "can be true for packed, non-Copy types"),
              b.loc(asg[0]))


@RULES.rule("R8.11", "a blocklisted type is only vouched for as a primitive when codegen really maps it to one (shared with C09 R9.5)", floor=14)
def r8_11(rep):
    """`blocklisted_type_implements_trait` answers Yes for every trait of a blocklisted `<stdint.h>`-style typedef because codegen
    replaces it by a Rust primitive (`is_stdint_type`).  `size_t`/`ssize_t` are only replaced under `size_t_is_usize`; answering
    Yes unconditionally derives Debug/Copy/Hash/PartialEq/Eq through a user-supplied `size_t` nobody vouched for
    (`--no-size_t-is-usize --blocklist-type size_t`)."""
    import c09
    c09.r9_5(rep)


@RULES.rule("R8.12", "the <stdint.h> exception for blocklisted types does not depend on whether any callback is registered", floor=1)
def r8_12(rep):
    """A blocklisted `uint32_t` is still spelled `u32`, so a struct holding it keeps its derives.  That exception has to apply
    whenever no callback claims the type; making it the `parse_callbacks.is_empty()` branch means that registering ANY callback
    (`--with-derive-custom 'Unrelated=Clone'`) strips `#[derive(Debug, Copy, Clone)]` from every struct with a blocklisted stdint
    member."""
    prog = rep.prog
    b = rep.need(prog.fn("ir::context::BindgenContext::blocklisted_type_implements_trait"), "BindgenContext::blocklisted_type_implements_trait")
    cs = [c for c in b.calls(lambda n: n["k"] == "MCall" and (n.get("callee") or n.get("resolved") or "").endswith("BindgenContext::is_stdint_type"))]
    rep.need(cs, "the is_stdint_type test in blocklisted_type_implements_trait")
    for c in cs:
        dep = [g for pol, kind, g in b.guards(c, nested=True) if kind == "cond" and "parse_callbacks" in b.canon(g, 6) and "is_empty" in b.canon(g, 6)]
        rep.check(not dep, "stdint-exception-independent-of-callbacks",
                  "the stdint exception is applied whether or not callbacks are registered" if not dep else
                  "the stdint exception is only reached when `parse_callbacks.is_empty()`: with any callback registered a blocklisted "
                  "`uint32_t` member makes the containing struct lose every derive", b.loc(c))


DERIVE_OPTION = {"DEBUG": "derive_debug", "DEFAULT": "derive_default", "HASH": "derive_hash", "PARTIAL_ORD": "derive_partialord",
                 "ORD": "derive_ord", "PARTIAL_EQ": "derive_partialeq", "EQ": "derive_eq", "COPY": "derive_copy", "CLONE": "derive_copy"}


@RULES.rule("R8.13", "every place that grants a derive consults the user's switch for that trait", floor=9)
def r8_13(rep):
    """`derives_of_item` grants a trait through `can_derive_<trait>` (which answers No when the option is off).  The short cut for
    forward declarations in `CompInfo::codegen` grants Debug on its own and must ask the same questions: without them
    `struct Fwd;` gets `#[derive(Debug)]` under `--no-derive-debug` and under `--no-debug Fwd`."""
    prog = rep.prog
    n = 0
    for p, b in sorted(prog.bodies.items()):
        if not p.startswith(("codegen::", "<")) or "codegen" not in p:
            continue
        for a in b.nodes:
            if a["k"] != "AssignOp" or a["op"] not in ("|", "|="):
                continue
            src = b.canon(a["r"], 4)
            m = re.search(r"DerivableTraits::([A-Z_]+)", src)
            if not m or "DerivableTraits" not in (b.ty(a["l"]) or ""):
                continue
            tr = m.group(1)
            n += 1
            opt = DERIVE_OPTION.get(tr)
            asked = []
            for pol, kind, g in b.guards(a):
                if kind == "cond" and pol:
                    s = b.canon(g, 8)
                    if ("canderive" + tr.lower().replace("_", "")) in s.replace("_", "").lower() or (opt and ("BindgenOptions::" + opt) in s):
                        asked.append("switch")
                    if "no_%s_by_name" % tr.lower().split("_")[0] in s or "can_derive_" in s:
                        asked.append("name")
            ok = "switch" in asked
            key = "grant:%s@%s" % (tr, short(b.path))
            if tr == "CLONE":
                # Clone rides on Copy: granted in the same branch
                ok = ok or any("can_derive_copy" in b.canon(g, 8) for pol, kind, g in b.guards(a) if kind == "cond" and pol)
            rep.check(ok, key, "granted under the trait's own can_derive / option test" if ok else
                      "DerivableTraits::%s is granted without asking `can_derive_%s` or `options.%s`: the user's switch for the trait is ignored here"
                      % (tr, tr.lower(), opt), b.loc(a))
    rep.need(n >= 9, "`derivable_traits |= DerivableTraits::X` sites")


@RULES.rule("R8.14", "the hand-written Debug impl never formats a value built from a type nobody vouched for", floor=4)
def r8_14(rep):
    """`Item::impl_debug` leaves a field out when its own type is not allowlisted ("we don't know if blocklisted items impl Debug").
    An array is allowlisted as an item even when its ELEMENT type is blocklisted: `struct S { struct Blocked arr[3]; }` with
    `--blocklist-type Blocked --impl-debug` formats `self.arr` with `{:?}`, which needs `Blocked: Debug` (E0277 against the user's
    `pub struct Blocked(u32);`).  The array arm has to ask the same question of the element."""
    from hir import pat_variants as _pv
    prog = rep.prog
    b = rep.need(prog.impl_fn("codegen::impl_debug::ImplDebug", "ir::item::Item", "impl_debug") or
                 next((x for p, x in prog.bodies.items() if p.endswith("::impl_debug") and "ir::item::Item" in p), None), "<Item as ImplDebug>::impl_debug")
    gate = [c for c in b.calls(lambda n: n["k"] == "MCall" and n["name"] == "contains") if "allowlisted_items" in b.canon(c["recv"], 4)]
    rep.check(bool(gate), "debug-skips-unvouched-item", "a field whose own type is not allowlisted is left out", b.loc(b.root))
    ms = [m for m in b.nodes if m["k"] == "Match" and (b.ty(m["scrut"]) or "").replace("&", "").endswith("TypeKind")]
    rep.need(ms, "match on the type kind in Item::impl_debug")
    for a in ms[0]["arms"]:
        if not any(v.endswith("TypeKind::Array") for v in _pv(a["pat"])):
            continue
        elem_ids = set()

        def binds(p_):
            if p_.get("k") == "Bind":
                elem_ids.add(p_["id"])
            for q in p_.get("ps", []):
                binds(q)
        binds(a["pat"])
        asks = [c for c in b.calls(None, a["body"]) if c["k"] in ("MCall", "Call") and
                (c.get("name") in ("impl_debug", "contains") or "impl_debug" in str(c.get("callee") or "")) and
                any(y["k"] == "Local" and (y["id"] in elem_ids or (b.local_init(y["id"]) is not None and
                                                               any(z["k"] == "Local" and z["id"] in elem_ids for z in b.walk(b.local_init(y["id"])))))
                    for y in b.walk(c))]
        rep.check(bool(asks), "debug-array-asks-element", "the array arm asks whether the element type can be formatted" if asks else
                  "the array arm formats `self.<field>` without looking at the element type: an array of a blocklisted type needs `Blocked: Debug`",
                  b.loc(a["body"]))
    # a template instantiation is formatted through its arguments as well
    for a in ms[0]["arms"]:
        if not any(v.endswith("TypeKind::TemplateInstantiation") for v in _pv(a["pat"])):
            continue
        names = [(x.get("name") or (x.get("callee") or "").split("::")[-1]) for x in b.walk(a["body"]) if x["k"] in ("MCall", "Call")]
        none_tested = "is_none" in names or any(x["k"] == "Path" and str(x.get("def", "")).endswith("is_none") for x in b.walk(a["body"])) or \
            any(x["k"] == "Try" for x in b.walk(a["body"])) or "allowlisted_items" in names
        asks = "template_arguments" in names and ("impl_debug" in names or "allowlisted_items" in names) and none_tested
        rep.check(asks, "debug-instantiation-asks-arguments", "the instantiation arm asks whether every template argument can be formatted" if asks else
                  "the instantiation arm formats `self.<field>` without looking at the template arguments: `Tmpl<Blocked>` needs `Blocked: Debug`",
                  b.loc(a["body"]))
        # an argument that is "described" without being formatted (a type parameter: "Non-debuggable generic") does not implement Debug
        # either: the answer for the argument has to be looked at, not just its presence
        looks = "is_empty" in names
        rep.check(looks, "debug-instantiation-arguments-formattable", "an argument that is not formatted itself keeps the instantiation from being formatted" if looks else
                  "the instantiation arm only asks whether an answer exists for each argument: `Bar<T>` inside `impl<T> Debug for Foo<T>` is "
                  "formatted although `T` need not implement Debug (E0277)", b.loc(a["body"]))


@RULES.rule("R8.15", "derives are decided for the item whose definition is being emitted", floor=3)
def r8_15(rep):
    """`derives_of_item(item, ..)` is where the user's per-item exclusions (`--no-copy X`, `--no-debug X`, the `nocopy` / `nodebug`
    annotations, `--opaque-type X`) are read.  Each `CodeGenerator::codegen` that emits a definition must ask about the item it was
    called for; asking about another item (the aliased type of a new-type alias, say) ignores the exclusions written against the
    emitted name and imports those of the other item."""
    prog = rep.prog
    n = 0
    for p, b in sorted(prog.bodies.items()):
        for c in b.calls(lambda x: (x.get("callee") or "").endswith("codegen::derives_of_item")):
            n += 1
            a0 = strip(c["args"][0])
            seen = 0
            while a0.get("k") == "Local" and seen < 4:
                d = b.local_def.get(a0["id"])
                if d and d[0][0] == "param":
                    break
                init = b.local_init(a0["id"])
                if init is None:
                    break
                a0 = strip(init)
                seen += 1
            params = b.fact.get("params") or []
            is_codegen = (b.fact.get("impl_trait") or "").endswith("CodeGenerator") or p.endswith("::codegen")
            ok = False
            why = "the argument is `%s`" % b.canon(c["args"][0], 4)
            if a0.get("k") == "Local":
                d = b.local_def.get(a0["id"])
                if d and d[0][0] == "param":
                    idx = d[0][1] if len(d[0]) > 1 else None
                    pty = b.ty(a0) or ""
                    ok = "ir::item::Item" in pty and a0["id"] not in b.local_assigned
                    why = "parameter `%s` (%s)" % (a0.get("name"), pty)
            who = (b.fact.get("impl_self") or "").split("::")[-1]
            rep.check(ok, "derives-for-emitted-item@%s" % ((who + "::" if who else "") + short(b.path)),
                      "asks about the item being emitted: " + why if ok else
                      "`derives_of_item` is asked about something other than the `item` this codegen was called for (%s): exclusions "
                      "written against the emitted name are ignored" % why, b.loc(c))
    rep.need(n >= 3, "calls to derives_of_item")


@RULES.rule("R8.16", "the derive switches are closed under supertraits in every reachable option set", floor=5)
def r8_16(rep):
    """`#[derive(PartialOrd)]` needs PartialEq, `Ord` needs Eq and PartialOrd, `Eq` needs PartialEq.  All four traits share one
    analysis result (R8.2), so the derive list is closed exactly when the switches are: `derive_ord ⇒ derive_partialord ∧ derive_eq`,
    `derive_partialord ⇒ derive_partialeq`, `derive_eq ⇒ derive_partialeq`.  Each implication must start true (the antecedent
    defaults to false) and be re-established by every function that assigns either flag, for every pre-state and both values of the
    setter's argument (c12.flag_invariants executes the writers abstractly)."""
    import c12
    prog = rep.prog
    invs = c12.flag_invariants(prog)
    want = [("derive_ord", "derive_partialord"), ("derive_ord", "derive_eq"), ("derive_ord", "derive_partialeq"),
            ("derive_partialord", "derive_partialeq"), ("derive_eq", "derive_partialeq")]
    for A, B in want:
        ws = invs.get((A, B))
        rep.check(ws is not None, "closure:%s=>%s" % (A, B),
                  "maintained by %s" % ", ".join(sorted(short(w.path) for w in ws)) if ws is not None else
                  "some writer of `%s` / `%s` can leave `%s` on with `%s` off: `#[derive]` then lists a trait without its supertrait "
                  "(does not compile), or the setter silently clears a switch the user turned on" % (A, B, A, B), "bindgen/options/mod.rs")


@RULES.rule("R8.17", "no compound type is granted a trait before its destructor has been asked about", floor=2)
def r8_17(rep):
    """A type with a C++ destructor must not be Copy (`can_derive_compound_with_destructor` is false for Copy only).  In
    `CannotDerive::constrain_type` a compound can leave through the opaque short cut or through the `Comp` arm; both must test
    `lookup_has_destructor` before they can answer Yes.  (`--opaque-type Foo` on `struct Foo { ~Foo(); int x; };` derived Copy
    before the fix, while `struct Bar { Foo f; }` did not.)"""
    prog = rep.prog
    b = rep.need(prog.fn("ir::analysis::derive::CannotDerive::<'ctx>::constrain_type") or
                 next((x for p, x in prog.bodies.items() if p.endswith("::constrain_type") and "derive" in p), None), "CannotDerive::constrain_type")

    def asked(node):
        for pol, kind, g in b.guards(node, nested=True):
            if kind == "cond" and "lookup_has_destructor" in b.canon(g, 10) and "can_derive_compound_with_destructor" in b.canon(g, 10):
                return True
        return False
    # (a) the opaque short cut
    opq = [n for n in b.walk() if n["k"] == "Ret" and "CanDerive::Yes" in b.canon(n.get("e") or {}, 3)
           and any(kind == "cond" and pol and "is_opaque" in b.canon(g, 6) for pol, kind, g in b.guards(n))]
    rep.need(opq, "the `return CanDerive::Yes` of the opaque short cut")
    for r in opq:
        rep.check(asked(r), "destructor-asked:opaque", "the opaque short cut answers Yes only after the destructor test" if asked(r) else
                  "an opaque type is granted the trait without asking `lookup_has_destructor`: an opaque class with a destructor derives Copy",
                  b.loc(r))
    # (b) the Comp arm: everything after the destructor test
    comp = None
    for m in b.walk():
        if m["k"] == "Match":
            for i, a in enumerate(m["arms"]):
                if any(v.endswith("TypeKind::Comp") for v in pat_variants(a["pat"])):
                    comp = a
    rep.need(comp, "the TypeKind::Comp arm")
    test = [n for n in b.walk(comp["body"]) if n["k"] == "If" and "lookup_has_destructor" in b.canon(n["cond"], 10)]
    rep.check(bool(test) and b.diverges(test[0]["then"]) if test else False, "destructor-asked:comp",
              "the Comp arm returns No for a type with a destructor when the trait cannot be derived then", b.loc(comp["body"]))
    if test:
        early = [n for n in b.walk(comp["body"]) if n["k"] == "Ret" and "CanDerive::No" not in b.canon(n.get("e") or {}, 3)
                 and n["s"][1] < test[0]["s"][1]]
        rep.check(not early, "destructor-asked:comp-first", "nothing but `No` is returned before the destructor test in the Comp arm", b.loc(comp["body"]))


@RULES.rule("R8.18", "the Rust-union restriction of the opaque short cut sees through type references", floor=1)
def r8_18(rep):
    """A member declared `union U u;` has a type-reference item as its type; with `--opaque-type U` that reference is opaque by name
    and is spelled `U` — a Rust union that only derives Copy/Clone.  The union test in the opaque short cut of
    `CannotDerive::constrain_type` must therefore be made on what the reference refers to, not on the reference's own kind
    (before the fix `struct S { union U u; }` derived Debug, Hash and PartialEq: E0277)."""
    prog = rep.prog
    b = rep.need(next((x for p, x in prog.bodies.items() if p.endswith("::constrain_type") and "derive" in p), None), "CannotDerive::constrain_type")
    sites = [c for c in b.calls(lambda x: x["k"] == "MCall" and (x.get("callee") or x.get("resolved") or "").endswith("ty::Type::is_union"))
             if any(kind == "cond" and pol and "is_opaque" in b.canon(g, 6) for pol, kind, g in b.guards(c))]
    rep.need(sites, "the is_union test inside the opaque short cut")
    for c in sites:
        r = strip(c["recv"])
        ok = False
        why = b.canon(r, 6)[:80]
        if r.get("k") == "Local" and r["id"] in b.local_assigned:
            # a cursor variable advanced through ResolvedTypeRef
            for n in b.nodes:
                if n["k"] == "Assign" and strip(n["l"]).get("k") == "Local" and strip(n["l"])["id"] == r["id"] and "resolve_type" in b.canon(n["r"], 4):
                    loops = [a for a in b.ancestors(n) if a["k"] in ("While", "Loop", "For")]
                    if loops and "ResolvedTypeRef" in json.dumps(loops[0].get("cond") or loops[0])[:4000]:
                        ok = True
                        why = "a cursor advanced through TypeKind::ResolvedTypeRef"
        elif "canonical_type" in b.canon(r, 8):
            ok = True
            why = "the canonical type"
        rep.check(ok, "union-test-on-referent", "tested on " + why if ok else
                  "`is_union()` is asked of `%s`, the item's own type: a reference to an opaque union is not a union by kind, so its users "
                  "derive traits the emitted Rust union does not have" % why, b.loc(c))


@RULES.rule("R8.19", "a fact about the element type is a fact about the array (set-valued analyses that feed the derives)", floor=3)
def r8_19(rep):
    """HasFloat (no Eq/Ord/Hash) and HasTypeParameterInArray (no Copy) record per type whether something lies inside it.  An array
    contains its element: the `TypeKind::Array(t, _)` arm of each `constrain` must look `t` up in the analysis' own state.  Before the
    fix HasTypeParameterInArray only asked whether the element IS a type parameter, so `struct H { A<int> a[2]; }` derived Copy
    although `A<int>` (`template<class T> struct A { T m[2]; }`) does not (E0204), and `T m[2][3]` went unnoticed."""
    import c07
    n = 0
    for a in c07.analyses(rep):
        if a.name not in ("HasFloat", "HasTypeParameterInArray", "HasDestructorAnalysis"):
            continue
        b = a.methods["constrain"]
        arms = []
        for m in b.walk():
            if m["k"] == "Match":
                for arm in m["arms"]:
                    if any(v.endswith("TypeKind::Array") for v in pat_variants(arm["pat"])):
                        arms.append(arm)
        if not arms:
            n += 1
            rep.bad("array-forwards-element:%s" % a.name, "%s::constrain has no arm for `TypeKind::Array`: arrays fall into the catch-all and what "
                    "is known about the element is lost for the array (and for every struct that holds it)" % a.name, b.loc(b.root))
            continue
        for arm in arms:
            n += 1
            reads = []
            for c in b.calls(lambda x: x["k"] == "MCall" and x["name"] in ("contains", "get", "contains_key"), arm["body"]):
                r = c07.root_field(c["recv"])
                if r and r.get("adt") == a.adt and r["f"] in a.state:
                    key = b.canon(c["args"][0], 6)
                    # the key is the element id bound by this arm's pattern (an or-pattern binds it once per alternative)
                    ids = set()

                    def binds(p_):
                        if p_.get("k") == "Bind":
                            ids.add(p_["id"])
                        for q_ in p_.get("ps", []):
                            binds(q_)
                        if isinstance(p_.get("p"), dict):
                            binds(p_["p"])
                    binds(arm["pat"])
                    if any(y["k"] == "Local" and y["id"] in ids for y in b.walk(c["args"][0])) or "TypeKind::Array.0" in key:
                        reads.append(key)
            rep.check(bool(reads), "array-forwards-element:%s" % a.name,
                      "the array arm looks its element up in `%s`" % "/".join(sorted(a.state)) if reads else
                      "the `TypeKind::Array` arm of %s::constrain never looks the element type up in the analysis' own state: what is known "
                      "about the element is lost for the array (and for every struct that holds the array)" % a.name, b.loc(arm["body"]))
    rep.need(n >= 3, "Array arms of HasFloat / HasTypeParameterInArray / HasDestructorAnalysis")


THROUGH_OPAQUE = ("HasDestructorAnalysis", "HasVtableAnalysis", "HasFloat")


@RULES.rule("R8.20", "destructor, vtable and float facts are computed for opaque types like for any other", floor=3)
def r8_20(rep):
    """An opaque class still has its destructor, its vtable pointer and its floats; only its members are hidden.  The derive analysis
    answers for an opaque type from exactly these facts (`lookup_has_destructor` in the opaque short cut, R8.17; `has_float` for
    Eq/Ord/Hash).  If one of the three analyses stops at an opaque type ("bases and fields are not generated"), an opaque class whose
    destructor comes from a member derives Copy, and so does everything that embeds it (seeded change)."""
    import c07
    n = 0
    for a in c07.analyses(rep):
        if a.name not in THROUGH_OPAQUE:
            continue
        n += 1
        hits = []
        for nm, b in a.methods.items():
            if nm in ("new", "from", "initial_worklist"):
                continue
            for c in b.calls(lambda x: "is_opaque" in (x.get("name") or "") or "is_opaque" in (x.get("callee") or "")):
                hits.append((b, c))
        rep.check(not hits, "no-opacity-cut:%s" % a.name, "never asks `is_opaque`" if not hits else
                  "%s asks `is_opaque` in `%s`: the fact no longer reaches an opaque type through its members or bases, while the derive "
                  "analysis relies on it for exactly those types" % (a.name, hits[0][0].path.split("::")[-1]), hits[0][0].loc(hits[0][1]) if hits else "bindgen/ir/analysis")
    rep.need(n >= 3, "the HasDestructor / HasVtable / HasFloat analyses")


@RULES.rule("R8.21", "the hand-written Debug impl of a packed struct formats copies, never references to fields", floor=1)
def r8_21(rep):
    """`write!(f, "{:?}", self.x)` takes `&self.x`; for a packed struct that is an unaligned reference (E0793).  `derive(Debug)` avoids
    it by copying each field first, and the hand-written impl has to do the same: in `gen_debug_impl`, when the struct is packed,
    every argument handed to `write!` is wrapped in a block (`{ self.x }`)."""
    import qq
    prog = rep.prog
    b = rep.need(prog.fn("codegen::impl_debug::gen_debug_impl"), "codegen::impl_debug::gen_debug_impl")
    ext = [c for c in b.calls(lambda x: x["k"] == "MCall" and x["name"] == "extend") if (b.ty(c["recv"]) or "").endswith("Vec<proc_macro2::TokenStream>")
           or "TokenStream" in (b.ty(c["recv"]) or "")]
    rep.need(ext, "the calls that add the fields' tokens to the write! arguments")

    def packed_cond(c):
        """+1 under `packed`, -1 under `!packed`, 0 unconditional"""
        for a, pol, g in qq.guard_atoms(b, c):
            src = a
            x = strip(g)
            if x.get("k") == "Local" and b.local_init(x["id"]) is not None:
                src += " " + b.canon(b.local_init(x["id"]), 10)
                for y in b.walk(b.local_init(x["id"])):
                    if y["k"] == "MCall":
                        src += " " + (y.get("name") or "")
            if "is_packed" in src:
                return 1 if pol else -1
        return 0
    plain = [c for c in ext if packed_cond(c) <= 0 and not any(q.has("{", "#t", "}") or q.has("{", "#") for q in qq.quote_sites(b) if any(y is q.root for y in b.walk(c)))]
    wrapped = [c for c in ext if packed_cond(c) == 1]
    uncond_plain = [c for c in plain if packed_cond(c) == 0]
    ok = bool(wrapped) and not uncond_plain
    rep.check(ok, "packed-fields-copied", "under `packed` the arguments are wrapped in blocks; the plain form is used only for unpacked structs" if ok else
              "field tokens are handed to `write!` as they are%s: for a packed struct `self.x` is borrowed (E0793)"
              % ("" if wrapped else ", whether or not the struct is packed"), b.loc((uncond_plain or ext)[0]))


@RULES.rule("R8.22", "the analyses know every item whose result they read: what an opaque type hides is part of their universe", floor=2)
def r8_22(rep):
    """The through-opaque analyses (R8.20) answer for an opaque class from its bases and fields.  `generate_dependencies` therefore
    traces an opaque item's innards as well — but records an innard only when it is allowlisted, and the worklists start from the
    allowlisted items.  What an opaque type hides is reachable through nothing else (the allowlist traversal stops at it), so with
    `--opaque-type Foo --allowlist-type Foo` the member `D d;` of `Foo` is never constrained, `have_destructor` has no entry for `D`,
    and `Foo` derives Copy although `D` has a destructor (without the allowlist every item is a root and `Foo` does not).
    In `generate_dependencies`: the recorder handed to the innards traces does not filter by allowlist membership."""
    import qq
    prog = rep.prog
    b = rep.need(prog.fn("ir::analysis::generate_dependencies"), "ir::analysis::generate_dependencies")
    inner = [c for c in b.calls(lambda x: x["k"] in ("MCall", "Call") and ((x.get("name") or "") in ("trace", "trace_bases_and_fields")))
             if any("is_opaque" in a and pol for a, pol, _ in qq.guard_atoms(b, c))]
    rep.need(inner, "the traces of an opaque item's innards in generate_dependencies")
    for c in inner:
        recs = []
        for a in c["args"]:
            for x in b.walk(a):
                if x["k"] == "Local" and b.local_init(x["id"]) is not None and strip(b.local_init(x["id"])).get("k") == "Closure":
                    recs.append(strip(b.local_init(x["id"])))
                elif x["k"] == "Closure":
                    recs.append(x)
        if not rep.check(bool(recs), "innards-recorder@%s" % c.get("name"), "the callback of the innards trace is a closure of this function", b.loc(c)):
            continue
        pushes = [p for r in recs for p in b.walk(r) if p["k"] == "MCall" and p["name"] in ("push", "insert", "extend")]
        filt = [a for p in pushes for a, pol, _ in qq.guard_atoms(b, p) if pol and "allowlisted_items" in a and "contains" in a]
        rep.check(not filt, "opaque-innards-in-universe:%s@generate_dependencies" % c.get("name"),
                  "innards are recorded whether allowlisted or not" if not filt else
                  "an innard of an opaque item is only recorded when `%s`: what the opaque type hides is never allowlisted through it, "
                  "so its facts are never computed (`--opaque-type Foo --allowlist-type Foo` with a member that has a destructor derives Copy)"
                  % filt[0][:90], b.loc(c))


@RULES.rule("R8.23", "the hand-written Debug impl formats a struct / union member only if that type has a Debug impl of some kind", floor=2)
def r8_23(rep):
    """A record excluded from Debug by the user (`--no-debug X`, the `nodebug` annotation) gets neither the derive nor a hand-written
    impl (`needs_debug_impl` in `CompInfo::codegen` tests both).  Its container cannot derive Debug either and, under `--impl-debug`,
    gets the hand-written impl; formatting the member with `{:?}` there is E0277 (before the fix).  In `<Item as ImplDebug>::impl_debug`,
    walking the arms for `TypeKind::Comp` in order: with `no_debug_by_name` true, or with `disallow_debug` true, the arm that is
    taken does not format the member."""
    import itertools
    import qq
    prog = rep.prog
    b = rep.need(prog.impl_fn("codegen::impl_debug::ImplDebug", "ir::item::Item", "impl_debug"), "<Item as ImplDebug>::impl_debug")
    ms = [m for m in b.walk() if m["k"] == "Match" and any(v.endswith("TypeKind::Comp") for a in m["arms"] for v in pat_variants(a["pat"]))]
    if not rep.check(len(ms) == 1, "debug:comp-arms", "one match over the member's kind names TypeKind::Comp (found %d)" % len(ms), b.loc(b.root)):
        return
    m = ms[0]
    arms = [a for a in m["arms"] if any(v.endswith("TypeKind::Comp") or v == "_" for v in pat_variants(a["pat"]))]

    def formats(body):
        return any(c["k"] == "Call" and (c.get("callee") or "").endswith("debug_print") for c in b.walk(body)) or \
            any(c["k"] == "MCall" and c["name"] == "impl_debug" for c in b.walk(body))
    # exclusions that codegen tests before giving the record an impl of its own
    cg = rep.need(prog.impl_fn("codegen::CodeGenerator", "ir::comp::CompInfo", "codegen"), "<CompInfo as CodeGenerator>::codegen")
    tests = set()
    for n in cg.walk():
        if n["k"] == "MCall" and n["name"] in ("no_debug_by_name", "disallow_debug"):
            tests.add(n["name"])
    rep.need(tests == {"no_debug_by_name", "disallow_debug"}, "the two exclusion tests in front of `needs_debug_impl` (found %s)" % sorted(tests))
    for excl in sorted(tests):
        verdict = None
        detail = ""
        for a in arms:
            gd = a.get("guard")
            if gd is None:
                verdict = not formats(a["body"])
                detail = "falls to an unguarded arm"
                break
            f = _formula(b, gd)
            atoms = sorted(_atoms(f, set()))
            fixed = {x: True for x in atoms if excl in x}
            free = [x for x in atoms if x not in fixed]
            vals_ = [_ev(f, dict(zip(free, vs), **fixed)) for vs in itertools.product((False, True), repeat=len(free))]
            if all(vals_):
                verdict = not formats(a["body"])
                detail = "taken by the arm guarded with `%s`" % b.canon(gd, 4)[:80]
                break
            if any(vals_):
                verdict = False
                detail = "the guard `%s` does not always hold when `%s` does" % (b.canon(gd, 4)[:80], excl)
                break
        rep.check(bool(verdict), "debug:excluded-member-not-formatted:%s" % excl,
                  "a member whose type is excluded through `%s` is not formatted (%s)" % (excl, detail) if verdict else
                  "a member whose type is excluded through `%s` is still formatted with `{:?}` (%s): that type has no Debug impl (E0277)"
                  % (excl, detail or "no arm"), b.loc(m))
