"""C08 — traits are derived exactly when the rules allow; hand-written impls act like derives.

Structure of the module
  * `Interp`            a small evaluator of pure bodies of the type-checked HIR (match / if / matches! /
                        ==, &&, constants, calls into other crate bodies).  It turns every `DeriveTrait::can_derive_*`
                        predicate into a truth table, whatever its syntactic shape (if <-> match, reordered arms,
                        extracted helpers), so the tables can be compared with `oracle/derive_rules.json`.
  * `conditional_results` / `check_guarded_unwraps`
                        the generic "a result that is computed only under condition C is only unwrapped under a
                        guard that implies C" check (R8.3; written for re-use by C12 R12.1).
  * rules R8.1 .. R8.7.
"""
import itertools
import json
import os
import re

from engine import RuleSet
from hir import strip, pat_variants, pat_str, kids
import qq

RULES = RuleSet("C08", "§3 C08",
                assumptions=["oracle/derive_rules.json states what the Rust language/library and the property statement allow; "
                             "it is knowledge about Rust, not about bindgen"],
                not_decided=["run-time behaviour of the hand-written impls on concrete values (needs execution)",
                             "that the fix-point driver reaches the least fixed point of the extracted rules (decided under C07)",
                             "trait support of user-blocklisted types (answered by the user's callback)"])

HERE = os.path.dirname(os.path.abspath(__file__))
with open(os.path.join(HERE, "oracle", "derive_rules.json")) as _fh:
    ORACLE = json.load(_fh)

DT = "ir::analysis::derive::DeriveTrait"
CD = "ir::derive::CanDerive"
TK = "ir::ty::TypeKind"
EK = "ir::traversal::EdgeKind"
CTX = "ir::context::BindgenContext"
OPTS = "options::BindgenOptions"
TRAITS = ORACLE["traits"]
LOG_MACROS = {"trace", "debug", "info", "warn", "error", "log::trace", "log::debug", "log::info", "log::warn", "log::error"}
ASSERT_MACROS = {"assert", "debug_assert", "assert_eq", "assert_ne", "debug_assert_eq", "debug_assert_ne", "extra_assert",
                 "extra_assert_eq"}
PANIC_CALLEES = ("::panic_fmt", "::panicking::panic", "::panicking::assert_failed", "::panic_display", "::unreachable_display",
                 "::panicking::panic_explicit")


# =====================================================================================================
#  Interp: evaluation of pure HIR bodies
# =====================================================================================================
class Undecidable(Exception):
    """The evaluator met a construct whose value decides the result but is not known."""


class Panics(Exception):
    """Evaluation reached panic!/unreachable!."""


class _Return(Exception):
    def __init__(self, v):
        self.v = v


UNK = ("unk",)


def V(path, args=None):
    """an enum variant value; args = tuple of payload values or None when the payload is unknown/irrelevant"""
    return ("v", path, args)


def is_v(x):
    return isinstance(x, tuple) and len(x) == 3 and x[0] == "v"


def vname(x):
    """printable form of an evaluation result"""
    if is_v(x):
        s = x[1].split("::")[-1]
        if x[2]:
            s += "(%s)" % ",".join(vname(a) for a in x[2])
        return s
    if x is UNK:
        return "?"
    if isinstance(x, tuple) and x and x[0] == "tup":
        return "(%s)" % ",".join(vname(a) for a in x[1])
    return str(x)


class Interp:
    """Evaluates expression trees of `hir.Body`.

    hook(body, node, env, interp) -> value | NotImplemented   lets the caller supply symbolic inputs
    state: dict (adt, field) -> value for tracked field assignments (`self.options.x = ..`)."""

    MAX_DEPTH = 8

    def __init__(self, prog, hook=None, state=None):
        self.prog = prog
        self.hook = hook
        self.state = state if state is not None else {}
        self.depth = 0
        self._variant_index = {}

    # ---- entry points -----------------------------------------------------------------------------
    def call(self, body, args):
        """value of calling `body` with positional argument values (panics -> Panics)."""
        if self.depth >= self.MAX_DEPTH:
            return UNK
        env = {}
        for p, a in zip(body.params, list(args) + [UNK] * len(body.params)):
            self.pmatch(body, p, a, env)
        self.depth += 1
        try:
            return self.ev(body, body.root, env)
        except _Return as r:
            return r.v
        finally:
            self.depth -= 1

    def call_closure(self, clo, args):
        _, body, node, env = clo
        env = dict(env)
        for p, a in zip(node["params"], list(args) + [UNK] * len(node["params"])):
            self.pmatch(body, p, a, env)
        self.depth += 1
        try:
            return self.ev(body, node["body"], env)
        except _Return as r:
            return r.v
        finally:
            self.depth -= 1

    # ---- helpers ----------------------------------------------------------------------------------
    def variant_rank(self, path):
        adt = path.rsplit("::", 1)[0]
        if adt not in self._variant_index:
            a = self.prog.adts.get(adt)
            self._variant_index[adt] = {adt + "::" + v["name"]: i for i, v in enumerate(a["variants"])} if a else {}
        return self._variant_index[adt].get(path)

    def derived_ord(self, adt):
        b = self.prog.impl_fn("std::cmp::Ord", adt, "cmp")
        return b is not None and (b.macro_name(b.root) or "").startswith("derive")

    def is_unit_variant(self, path):
        adt = path.rsplit("::", 1)[0]
        a = self.prog.adts.get(adt)
        if not a:
            return False
        for v in a["variants"]:
            if v["name"] == path.rsplit("::", 1)[1]:
                return not v["fields"]
        return False

    def has_effects(self, body, n):
        for x in body.walk(n):
            if x["k"] in ("Ret", "Assign", "AssignOp", "Break", "Continue"):
                return True
        return False

    def cmp_values(self, op, a, b):
        if a is UNK or b is UNK:
            return UNK
        if op in ("==", "!="):
            if is_v(a) and is_v(b):
                if a[1] != b[1]:
                    r = False
                elif a[2] is None or b[2] is None:
                    if not self.is_unit_variant(a[1]):
                        return UNK
                    r = True
                else:
                    r = a[2] == b[2]
            elif isinstance(a, (bool, int, str)) and isinstance(b, (bool, int, str)):
                r = a == b
            elif isinstance(a, tuple) and isinstance(b, tuple) and a[:1] == ("tup",) and b[:1] == ("tup",):
                r = a == b
            else:
                return UNK
            return r if op == "==" else not r
        # ordering
        if isinstance(a, int) and isinstance(b, int) and not isinstance(a, bool) and not isinstance(b, bool):
            x, y = a, b
        elif is_v(a) and is_v(b):
            adt = a[1].rsplit("::", 1)[0]
            if adt != b[1].rsplit("::", 1)[0] or not self.derived_ord(adt):
                return UNK
            x, y = self.variant_rank(a[1]), self.variant_rank(b[1])
            if x is None or y is None:
                return UNK
        else:
            return UNK
        return {"<": x < y, "<=": x <= y, ">": x > y, ">=": x >= y}[op]

    # ---- patterns ---------------------------------------------------------------------------------
    def irrefutable(self, p):
        k = p.get("k")
        if k in ("Wild", "Missing"):
            return True
        if k == "Bind":
            return "sub" not in p or self.irrefutable(p["sub"])
        if k in ("PRef", "PGuard"):
            return self.irrefutable(p["p"])
        if k == "PTuple":
            return all(self.irrefutable(q) for q in p["ps"])
        return False

    def pmatch(self, body, p, v, env):
        """True / False / None (unknown)"""
        k = p.get("k")
        if k in ("Wild", "Missing"):
            return True
        if k == "Bind":
            env[p["id"]] = v
            return self.pmatch(body, p["sub"], v, env) if "sub" in p else True
        if k in ("PRef", "PGuard"):
            return self.pmatch(body, p["p"], v, env)
        if k == "PTuple":
            if isinstance(v, tuple) and v[:1] == ("tup",) and len(v[1]) == len(p["ps"]):
                out = True
                for q, x in zip(p["ps"], v[1]):
                    r = self.pmatch(body, q, x, env)
                    if r is False:
                        return False
                    if r is None:
                        out = None
                return out
            return True if self.irrefutable(p) else None
        if k == "POr":
            unknown = False
            for q in p["ps"]:
                r = self.pmatch(body, q, v, env)
                if r is True:
                    return True
                if r is None:
                    unknown = True
            return None if unknown else False
        if k == "PLit":
            if v is UNK or not isinstance(v, (bool, int, str)):
                return None
            lit = p.get("v")
            if p.get("neg"):
                lit = -lit
            return v == lit
        if k == "PPath":
            if not is_v(v):
                return None
            return v[1] == p["res"].get("def")
        if k in ("PTupleStruct", "PStruct"):
            if not is_v(v):
                return None
            if v[1] != p["res"].get("def"):
                return False
            subs = p["ps"] if k == "PTupleStruct" else [f["p"] for f in p["fs"]]
            if v[2] is not None and k == "PTupleStruct" and len(v[2]) == len(subs):
                out = True
                for q, x in zip(subs, v[2]):
                    r = self.pmatch(body, q, x, env)
                    if r is False:
                        return False
                    if r is None:
                        out = None
                return out
            for q in subs:
                self.pmatch(body, q, UNK, env)
            return True if all(self.irrefutable(q) for q in subs) else None
        if k == "PRange":
            return None
        return None

    # ---- expressions ------------------------------------------------------------------------------
    def ev(self, body, n, env):
        if self.hook is not None:
            r = self.hook(body, n, env, self)
            if r is not NotImplemented:
                return r
        return getattr(self, "ev_" + n["k"], self.ev_other)(body, n, env)

    def ev_other(self, body, n, env):
        return UNK

    def ev_Block(self, body, n, env):
        for st in n.get("stmts", []):
            self.ev(body, st, env)
        if isinstance(n.get("tail"), dict):
            return self.ev(body, n["tail"], env)
        return ("tup", ())

    def ev_Let(self, body, n, env):
        v = self.ev(body, n["init"], env) if isinstance(n.get("init"), dict) else UNK
        r = self.pmatch(body, n["pat"], v, env)
        if "els" in n:
            if r is None:
                raise Undecidable("let-else on an unknown value at %s" % body.loc(n))
            if r is False:
                self.ev(body, n["els"], env)
        return ("tup", ())

    def _stmt(self, body, n, env):
        e = n["e"]
        mac = body.macro_name(e)
        if mac in LOG_MACROS:
            return ("tup", ())
        self.ev(body, e, env)
        return ("tup", ())

    ev_Semi = _stmt
    ev_ExprStmt = _stmt

    def _unknown_branch(self, body, n, what):
        mac = body.macro_name(n)
        if mac in ASSERT_MACROS or mac in LOG_MACROS:
            return UNK
        if self.has_effects(body, n):
            raise Undecidable("%s on a value the evaluator does not know, at %s" % (what, body.loc(n)))
        return UNK

    def ev_If(self, body, n, env):
        c = n["cond"]
        if c["k"] == "LetCond":
            v = self.ev(body, c["init"], env)
            r = self.pmatch(body, c["pat"], v, env)
        else:
            r = self.ev(body, c, env)
            if r is UNK:
                r = None
        if r is None:
            return self._unknown_branch(body, n, "`if`")
        if r:
            return self.ev(body, n["then"], env)
        if "else" in n:
            return self.ev(body, n["else"], env)
        return ("tup", ())

    def ev_LetCond(self, body, n, env):
        v = self.ev(body, n["init"], env)
        r = self.pmatch(body, n["pat"], v, env)
        return UNK if r is None else r

    def ev_Match(self, body, n, env):
        v = self.ev(body, n["scrut"], env)
        for a in n["arms"]:
            r = self.pmatch(body, a["pat"], v, env)
            if r is None:
                return self._unknown_branch(body, n, "`match`")
            if not r:
                continue
            if "guard" in a:
                g = self.ev(body, a["guard"], env)
                if g is UNK:
                    return self._unknown_branch(body, n, "match guard")
                if not g:
                    continue
            return self.ev(body, a["body"], env)
        raise Undecidable("no arm of the match at %s matches %s" % (body.loc(n), vname(v)))

    def ev_Unary(self, body, n, env):
        v = self.ev(body, n["e"], env)
        if n["op"] == "!":
            return UNK if not isinstance(v, bool) else (not v)
        if n["op"] == "*":
            return v
        if n["op"] == "-" and isinstance(v, int):
            return -v
        return UNK

    def ev_AddrOf(self, body, n, env):
        return self.ev(body, n["e"], env)

    ev_Cast = ev_AddrOf

    def ev_Binary(self, body, n, env):
        op = n["op"]
        if op in ("&&", "||"):
            l = self.ev(body, n["l"], env)
            if isinstance(l, bool):
                if op == "&&" and not l:
                    return False
                if op == "||" and l:
                    return True
                return self.ev(body, n["r"], env)
            try:
                r = self.ev(body, n["r"], env)
            except (Undecidable, Panics):
                return UNK
            if isinstance(r, bool) and ((op == "&&" and not r) or (op == "||" and r)):
                return r
            return UNK
        l = self.ev(body, n["l"], env)
        r = self.ev(body, n["r"], env)
        if op in ("==", "!=", "<", "<=", ">", ">="):
            return self.cmp_values(op, l, r)
        if isinstance(l, int) and isinstance(r, int) and not isinstance(l, bool):
            try:
                return {"+": l + r, "-": l - r, "*": l * r, "/": l // r if r else UNK, "%": l % r if r else UNK,
                        "<<": l << r, ">>": l >> r, "&": l & r, "|": l | r, "^": l ^ r}.get(op, UNK)
            except (ValueError, OverflowError):
                return UNK
        if op == "|" and is_v(l) and is_v(r):
            return self._op_trait(body, "std::ops::BitOr", "bitor", l, r)
        return UNK

    def _op_trait(self, body, trait, meth, l, r):
        adt = l[1].rsplit("::", 1)[0]
        b = self.prog.impl_fn(trait, adt, meth)
        if b is None:
            return UNK
        return self.call(b, [l, r])

    def ev_Path(self, body, n, env):
        dk = n.get("dk", "")
        if dk.startswith("Ctor(Variant, Const") or dk.startswith("Ctor(Struct, Const"):
            return V(n["def"], ())
        if dk.startswith("Ctor("):
            return ("ctor", n["def"])
        if dk.startswith("Const") or dk.startswith("AssocConst"):
            cb = self.prog.bodies.get(n["def"])
            if cb is not None and self.depth < self.MAX_DEPTH:
                return self.call(cb, [])
            return UNK
        if dk in ("Fn", "AssocFn"):
            return ("fn", n["def"])
        return UNK

    def ev_Lit(self, body, n, env):
        v = n.get("v")
        return v if isinstance(v, (bool, int, str)) else UNK

    def ev_Local(self, body, n, env):
        return env.get(n["id"], UNK)

    def ev_Tup(self, body, n, env):
        return ("tup", tuple(self.ev(body, e, env) for e in n["es"]))

    def ev_Field(self, body, n, env):
        key = (n.get("adt"), n["f"])
        if key in self.state:
            return self.state[key]
        b = self.ev(body, n["base"], env)
        if isinstance(b, tuple) and b[:1] == ("tup",) and n["f"].isdigit() and int(n["f"]) < len(b[1]):
            return b[1][int(n["f"])]
        return UNK

    def ev_Closure(self, body, n, env):
        return ("closure", body, n, env)

    def ev_Ret(self, body, n, env):
        raise _Return(self.ev(body, n["e"], env) if isinstance(n.get("e"), dict) else ("tup", ()))

    def ev_Assign(self, body, n, env):
        v = self.ev(body, n["r"], env)
        l = n["l"]
        if l["k"] == "Field" and (l.get("adt"), l["f"]) in self.state:
            self.state[(l.get("adt"), l["f"])] = v
            return ("tup", ())
        t = strip(l)
        if t["k"] == "Local":
            env[t["id"]] = v
        return ("tup", ())

    def ev_AssignOp(self, body, n, env):
        t = strip(n["l"])
        r = self.ev(body, n["r"], env)
        if t["k"] == "Local":
            cur = env.get(t["id"], UNK)
            if n["op"] == "|=" and is_v(cur) and is_v(r):
                adt = cur[1].rsplit("::", 1)[0]
                b = self.prog.impl_fn("std::ops::BitOr", adt, "bitor")
                env[t["id"]] = self.call(b, [cur, r]) if b is not None else UNK
            else:
                env[t["id"]] = UNK
        return ("tup", ())

    def _apply(self, body, n, callee_names, args):
        """shared by Call / MCall once the argument values are known"""
        for name in callee_names:
            if not name:
                continue
            if any(name.endswith(p) for p in PANIC_CALLEES):
                raise Panics(body.loc(n))
            last = name.rsplit("::", 1)[-1]
            if name in ("std::cmp::max", "core::cmp::max", "std::cmp::Ord::max") and len(args) == 2:
                c = self.cmp_values(">=", args[1], args[0])
                return UNK if c is UNK else (args[1] if c else args[0])
            if name in ("std::cmp::min", "core::cmp::min", "std::cmp::Ord::min") and len(args) == 2:
                c = self.cmp_values("<", args[1], args[0])
                return UNK if c is UNK else (args[1] if c else args[0])
            if name in ("std::cmp::PartialEq::eq", "std::cmp::PartialEq::ne") and len(args) == 2:
                return self.cmp_values("==" if last == "eq" else "!=", args[0], args[1])
            if name == "<bool as std::default::Default>::default":
                return False
            tb = self.prog.bodies.get(name)
            if tb is not None and tb.kind in ("Fn", "AssocFn") and len(tb.params) == len(args):
                return self.call(tb, args)
        if body.ty(n) == "!":
            raise Panics(body.loc(n))
        return UNK

    def ev_Call(self, body, n, env):
        args = [self.ev(body, a, env) for a in n["args"]]
        if "ctor" in n:
            return V(n["ctor"], tuple(args))
        if "f" in n and "callee" not in n:
            f = self.ev(body, n["f"], env)
            if isinstance(f, tuple) and f[:1] == ("closure",):
                return self.call_closure(f, args)
            if isinstance(f, tuple) and f[:1] == ("fn",):
                return self._apply(body, n, [f[1]], args)
            if isinstance(f, tuple) and f[:1] == ("ctor",):
                return V(f[1], tuple(args))
            return UNK
        return self._apply(body, n, [n.get("resolved"), n.get("callee")], args)

    def ev_MCall(self, body, n, env):
        recv = self.ev(body, n["recv"], env)
        args = [self.ev(body, a, env) for a in n["args"]]
        if n["name"] in ("clone", "to_owned", "borrow", "as_ref", "into", "copied", "cloned") and not args:
            return recv
        if n["name"] in ("max", "min") and n.get("trait") == "std::cmp::Ord":
            return self._apply(body, n, ["std::cmp::" + n["name"]], [recv] + args)
        return self._apply(body, n, [n.get("resolved"), n.get("callee")], [recv] + args)


def result_name(interp, body, args):
    """'Yes' / 'No' / 'Manually' / 'true' / 'false' / 'unreachable' / 'undecidable: ..'"""
    try:
        v = interp.call(body, args)
    except Panics:
        return "unreachable"
    except Undecidable as e:
        return "undecidable: %s" % e
    if isinstance(v, bool):
        return "true" if v else "false"
    if v is UNK:
        return "undecidable: the result is not a function of the inputs"
    return vname(v)


# =====================================================================================================
#  small shared helpers
# =====================================================================================================
def variants(prog, adt):
    a = prog.adts.get(adt)
    return [v["name"] for v in a["variants"]] if a else []


def dt_method(rep, name):
    return rep.need(rep.prog.fn("%s::%s" % (DT, name)), "DeriveTrait::" + name)


def find_fn(prog, suffix, contains=None):
    """the unique body whose path ends with `suffix` (and contains `contains`)"""
    out = [b for p, b in prog.bodies.items() if p.endswith(suffix) and (contains is None or contains in p)]
    return out[0] if len(out) == 1 else None


def short(path):
    return path.rsplit("::", 1)[-1]


def atoms_of(b, e, pol=True):
    return qq._atoms(b, e, pol)


def callee_of(n):
    return n.get("resolved") or n.get("callee") or ""


def opt_field(n):
    """`options().x` / `self.options.x` -> 'x' for fields of BindgenOptions, else None"""
    n = strip(n)
    if n.get("k") == "Field" and n.get("adt") == OPTS:
        return n["f"]
    return None


def toplevel_index(b, n):
    """index of the top-level statement of b.root that contains n (len(stmts) for the tail)"""
    cur = n
    while True:
        p = b.parent[cur["_i"]]
        if p is None:
            return None
        if p is b.root:
            r = b.role[cur["_i"]]
            return r[1] if isinstance(r, tuple) else len(b.root.get("stmts", []))
        cur = p


# =====================================================================================================
#  R8.1  rule tables
# =====================================================================================================
def _dt(t):
    return V("%s::%s" % (DT, t), ())


def _compare(rep, key, got, want, what, loc):
    """compare one table entry with the oracle ('any' = unconstrained)"""
    if want == "any":
        rep.ok(key, "%s = %s (not constrained by the oracle)" % (what, got), loc)
        return
    if isinstance(want, bool):
        want = "true" if want else "false"
    rep.check(got == want, key, "%s is %s, the oracle (statement + Rust language) says %s" % (what, got, want), loc)


def fnptr_sig_hook(nargs, abi):
    def hook(body, n, env, interp):
        if n["k"] == "MCall" and n["name"] == "len" and strip(n["recv"]).get("k") == "Field" and \
                strip(n["recv"]).get("adt") == "ir::function::FunctionSig":
            return nargs
        if n["k"] == "Field" and n.get("adt") == "ir::function::FunctionSig" and body.ty(n) == "ir::function::ClangAbi":
            return abi
        return NotImplemented
    return hook


def edge_set(prog, interp, pred_body, trait):
    """set of EdgeKind variants for which the predicate returned by `pred_body(trait)` answers true; None if undecidable"""
    try:
        f = interp.call(pred_body, [_dt(trait)])
    except (Undecidable, Panics):
        return None
    out = set()
    for e in variants(prog, EK):
        arg = V("%s::%s" % (EK, e), ())
        try:
            if isinstance(f, tuple) and f[:1] == ("closure",):
                r = interp.call_closure(f, [arg])
            elif isinstance(f, tuple) and f[:1] == ("fn",) and f[1] in prog.bodies:
                r = interp.call(prog.bodies[f[1]], [arg])
            else:
                return None
        except (Undecidable, Panics):
            return None
        if r is True:
            out.add(e)
        elif r is not False:
            return None
    return out


@RULES.rule("R8.1", "derive rule tables, limits and the CanDerive lattice agree with the oracle", floor=175)
def r8_1(rep):
    """Every `DeriveTrait::can_derive_*` predicate is evaluated for every DeriveTrait variant (can_derive_simple for every
    simple TypeKind, can_derive_fnptr for both answers of function_pointers_can_derive) and compared with
    oracle/derive_rules.json.  Breaks: `can_derive_pointer` answering Yes for Default puts `#[derive(Default)]` on a struct
    with a `*mut T` member (E0277); `can_derive_simple(Hash, Float)` = Yes derives Hash over an f64; reversing the
    lattice order lets a member's `No` be overwritten by `Yes`."""
    prog = rep.prog
    it = Interp(prog)
    have = variants(prog, DT)
    rep.check(sorted(have) == sorted(TRAITS), "traits", "DeriveTrait variants %s (oracle knows %s)" % (have, TRAITS))

    # -- boolean predicates --------------------------------------------------------------------------
    for name, row in ORACLE["bool_predicates"].items():
        b = dt_method(rep, name)
        for t in TRAITS:
            got = result_name(it, b, [_dt(t)] + [UNK] * (len(b.params) - 1))
            _compare(rep, "table:%s:%s" % (name, t), got, row[t], "%s(%s)" % (name, t), b.loc(b.root))
    # -- CanDerive-valued predicates -----------------------------------------------------------------
    for name in ("can_derive_pointer", "can_derive_vector"):
        b = dt_method(rep, name)
        for t in TRAITS:
            got = result_name(it, b, [_dt(t)])
            _compare(rep, "table:%s:%s" % (name, t), got, ORACLE[name][t], "%s(%s)" % (name, t), b.loc(b.root))
    b = dt_method(rep, "can_derive_fnptr")
    for ok, rowname in ((True, "std_impls"), (False, "no_std_impls")):
        def hook(body, n, env, interp, ok=ok):
            if n["k"] == "MCall" and n["name"] == "function_pointers_can_derive":
                return ok
            return NotImplemented
        it2 = Interp(prog, hook)
        for t in TRAITS:
            got = result_name(it2, b, [_dt(t), UNK])
            _compare(rep, "table:can_derive_fnptr:%s:%s" % (t, rowname), got, ORACLE["can_derive_fnptr"][rowname][t],
                     "can_derive_fnptr(%s) when function_pointers_can_derive() is %s" % (t, str(ok).lower()), b.loc(b.root))
    b = dt_method(rep, "can_derive_simple")
    for kind in ORACLE["simple_kinds"]:
        for t in TRAITS:
            got = result_name(it, b, [_dt(t), V("%s::%s" % (TK, kind), None)])
            _compare(rep, "table:can_derive_simple:%s:%s" % (t, kind), got, ORACLE["can_derive_simple"][kind][t],
                     "can_derive_simple(%s, %s)" % (t, kind), b.loc(b.root))

    # -- which signatures get the std impls ----------------------------------------------------------
    fp = rep.need(prog.fn("ir::function::FunctionSig::function_pointers_can_derive"), "FunctionSig::function_pointers_can_derive")
    spec = ORACLE["function_pointers_can_derive"]
    abis = [("Known(%s)" % a, V("ir::function::ClangAbi::Known", (V("ir::function::Abi::" + a, ()),)))
            for a in variants(prog, "ir::function::Abi")] + [("Unknown", V("ir::function::ClangAbi::Unknown", None))]
    rep.need(variants(prog, "ir::function::Abi"), "enum ir::function::Abi")
    for nm, abi in abis:
        got = result_name(Interp(prog, fnptr_sig_hook(1, abi)), fp, [UNK])
        _compare(rep, "fnptr-sig:abi:" + nm, got, nm in spec["abi_ok"], "function_pointers_can_derive() for ABI %s" % nm, fp.loc(fp.root))
    cabi = dict(abis)["Known(C)"]
    answers = [result_name(Interp(prog, fnptr_sig_hook(k, cabi)), fp, [UNK]) for k in range(0, 41)]
    ok_upto = [k for k, a in enumerate(answers) if a == "true"]
    shape = answers == ["true"] * (max(ok_upto) + 1 if ok_upto else 0) + ["false"] * (40 - (max(ok_upto) if ok_upto else -1))
    rep.check(shape and ok_upto and max(ok_upto) == spec["max_args"], "fnptr-sig:max-args",
              "function pointers derive normally up to %s arguments (oracle: %d)" % (max(ok_upto) if ok_upto else "?", spec["max_args"]),
              fp.loc(fp.root))

    # -- limits --------------------------------------------------------------------------------------
    for cname, ent in ORACLE["limits"].items():
        cb = [x for p, x in prog.bodies.items() if p.endswith("::" + cname) and x.kind.startswith("Const")]
        rep.need(cb, "const " + cname)
        try:
            val = it.call(cb[0], [])
        except (Undecidable, Panics):
            val = UNK
        rep.check(val == ent["value"], "limit:" + cname, "%s = %s (oracle: %d; %s)" % (cname, vname(val), ent["value"], ent["why"]),
                  cb[0].loc(cb[0].root))

    # -- lattice -------------------------------------------------------------------------------------
    lat = ORACLE["lattice"]
    order = variants(prog, CD)
    rep.check(order == lat["order"] and it.derived_ord(CD), "lattice:order",
              "CanDerive is ordered %s by a derived Ord (oracle: %s)" % (" < ".join(order), " < ".join(lat["order"])))
    db = rep.need(prog.impl_fn("std::default::Default", CD, "default"), "<CanDerive as Default>::default")
    rep.check(result_name(it, db, []) == lat["default"], "lattice:default",
              "an item nobody has complained about counts as %s (oracle: %s)" % (result_name(it, db, []), lat["default"]), db.loc(db.root))
    rank = {v: i for i, v in enumerate(lat["order"])}
    joins = [("join", rep.need(prog.fn(CD + "::join"), "CanDerive::join")),
             ("bitor", rep.need(prog.impl_fn("std::ops::BitOr", CD, "bitor"), "<CanDerive as BitOr>::bitor"))]
    for a, c in itertools.product(lat["order"], repeat=2):
        want = a if rank[a] >= rank[c] else c
        for nm, jb in joins:
            got = result_name(it, jb, [V("%s::%s" % (CD, a), ()), V("%s::%s" % (CD, c), ())])
            rep.check(got == want, "lattice:%s:%s|%s" % (nm, a, c), "%s(%s, %s) = %s (least upper bound: %s)" % (nm, a, c, got, want),
                      jb.loc(jb.root))
    ba = rep.need(prog.impl_fn("std::ops::BitOrAssign", CD, "bitor_assign"), "<CanDerive as BitOrAssign>::bitor_assign")
    asg = [n for n in ba.walk() if n["k"] == "Assign"]
    good = len(asg) == 1 and strip(asg[0]["l"]).get("name") == "self" and \
        short(callee_of(strip(asg[0]["r"]))) in ("join", "bitor", "max") and len([x for x in ba.walk(asg[0]["r"]) if x["k"] == "Local"]) == 2
    rep.check(good, "lattice:bitor_assign", "`a |= b` stores join(a, b) into a", ba.loc(ba.root))

    # -- edges followed by the joins -----------------------------------------------------------------
    never = set(ORACLE["edges"]["never"])
    for name in ("consider_edge_comp", "consider_edge_typeref", "consider_edge_tmpl_inst"):
        b = dt_method(rep, name)
        req = set(ORACLE["edges"][name]["required"])
        for t in TRAITS:
            es = edge_set(prog, it, b, t)
            if es is None:
                rep.bad("edges:%s:%s" % (name, t), "the edge predicate returned by %s(%s) cannot be evaluated" % (name, t), b.loc(b.root))
                continue
            rep.check(req <= es and not (es & never), "edges:%s:%s" % (name, t),
                      "%s(%s) follows %s; must follow %s and never %s" % (name, t, sorted(es), sorted(req), sorted(es & never) or "method/inner-item edges"),
                      b.loc(b.root))

    # -- user exclusion lists ------------------------------------------------------------------------
    nb = dt_method(rep, "not_by_name")
    for t in TRAITS:
        seen = []

        def hook(body, n, env, interp):
            if n["k"] == "MCall" and body is nb and n.get("callee", "").startswith(CTX + "::"):
                seen.append(n["callee"])
                return True
            return NotImplemented
        try:
            Interp(prog, hook).call(nb, [_dt(t), UNK, UNK])
        except (Undecidable, Panics):
            pass
        fields = set()
        for c in seen:
            cb = prog.fn(c)
            if cb is not None:
                fields |= {opt_field(x["recv"]) for x in cb.calls(lambda x: x["k"] == "MCall" and x["name"] == "matches")} - {None}
        want = ORACLE["not_by_name"][t]
        rep.check(fields == {want}, "not_by_name:" + t, "the %s analysis excludes the types matched by %s (oracle: %s)" % (t, sorted(fields), want),
                  nb.loc(nb.root))


# =====================================================================================================
#  R8.5  CannotDerive::constrain_type consults the tables for the right kind with the right polarity
# =====================================================================================================
FAMILY = {"can_derive_simple": "simple", "can_derive_pointer": "pointer", "can_derive_fnptr": "fnptr", "can_derive_vector": "vector",
          "can_derive_incomplete_array": "array", "can_derive_compound_forward_decl": "comp", "consider_edge_comp": "comp",
          "consider_edge_typeref": "join", "consider_edge_tmpl_inst": "join"}


def cannot_derive_bodies(prog):
    """methods of `impl CannotDerive` (constrain_type and whatever helpers it may be split into) + MonotoneFramework::constrain"""
    return [b for p, b in prog.bodies.items() if "ir::analysis::derive::CannotDerive" in p and b.kind == "AssocFn"]


def deep_callees(prog, b, node, helpers, depth=2):
    """callee paths of the calls below `node`, following calls into `helpers` (other CannotDerive methods)"""
    out = set()
    for c in b.calls(None, node):
        name = callee_of(c)
        out.add(name)
        hb = helpers.get(name)
        if hb is not None and depth > 0 and hb is not b:
            out |= deep_callees(prog, hb, hb.root, helpers, depth - 1)
    return out


def threshold(b, cond, interp):
    """for a comparison `x > C` / `x >= C` / `C < x` / `C <= x` with a constant side: least x that makes it true"""
    e = strip(cond)
    if e.get("k") != "Binary" or e["op"] not in (">", ">=", "<", "<="):
        return None
    for side, other, flip in ((e["r"], e["l"], False), (e["l"], e["r"], True)):
        try:
            c = interp.ev(b, side, {})
        except (Undecidable, Panics):
            continue
        if isinstance(c, int) and not isinstance(c, bool):
            op = e["op"]
            if flip:
                op = {">": "<", ">=": "<=", "<": ">", "<=": ">="}[op]
            if op == ">":
                return c + 1
            if op == ">=":
                return c
            return None
    return None


def returns_of(b, value):
    """nodes at which the body answers CanDerive::<value>: `return X`, a tail expression X, or `can_derive = X`"""
    out = []
    want = "%s::%s" % (CD, value)
    for n in b.walk():
        if n["k"] == "Path" and n["def"] == want:
            p = b.parent[n["_i"]]
            if p is None:
                continue
            if p["k"] == "Ret" or (p["k"] == "Block" and p.get("tail") is n) or (p["k"] == "Assign" and p["r"] is n):
                out.append(n)
            elif p["k"] == "Match" or p["k"] == "If":
                out.append(n)
    return out


def disjuncts(e):
    e = strip(e)
    if e.get("k") == "Binary" and e["op"] == "||":
        return disjuncts(e["l"]) + disjuncts(e["r"])
    return [e]


def has_all(atoms, req):
    return all(any(s in a and p == pol for a, p, _ in atoms) for s, pol in req)


@RULES.rule("R8.5", "constrain_type applies each table to the kind it is about, with the right polarity, and joins over members", floor=38)
def r8_5(rep):
    """The tables of R8.1 only matter through their use sites.  Routing: every TypeKind is decided by the rule family
    the oracle names (a `Reference` moved into the type-reference join would make Default follow the pointee).  Polarity:
    each `return No`/`Manually` is taken exactly when the predicate says the trait is NOT supported and the structural
    condition holds (dropping the `!` in `!can_derive_compound_with_vtable() && has_vtable` derives Default over a
    vtable pointer).  Joins: arrays/vectors answer No unless the element type is Yes; composites join over members."""
    prog = rep.prog
    it = Interp(prog)
    bodies = cannot_derive_bodies(prog)
    helpers = {p: b for p, b in prog.bodies.items() if b in bodies}
    ct = rep.need(find_fn(prog, "::constrain_type", "CannotDerive"), "CannotDerive::constrain_type")
    # ---- routing ------------------------------------------------------------------------------------
    ms = [n for n in ct.walk() if n["k"] == "Match" and ct.ty(strip(n["scrut"])) in (TK, "&" + TK) and not ct.macro_name(n)]
    rep.need(ms, "match over TypeKind in constrain_type")
    m = max(ms, key=lambda n: len(n["arms"]))
    routed = {}
    for a in m["arms"]:
        callees = deep_callees(prog, ct, a["body"], helpers)
        fam = {FAMILY[short(c)] for c in callees if c.startswith(DT + "::") and short(c) in FAMILY}
        if not fam and any(x.endswith(p) for x in callees for p in PANIC_CALLEES):
            fam = {"unreachable"}
        for v in pat_variants(a["pat"]):
            routed.setdefault(v.replace(TK + "::", "") if v != "_" else "_", set()).update(fam)
    for kind in variants(prog, TK):
        got = routed.get(kind, routed.get("_", set()))
        want = ORACLE["routing"].get(kind)
        if want is None:
            rep.bad("route:" + kind, "TypeKind::%s is unknown to the oracle; it is decided by %s" % (kind, sorted(got)), ct.loc(m))
            continue
        rep.check(got == set(want), "route:" + kind, "TypeKind::%s is decided by %s (oracle: %s)" % (kind, sorted(got), want), ct.loc(m))

    # ---- polarity of the use sites --------------------------------------------------------------------
    LIM = "RUST_DERIVE_IN_ARRAY_LIMIT"
    specs = [
        ("use:forward-decl", "No", [("can_derive_compound_forward_decl", False), ("CompInfo::is_forward_declaration", True)]),
        ("use:destructor", "No", [("can_derive_compound_with_destructor", False), ("lookup_has_destructor", True)]),
        ("use:vtable", "No", [("can_derive_compound_with_vtable", False), ("has_vtable", True)]),
        ("use:rust-union", "No", [("can_derive_union", False), ("BindgenOptions::untagged_union", True), ("CompKind::Union", True)]),
        ("use:rust-union-opaque", "No", [("can_derive_union", False), ("BindgenOptions::untagged_union", True), ("Type::is_union", True),
                                         ("IsOpaque>::is_opaque", True)]),
        ("use:incomplete-array", "No", [("can_derive_incomplete_array", False), ("== lit:0)", True)]),
        ("use:large-array", "Manually", [("can_derive_large_array", False), (LIM, True)]),
        ("use:large-bitfield-unit", "No", [("can_derive_large_array", False), ("has_too_large_bitfield_unit", True)]),
        ("use:large-alignment", "Manually", [("can_derive_large_array", False), ("Type::layout", True)]),
        ("use:excluded-by-name", "No", [("DeriveTrait::not_by_name", True)]),
        ("use:array-element", "No", [("arm:Array", True), ("CannotDerive::can_derive", True), ("!= %s::Yes" % CD, True)]),
        ("use:vector-element", "No", [("arm:Vector", True), ("CannotDerive::can_derive", True), ("!= %s::Yes" % CD, True)]),
    ]
    sites = {}
    for b in bodies:
        for val in ("No", "Manually"):
            for n in returns_of(b, val):
                atoms = list(qq.guard_atoms(b, n))
                # name the TypeKind arm the site sits in
                for pol, kind, payload in b.guards(n):
                    if kind == "arm":
                        mm, i = payload
                        for v in pat_variants(mm["arms"][i]["pat"]):
                            if v.startswith(TK + "::"):
                                atoms.append(("arm:" + short(v), True, mm))
                # `x == Yes` with negative polarity is `x != Yes`
                atoms += [(a.replace(" == ", " != "), True, x) for a, p, x in atoms if not p and " == " in a]
                sites.setdefault(val, []).append((b, n, atoms))
    for key, val, req in specs:
        hit = [(b, n) for b, n, atoms in sites.get(val, []) if has_all(atoms, req)]
        rep.check(bool(hit), key, "%s is answered when %s" % (val, " and ".join(("" if p else "not ") + s for s, p in req)),
                  hit[0][0].loc(hit[0][1]) if hit else ct.loc(ct.root))
    # no `No`/`Manually` answer under a *positive* table answer (inverted polarity)
    for val in ("No", "Manually"):
        for b, n, atoms in sites.get(val, []):
            inv = [a for a, p, _ in atoms if p and re.search(r"DeriveTrait::can_derive_\w+\(", a) and " == " not in a and " != " not in a]
            # `if can_derive_union() { if untagged && templated { return No } }` is the one legitimate positive use (rust issue 36640)
            inv = [a for a in inv if "can_derive_union" not in a]
            if inv:
                rep.bad("polarity:%s@%s" % (short(b.path), short(inv[0].split("(")[0])),
                        "%s is answered although %s says the trait is supported" % (val, inv[0][:80]), b.loc(n))
    rep.ok("polarity", "no No/Manually answer is guarded by a positive table answer")

    # ---- thresholds -----------------------------------------------------------------------------------
    want = ORACLE["limits"][LIM]["value"] + 1
    th = []
    for b, n, atoms in sites.get("Manually", []):
        for a, p, x in atoms:
            if LIM in a and p and isinstance(x, dict):
                th.append((b, x, threshold(b, x, it)))
    rep.check(bool(th) and all(t == want for _, _, t in th), "limit:array-length",
              "arrays become Manually from length %s (oracle: %d)" % ([t for _, _, t in th], want), th[0][0].loc(th[0][1]) if th else "")
    cons = [b for b in bodies if b.path.endswith("::constrain")]
    rep.need(cons, "<CannotDerive as MonotoneFramework>::constrain")
    al = []
    for b in cons:
        for n in b.walk():
            if n["k"] == "Binary" and n["op"] in (">", ">=", "<", "<=") and any(x["k"] == "Field" and x.get("adt") == "ir::layout::Layout" and
                                                                               x["f"] == "align" for x in b.walk(n)):
                al.append((b, n, threshold(b, n, it)))
    rep.check(bool(al) and all(t == want for _, _, t in al), "limit:alignment",
              "types become Manually from alignment %s (oracle: %d; padding arrays may exceed the limit)" % ([t for _, _, t in al], want),
              al[0][0].loc(al[0][1]) if al else "")
    bu = rep.need(prog.fn("ir::comp::CompInfo::has_too_large_bitfield_unit"), "CompInfo::has_too_large_bitfield_unit")
    bt = [(n, threshold(bu, n, it)) for n in bu.walk() if n["k"] == "Binary" and n["op"] in (">", ">=", "<", "<=")]
    rep.check(bool(bt) and all(t == want for _, t in bt), "limit:bitfield-unit",
              "a bit-field unit is too large from %s bytes (oracle: %d)" % ([t for _, t in bt], want), bu.loc(bu.root))

    # ---- joins ----------------------------------------------------------------------------------------
    cj = rep.need(find_fn(prog, "::constrain_join", "CannotDerive"), "CannotDerive::constrain_join")
    ors = [n for n in cj.walk() if n["k"] == "AssignOp" and n["op"] == "|="]
    reads = [c for c in cj.calls(lambda x: x["k"] == "MCall" and x["name"] == "get") if "CannotDerive::can_derive" in cj.canon(c["recv"], 3)]
    rep.check(len(ors) >= 1 and bool(reads), "join:members", "constrain_join folds the members' results with `|=` (%d site(s))" % len(ors),
              cj.loc(cj.root))
    ok = True
    for r in [n for n in cj.walk() if n["k"] in ("Ret", "Continue")]:
        for pol, kind, g in cj.guards(r):
            if kind != "cond" or cj.macro_name(g) in LOG_MACROS:
                continue
            for d in disjuncts(g) if pol else [g]:
                s_ = cj.canon(d, 5)
                self_edge = " == " in s_ and "Item::id" in s_ and pol
                rejected = pol and re.fullmatch(r"\(!param:\w+\(cparam:\w+\)\)", s_) is not None
                if not (self_edge or rejected):
                    ok = False
    rep.check(ok, "join:skips", "a member is skipped only when it is the item itself or its edge kind is rejected by the edge predicate", cj.loc(cj.root))
    tails = [n for n in cj.walk() if n["k"] == "MCall" and n["name"] in ("unwrap_or_default", "unwrap_or") and cj.parent[n["_i"]] is cj.root]
    rep.check(bool(tails), "join:result", "the folded value is the answer (Yes when there is no member)", cj.loc(cj.root))
    # the opaque early return is not trait dependent apart from the union test (R8.6 relies on it)
    yes = [(b, n) for b in bodies for n in returns_of(b, "Yes") if qq.has_atom(qq.guard_atoms(b, n), "IsOpaque>::is_opaque", True)]
    dep = [a for b, n in yes for a, p, _ in qq.guard_atoms(b, n) if "derive_trait" in a and "can_derive_union" not in a and "not_by_name" not in a]
    rep.check(bool(yes) and not dep, "opaque:all-traits", "an opaque item answers Yes for every trait (blob of integers)%s" %
              ("; but depends on %s" % dep[0][:60] if dep else ""), yes[0][0].loc(yes[0][1]) if yes else ct.loc(ct.root))


# =====================================================================================================
#  R8.2  option gating, float exclusion, wiring of the analysis results
# =====================================================================================================
def result_fields(prog):
    """Option-typed field of BindgenContext -> (generic analysis name, DeriveTrait variant or None, body, assign node)"""
    out = {}
    for b in prog.methods_of(CTX):
        for n in b.walk():
            if n["k"] != "Assign":
                continue
            l = n["l"]
            if l.get("k") != "Field" or l.get("adt") != CTX:
                continue
            for c in b.calls(lambda x: x["k"] == "Call" and x.get("callee") == "ir::analysis::analyze", n["r"]):
                g = re.sub(r"<.*", "", c.get("gargs", "[?]").strip("[]")).rsplit("::", 1)[-1]
                tr = [short(x["def"]) for x in b.walk(c) if x["k"] == "Path" and x["def"].startswith(DT + "::")]
                out[l["f"]] = (g, tr[0] if tr else None, b, n)
    return out


def fields_read(b, fields):
    return {n["f"] for n in b.walk() if n["k"] == "Field" and n.get("adt") == CTX and n["f"] in fields}


@RULES.rule("R8.2", "CanDeriveX = option && analysis result [&& no float]; results are wired to the right analysis", floor=34)
def r8_2(rep):
    """`impl<T> CanDeriveX for T` must be exactly `options.derive_x && lookup_x(id)`, Eq and Ord additionally
    `!lookup_has_float(id)`, reading the result of the analysis the oracle names.  Breaks: dropping `!lookup_has_float`
    from can_derive_eq derives Eq on `struct { float f; }` (E0277); can_derive_hash reading the Debug result derives
    Hash over floats; dropping `options.derive_hash` derives Hash although the user did not ask (and unwraps a result
    that was never computed)."""
    prog = rep.prog
    res = result_fields(prog)
    rep.need(res, "assignments of analysis results to BindgenContext fields")
    # wiring of compute_* : field <- analysis
    by_trait = {}
    for f, (g, tr, b, n) in sorted(res.items()):
        if g == "CannotDerive":
            rep.check(tr is not None and tr.lower() in f.replace("_", "") + "partialeqorpartialord" and
                      (f.replace("cannot_derive_", "").replace("_", "") == tr.lower()),
                      "wire:compute:" + f, "`%s` holds the CannotDerive analysis of DeriveTrait::%s" % (f, tr), b.loc(n))
            by_trait.setdefault(tr, []).append(f)
        elif g == "HasFloat":
            rep.check(f == "has_float", "wire:compute:" + f, "`%s` holds the HasFloat analysis" % f, b.loc(n))
    for t in TRAITS:
        rep.check(len(by_trait.get(t, [])) == 1, "wire:analysis:" + t, "exactly one result field holds the %s analysis (%s)" % (t, by_trait.get(t)))
    float_fields = {f for f, v in res.items() if v[0] == "HasFloat"}
    derive_fields = {f: v[1] for f, v in res.items() if v[0] == "CannotDerive"}

    # lookup_* : which result they read and with which polarity
    lookups = {}
    for b in prog.methods_of(CTX):
        rd = fields_read(b, set(derive_fields) | float_fields)
        if not rd or b.path in {v[2].path for v in res.values()}:
            continue
        tail = b.root.get("tail")
        if tail is None:
            continue
        lookups[b.path] = (b, rd)
        if b.ty(tail) == "bool":
            ats = atoms_of(b, tail)
            own = [(a, p) for a, p, x in ats if any("%s::%s" % (CTX, f) in a for f in rd) and "contains(" in a]
            want_pol = bool(rd & float_fields)     # has_float: member of the set; cannot_derive_x: NOT member of the set
            rep.check(len(own) == 1 and own[0][1] == want_pol and len(rd) == 1, "wire:lookup:" + short(b.path),
                      "%s is %s membership in `%s`" % (short(b.path), "" if want_pol else "the negation of", sorted(rd)), b.loc(tail))
            extra = [(a, p) for a, p, x in ats if (a, p) not in own]
            for a, p in extra:
                rep.check(not p and "BindgenContext::lookup_" in a, "wire:lookup-extra:" + short(b.path),
                          "additional condition of %s only withholds: %s%s" % (short(b.path), "" if p else "!", a[:70]), b.loc(tail))
        else:
            t = strip(tail)
            dflt = t.get("k") == "MCall" and t["name"] == "unwrap_or" and b.canon(t["args"][0], 2) == CD + "::" + ORACLE["lattice"]["default"]
            rep.check(dflt and len(rd) == 1, "wire:lookup:" + short(b.path),
                      "%s returns the recorded value of `%s`, %s for items the analysis never complained about" %
                      (short(b.path), sorted(rd), ORACLE["lattice"]["default"]), b.loc(tail))

    def classify(b, a, p, x):
        """('opt', name) | ('analysis', DeriveTrait, form) | ('float',) | ('other', text)"""
        of = opt_field(x)
        if of:
            return ("opt", of)
        e = strip(x)
        cmp_yes = None
        if e.get("k") == "Binary" and e["op"] in ("==", "!="):
            for u, w in ((e["l"], e["r"]), (e["r"], e["l"])):
                if strip(w).get("k") == "Path" and strip(w)["def"].startswith(CD + "::"):
                    cmp_yes = (e["op"], short(strip(w)["def"]))
                    e = strip(u)
        if e.get("k") == "MCall" and callee_of(e) in lookups:
            lb, rd = lookups[callee_of(e)]
            arg_ok = len(e["args"]) == 1 and b.canon(e["args"][0], 2) in ("param:self", "(*param:self)")
            if rd & float_fields:
                return ("float", arg_ok)
            f = sorted(rd)[0]
            return ("analysis", derive_fields.get(f), cmp_yes, arg_ok)
        return ("other", a[:80])

    for x, g in sorted(ORACLE["gating"].items()):
        if x.startswith("_"):
            continue
        trait = "ir::derive::CanDerive" + x
        meth = "can_derive_" + x.lower()
        gen = [b for b in prog.bodies.values() if b.fact.get("impl_trait") == trait and b.fact.get("impl_self") != "ir::item::Item" and
               b.path.endswith("::" + meth)]
        rep.need(gen, "impl<T> %s for T" % trait)
        b = gen[0]
        tail = rep.need(b.root.get("tail"), "tail expression of " + b.path)
        got = []
        for a, p, node in atoms_of(b, tail):
            c = classify(b, a, p, node)
            if c[0] == "analysis":
                # bool lookups are used as-is (positive); CanDerive lookups must be compared `== Yes`
                form_ok = (c[2] is None and p) or (c[2] == ("==", "Yes") and p) or (c[2] == ("!=", "Yes") and not p)
                got.append(("analysis", c[1], form_ok and c[3]))
            elif c[0] == "float":
                got.append(("float", p, c[1]))
            elif c[0] == "opt":
                got.append(("opt", c[1], p))
            else:
                got.append(c)
        want = [("opt", g["option"], True), ("analysis", g["analysis"], True)] + ([("float", False, True)] if g["float_excluded"] else [])
        rep.check(sorted(map(str, got)) == sorted(map(str, want)), "gate:" + x,
                  "%s for an id is %s; must be exactly %s" % (meth, got, want), b.loc(tail))
        # the Item impl delegates to the same trait on its own id
        ib = rep.need(prog.impl_fn(trait, "ir::item::Item", meth), "<Item as %s>" % trait)
        t = strip(ib.root.get("tail") or {})
        ok = t.get("k") == "MCall" and t.get("trait") == trait and t["name"] == meth and ib.canon(t["recv"], 3) == "param:self.ir::item::Item::id"
        rep.check(ok, "gate-item:" + x, "<Item as CanDerive%s> asks the same question about its own id (%s)" % (x, ib.canon(t, 3)[:90] if t else "?"),
                  ib.loc(ib.root))


# =====================================================================================================
#  R8.3  results that are computed only under a condition are only unwrapped under a guard implying it
#        (generic; C12 R12.1 re-uses `check_guarded_unwraps`)
# =====================================================================================================
UNWRAPS = ("unwrap", "expect", "unwrap_unchecked")


def atom_key(b, a, x):
    """canonical, body-independent key of a guard atom: option fields become `opt:<field>`"""
    of = opt_field(x) if isinstance(x, dict) else None
    return "opt:" + of if of else "x:" + a


def guard_literals(b, node):
    """[(key, polarity)] of the guard chain of node; atoms that come from assertion macros are dropped (a failed
    assertion panics, it does not silently skip)"""
    out = []
    for a, p, x in qq.guard_atoms(b, node):
        if isinstance(x, dict) and x.get("k") and b.macro_name(x) in ASSERT_MACROS:
            continue
        if a.startswith(("arm:", "letelse:")):
            out.append(("x:" + a, p))
            continue
        out.append((atom_key(b, a, x), p))
    return out


def call_index(prog):
    """callee path -> [(body, call node)] over the whole crate (both the trait item and the resolved impl method)"""
    idx = getattr(prog, "_c08_call_index", None)
    if idx is None:
        idx = {}
        for b in prog.bodies.values():
            for n in b.nodes:
                if n["k"] in ("Call", "MCall"):
                    for key in {n.get("resolved"), n.get("callee")} - {None}:
                        idx.setdefault(key, []).append((b, n))
        prog._c08_call_index = idx
    return idx


def conditional_results(prog, adt):
    """Option-typed fields of `adt` that some method fills with `Some(..)`.

    -> {field: {"dnf": [[(key, pol), ..], ..], "sites": [(body, assign node)], "unconditional": bool}}
    The condition of a site is its own guard chain conjoined with the guard chain of each call of the assigning method
    (one level: `compute_x` is called from `gen`)."""
    a = prog.adts.get(adt)
    if not a:
        return {}
    opt_fields = {f["name"] for v in a["variants"] for f in v["fields"] if prog.types[f["ty"]].startswith("std::option::Option<")}
    idx = call_index(prog)
    out = {}
    for b in prog.bodies.values():
        for n in b.nodes:
            if n["k"] != "Assign":
                continue
            l = n["l"]
            if l.get("k") != "Field" or l.get("adt") != adt or l["f"] not in opt_fields:
                continue
            r = strip(n["r"])
            if not (r.get("k") == "Call" and short(r.get("ctor", "")) == "Some"):
                continue
            own = guard_literals(b, n)
            callers = idx.get(b.path, [])
            conjs = [own + guard_literals(kb, kc) for kb, kc in callers] or [own]
            ent = out.setdefault(l["f"], {"dnf": [], "sites": []})
            ent["dnf"] += conjs
            ent["sites"].append((b, n))
    for f, ent in out.items():
        ent["unconditional"] = any(not c for c in ent["dnf"])
    return out


def entails(lits, dnf, implications=()):
    """does the conjunction `lits` imply the DNF, for every valuation of the option atoms that respects `implications`
    (pairs (a, b) meaning opt a => opt b)?  Non-option atoms of the DNF count only if the same literal is in `lits`."""
    have = set(lits)
    opts = sorted({k for k, _ in lits if k.startswith("opt:")} | {k for c in dnf for k, _ in c if k.startswith("opt:")} |
                  {"opt:" + x for ab in implications for x in ab})
    if len(opts) > 14:
        return False
    for vals in itertools.product((False, True), repeat=len(opts)):
        w = dict(zip(opts, vals))
        if any(w["opt:" + a] and not w["opt:" + b] for a, b in implications):
            continue
        if not all(w[k] == p for k, p in lits if k in w):
            continue
        sat = False
        for c in dnf:
            if all((w[k] == p) if k in w else ((k, p) in have) for k, p in c):
                sat = True
                break
        if not sat:
            return False
    return True


_INV_CACHE = {}


def option_invariant(prog, a, b):
    """Is `options.a => options.b` an invariant of BindgenOptions?  True iff it holds for the default value and every
    body that assigns either field (or builds a BindgenOptions literal) preserves it, for all values of its bool
    parameters.  -> (bool, explanation)"""
    key = (id(prog), a, b)
    if key in _INV_CACHE:
        return _INV_CACHE[key]
    ka, kb = (OPTS, a), (OPTS, b)
    writers, literals, borrowed = [], [], []
    for body in prog.bodies.values():
        w = False
        for n in body.nodes:
            if n["k"] in ("Assign", "AssignOp") and n["l"].get("k") == "Field" and n["l"].get("adt") == OPTS and n["l"]["f"] in (a, b):
                w = True
            elif n["k"] == "Struct" and n.get("adt") == OPTS:
                literals.append((body, n))
            elif n["k"] == "AddrOf" and n.get("mut") and strip(n["e"]).get("k") == "Field" and strip(n["e"]).get("adt") == OPTS and \
                    strip(n["e"])["f"] in (a, b):
                borrowed.append(body.path)
        if w:
            writers.append(body)
    res = (True, "%d writer(s), %d literal(s)" % (len(writers), len(literals)))
    if borrowed:
        res = (False, "`&mut options.%s/%s` escapes in %s" % (a, b, borrowed[0]))
    pre = [(False, False), (False, True), (True, True)]
    for body, lit in literals:
        if not res[0]:
            break
        fs = {f["f"]: f["e"] for f in lit["fs"]}
        for sa, sb in pre:
            it = Interp(prog, state={ka: sa, kb: sb})
            try:
                va = it.ev(body, fs[a], {}) if a in fs else sa
                vb = it.ev(body, fs[b], {}) if b in fs else sb
            except (Undecidable, Panics) as e:
                va = vb = UNK
            if va is not False and vb is not True:
                res = (False, "a BindgenOptions literal in %s can hold %s=%s, %s=%s" % (body.path, a, vname(va), b, vname(vb)))
                break
    for body in writers:
        if not res[0]:
            break
        bools = [i for i, t in enumerate(body.fact.get("inputs", [])) if body.prog.types[t] == "bool"] \
            if body.fact.get("inputs") and isinstance(body.fact["inputs"][0], int) else \
            [i for i, p in enumerate(body.params) if p.get("t") is not None and body.prog.types[p["t"]] == "bool"]
        for combo in itertools.product((False, True), repeat=len(bools)):
            for sa, sb in pre:
                it = Interp(prog, state={ka: sa, kb: sb})
                args = [UNK] * len(body.params)
                for i, v in zip(bools, combo):
                    args[i] = v
                try:
                    it.call(body, args)
                    va, vb = it.state[ka], it.state[kb]
                except (Undecidable, Panics) as e:
                    va = vb = UNK
                if va is not False and vb is not True:
                    res = (False, "%s(%s) can leave %s=%s with %s=%s" % (short(body.path), ",".join(map(str, combo)), a, vname(va), b, vname(vb)))
                    break
            if not res[0]:
                break
    _INV_CACHE[key] = res
    return res


def check_guarded_unwraps(rep, adt, prefix="unwrap", only_fields=None, max_depth=4):
    """For every `self.<F>.unwrap()/expect()` of a conditionally computed Option field F of `adt`: the guard chain of the
    unwrap — extended through the callers of the enclosing function as long as necessary — implies the condition
    under which F is computed (modulo verified invariants between option flags).
    Emits one instance per unwrap site (`<prefix>:<F>@<fn>`) plus `computed:<F>` and `invariant:<a>=><b>`."""
    prog = rep.prog
    res = conditional_results(prog, adt)
    idx = call_index(prog)
    used_inv = {}

    def prove(lits, dnf):
        if entails(lits, dnf):
            return True
        pos = [k[4:] for k, p in lits if k.startswith("opt:") and p]
        tgt = sorted({k[4:] for c in dnf for k, p in c if k.startswith("opt:") and p})
        impl = []
        for a in pos:
            for b in tgt:
                if a != b:
                    ok, why = option_invariant(prog, a, b)
                    if ok:
                        impl.append((a, b))
        if impl and entails(lits, dnf, impl):
            for ab in impl:
                if not entails(lits, dnf, [x for x in impl if x != ab]):
                    used_inv[ab] = option_invariant(prog, *ab)[1]
            return True
        return False

    def obligation(b, node, lits, dnf, depth, seen):
        """-> list of (ok, description, loc) leaves"""
        lits = lits + guard_literals(b, node)
        if prove(lits, dnf):
            return [(True, "guarded in %s by %s" % (short(b.path), [("" if p else "!") + k for k, p in lits if k.startswith("opt:")]), b.loc(node))]
        callers = idx.get(b.path, [])
        ti = b.fact.get("trait_item")
        if ti:
            callers = callers + [c for c in idx.get(ti, []) if c not in callers]
        if depth <= 0 or not callers or b.path in seen:
            return [(False, "reached in %s under %s only" % (b.path, [("" if p else "!") + k for k, p in lits if k.startswith("opt:")] or "no option guard"),
                     b.loc(node))]
        out = []
        keep = [(k, p) for k, p in lits if k.startswith("opt:")]
        for kb, kc in callers:
            out += obligation(kb, kc, keep, dnf, depth - 1, seen | {b.path})
        return out

    n_sites = 0
    for f, ent in sorted(res.items()):
        if only_fields is not None and f not in only_fields:
            continue
        cond = " || ".join(" && ".join(("" if p else "!") + k for k, p in c) or "true" for c in ent["dnf"])
        rep.ok("computed:" + f, "`%s` is filled %s" % (f, "unconditionally" if ent["unconditional"] else "only when " + cond),
               ent["sites"][0][0].loc(ent["sites"][0][1]))
        for b in prog.bodies.values():
            for n in b.nodes:
                if n["k"] == "MCall" and n["name"] in UNWRAPS:
                    r = strip(n["recv"])
                    if r.get("k") == "Field" and r.get("adt") == adt and r["f"] == f:
                        n_sites += 1
                        key = "%s:%s@%s" % (prefix, f, short(b.path))
                        if ent["unconditional"]:
                            rep.ok(key, "always computed", b.loc(n))
                            continue
                        leaves = obligation(b, n, [], ent["dnf"], max_depth, frozenset())
                        bad = [l for l in leaves if not l[0]]
                        if bad:
                            rep.bad(key, "`%s` is computed only when %s, but its unwrap is %s" % (f, cond, bad[0][1]), bad[0][2])
                        else:
                            rep.ok(key, "`%s` (computed when %s): %s" % (f, cond, "; ".join(sorted({l[1] for l in leaves}))[:300]), b.loc(n))
    for (a, b), why in sorted(used_inv.items()):
        rep.ok("invariant:%s=>%s" % (a, b), "every setter keeps `%s` implying `%s` (%s)" % (a, b, why))
    return n_sites


@RULES.rule("R8.3", "a conditionally computed analysis result is only unwrapped under a guard that implies its condition", floor=22)
def r8_3(rep):
    """`compute_cannot_derive_hash` fills `cannot_derive_hash` only under `options.derive_hash`; `lookup_can_derive_hash`
    unwraps it.  Every path to the unwrap must carry a guard that implies the filling condition, otherwise bindgen
    panics on `None` (e.g. calling `lookup_can_derive_hash` from codegen without testing `derive_hash`, or computing the
    PartialEq/PartialOrd result under `derive_partialord || derive_partialeq` only while can_derive_eq reads it under
    `derive_eq`).  Implications between option flags (`derive_ord => derive_partialord`) are used only after checking
    that every Builder setter preserves them."""
    n = check_guarded_unwraps(rep, CTX)
    rep.check(n >= 10, "unwrap-sites", "%d unwrap sites of computed results" % n)
