"""C08 — traits are derived exactly when the rules allow; hand-written impls act like derives.

Structure of the module
  * `Interp`            a small evaluator of pure bodies of the type-checked HIR (match / if / matches! /
                        ==, &&, constants, calls into other crate bodies).  It turns every `DeriveTrait::can_derive_*`
                        predicate into a truth table, whatever its syntactic shape (if <-> match, reordered arms,
                        extracted helpers), so the tables can be compared with `oracle/derive_rules.json`.
  * `conditional_results` / `check_guarded_unwraps`
                        the generic "a result that is computed only under condition C is only unwrapped under a
                        guard that implies C" check (R8.3; written for re-use by C12 R12.1).
  * rules R8.1 .. R8.7.
"""
import itertools
import json
import os
import re

from engine import RuleSet
from hir import strip, pat_variants, pat_str, kids
import qq

RULES = RuleSet("C08", "§3 C08",
                assumptions=["oracle/derive_rules.json states what the Rust language/library and the property statement allow; "
                             "it is knowledge about Rust, not about bindgen"],
                not_decided=["run-time behaviour of the hand-written impls on concrete values (needs execution)",
                             "that the fix-point driver reaches the least fixed point of the extracted rules (decided under C07)",
                             "trait support of user-blocklisted types (answered by the user's callback)"])

HERE = os.path.dirname(os.path.abspath(__file__))
with open(os.path.join(HERE, "oracle", "derive_rules.json")) as _fh:
    ORACLE = json.load(_fh)

DT = "ir::analysis::derive::DeriveTrait"
CD = "ir::derive::CanDerive"
TK = "ir::ty::TypeKind"
EK = "ir::traversal::EdgeKind"
CTX = "ir::context::BindgenContext"
OPTS = "options::BindgenOptions"
TRAITS = ORACLE["traits"]
LOG_MACROS = {"trace", "debug", "info", "warn", "error", "log::trace", "log::debug", "log::info", "log::warn", "log::error"}
ASSERT_MACROS = {"assert", "debug_assert", "assert_eq", "assert_ne", "debug_assert_eq", "debug_assert_ne", "extra_assert",
                 "extra_assert_eq"}
PANIC_CALLEES = ("::panic_fmt", "::panicking::panic", "::panicking::assert_failed", "::panic_display", "::unreachable_display",
                 "::panicking::panic_explicit")


# =====================================================================================================
#  Interp: evaluation of pure HIR bodies
# =====================================================================================================
class Undecidable(Exception):
    """The evaluator met a construct whose value decides the result but is not known."""


class Panics(Exception):
    """Evaluation reached panic!/unreachable!."""


class _Return(Exception):
    def __init__(self, v):
        self.v = v


UNK = ("unk",)


def V(path, args=None):
    """an enum variant value; args = tuple of payload values or None when the payload is unknown/irrelevant"""
    return ("v", path, args)


def is_v(x):
    return isinstance(x, tuple) and len(x) == 3 and x[0] == "v"


def vname(x):
    """printable form of an evaluation result"""
    if is_v(x):
        s = x[1].split("::")[-1]
        if x[2]:
            s += "(%s)" % ",".join(vname(a) for a in x[2])
        return s
    if x is UNK:
        return "?"
    if isinstance(x, tuple) and x and x[0] == "tup":
        return "(%s)" % ",".join(vname(a) for a in x[1])
    return str(x)


class Interp:
    """Evaluates expression trees of `hir.Body`.

    hook(body, node, env, interp) -> value | NotImplemented   lets the caller supply symbolic inputs
    state: dict (adt, field) -> value for tracked field assignments (`self.options.x = ..`)."""

    MAX_DEPTH = 8

    def __init__(self, prog, hook=None, state=None):
        self.prog = prog
        self.hook = hook
        self.state = state if state is not None else {}
        self.depth = 0
        self._variant_index = {}

    # ---- entry points -----------------------------------------------------------------------------
    def call(self, body, args):
        """value of calling `body` with positional argument values (panics -> Panics)."""
        if self.depth >= self.MAX_DEPTH:
            return UNK
        env = {}
        for p, a in zip(body.params, list(args) + [UNK] * len(body.params)):
            self.pmatch(body, p, a, env)
        self.depth += 1
        try:
            return self.ev(body, body.root, env)
        except _Return as r:
            return r.v
        finally:
            self.depth -= 1

    def call_closure(self, clo, args):
        _, body, node, env = clo
        env = dict(env)
        for p, a in zip(node["params"], list(args) + [UNK] * len(node["params"])):
            self.pmatch(body, p, a, env)
        self.depth += 1
        try:
            return self.ev(body, node["body"], env)
        except _Return as r:
            return r.v
        finally:
            self.depth -= 1

    # ---- helpers ----------------------------------------------------------------------------------
    def variant_rank(self, path):
        adt = path.rsplit("::", 1)[0]
        if adt not in self._variant_index:
            a = self.prog.adts.get(adt)
            self._variant_index[adt] = {adt + "::" + v["name"]: i for i, v in enumerate(a["variants"])} if a else {}
        return self._variant_index[adt].get(path)

    def derived_ord(self, adt):
        b = self.prog.impl_fn("std::cmp::Ord", adt, "cmp")
        return b is not None and (b.macro_name(b.root) or "").startswith("derive")

    def is_unit_variant(self, path):
        adt = path.rsplit("::", 1)[0]
        a = self.prog.adts.get(adt)
        if not a:
            return False
        for v in a["variants"]:
            if v["name"] == path.rsplit("::", 1)[1]:
                return not v["fields"]
        return False

    def has_effects(self, body, n):
        for x in body.walk(n):
            if x["k"] in ("Ret", "Assign", "AssignOp", "Break", "Continue"):
                return True
        return False

    def cmp_values(self, op, a, b):
        if a is UNK or b is UNK:
            return UNK
        if op in ("==", "!="):
            if is_v(a) and is_v(b):
                if a[1] != b[1]:
                    r = False
                elif a[2] is None or b[2] is None:
                    if not self.is_unit_variant(a[1]):
                        return UNK
                    r = True
                else:
                    r = a[2] == b[2]
            elif isinstance(a, (bool, int, str)) and isinstance(b, (bool, int, str)):
                r = a == b
            elif isinstance(a, tuple) and isinstance(b, tuple) and a[:1] == ("tup",) and b[:1] == ("tup",):
                r = a == b
            else:
                return UNK
            return r if op == "==" else not r
        # ordering
        if isinstance(a, int) and isinstance(b, int) and not isinstance(a, bool) and not isinstance(b, bool):
            x, y = a, b
        elif is_v(a) and is_v(b):
            adt = a[1].rsplit("::", 1)[0]
            if adt != b[1].rsplit("::", 1)[0] or not self.derived_ord(adt):
                return UNK
            x, y = self.variant_rank(a[1]), self.variant_rank(b[1])
            if x is None or y is None:
                return UNK
        else:
            return UNK
        return {"<": x < y, "<=": x <= y, ">": x > y, ">=": x >= y}[op]

    # ---- patterns ---------------------------------------------------------------------------------
    def irrefutable(self, p):
        k = p.get("k")
        if k in ("Wild", "Missing"):
            return True
        if k == "Bind":
            return "sub" not in p or self.irrefutable(p["sub"])
        if k in ("PRef", "PGuard"):
            return self.irrefutable(p["p"])
        if k == "PTuple":
            return all(self.irrefutable(q) for q in p["ps"])
        return False

    def pmatch(self, body, p, v, env):
        """True / False / None (unknown)"""
        k = p.get("k")
        if k in ("Wild", "Missing"):
            return True
        if k == "Bind":
            env[p["id"]] = v
            return self.pmatch(body, p["sub"], v, env) if "sub" in p else True
        if k in ("PRef", "PGuard"):
            return self.pmatch(body, p["p"], v, env)
        if k == "PTuple":
            if isinstance(v, tuple) and v[:1] == ("tup",) and len(v[1]) == len(p["ps"]):
                out = True
                for q, x in zip(p["ps"], v[1]):
                    r = self.pmatch(body, q, x, env)
                    if r is False:
                        return False
                    if r is None:
                        out = None
                return out
            return True if self.irrefutable(p) else None
        if k == "POr":
            unknown = False
            for q in p["ps"]:
                r = self.pmatch(body, q, v, env)
                if r is True:
                    return True
                if r is None:
                    unknown = True
            return None if unknown else False
        if k == "PLit":
            if v is UNK or not isinstance(v, (bool, int, str)):
                return None
            lit = p.get("v")
            if p.get("neg"):
                lit = -lit
            return v == lit
        if k == "PPath":
            if not is_v(v):
                return None
            return v[1] == p["res"].get("def")
        if k in ("PTupleStruct", "PStruct"):
            if not is_v(v):
                return None
            if v[1] != p["res"].get("def"):
                return False
            subs = p["ps"] if k == "PTupleStruct" else [f["p"] for f in p["fs"]]
            if v[2] is not None and k == "PTupleStruct" and len(v[2]) == len(subs):
                out = True
                for q, x in zip(subs, v[2]):
                    r = self.pmatch(body, q, x, env)
                    if r is False:
                        return False
                    if r is None:
                        out = None
                return out
            for q in subs:
                self.pmatch(body, q, UNK, env)
            return True if all(self.irrefutable(q) for q in subs) else None
        if k == "PRange":
            return None
        return None

    # ---- expressions ------------------------------------------------------------------------------
    def ev(self, body, n, env):
        if self.hook is not None:
            r = self.hook(body, n, env, self)
            if r is not NotImplemented:
                return r
        return getattr(self, "ev_" + n["k"], self.ev_other)(body, n, env)

    def ev_other(self, body, n, env):
        return UNK

    def ev_Block(self, body, n, env):
        for st in n.get("stmts", []):
            self.ev(body, st, env)
        if isinstance(n.get("tail"), dict):
            return self.ev(body, n["tail"], env)
        return ("tup", ())

    def ev_Let(self, body, n, env):
        v = self.ev(body, n["init"], env) if isinstance(n.get("init"), dict) else UNK
        r = self.pmatch(body, n["pat"], v, env)
        if "els" in n:
            if r is None:
                raise Undecidable("let-else on an unknown value at %s" % body.loc(n))
            if r is False:
                self.ev(body, n["els"], env)
        return ("tup", ())

    def _stmt(self, body, n, env):
        e = n["e"]
        mac = body.macro_name(e)
        if mac in LOG_MACROS:
            return ("tup", ())
        self.ev(body, e, env)
        return ("tup", ())

    ev_Semi = _stmt
    ev_ExprStmt = _stmt

    def _unknown_branch(self, body, n, what):
        mac = body.macro_name(n)
        if mac in ASSERT_MACROS or mac in LOG_MACROS:
            return UNK
        if self.has_effects(body, n):
            raise Undecidable("%s on a value the evaluator does not know, at %s" % (what, body.loc(n)))
        return UNK

    def ev_If(self, body, n, env):
        c = n["cond"]
        if c["k"] == "LetCond":
            v = self.ev(body, c["init"], env)
            r = self.pmatch(body, c["pat"], v, env)
        else:
            r = self.ev(body, c, env)
            if r is UNK:
                r = None
        if r is None:
            return self._unknown_branch(body, n, "`if`")
        if r:
            return self.ev(body, n["then"], env)
        if "else" in n:
            return self.ev(body, n["else"], env)
        return ("tup", ())

    def ev_LetCond(self, body, n, env):
        v = self.ev(body, n["init"], env)
        r = self.pmatch(body, n["pat"], v, env)
        return UNK if r is None else r

    def ev_Match(self, body, n, env):
        v = self.ev(body, n["scrut"], env)
        for a in n["arms"]:
            r = self.pmatch(body, a["pat"], v, env)
            if r is None:
                return self._unknown_branch(body, n, "`match`")
            if not r:
                continue
            if "guard" in a:
                g = self.ev(body, a["guard"], env)
                if g is UNK:
                    return self._unknown_branch(body, n, "match guard")
                if not g:
                    continue
            return self.ev(body, a["body"], env)
        raise Undecidable("no arm of the match at %s matches %s" % (body.loc(n), vname(v)))

    def ev_Unary(self, body, n, env):
        v = self.ev(body, n["e"], env)
        if n["op"] == "!":
            return UNK if not isinstance(v, bool) else (not v)
        if n["op"] == "*":
            return v
        if n["op"] == "-" and isinstance(v, int):
            return -v
        return UNK

    def ev_AddrOf(self, body, n, env):
        return self.ev(body, n["e"], env)

    ev_Cast = ev_AddrOf

    def ev_Binary(self, body, n, env):
        op = n["op"]
        if op in ("&&", "||"):
            l = self.ev(body, n["l"], env)
            if isinstance(l, bool):
                if op == "&&" and not l:
                    return False
                if op == "||" and l:
                    return True
                return self.ev(body, n["r"], env)
            try:
                r = self.ev(body, n["r"], env)
            except (Undecidable, Panics):
                return UNK
            if isinstance(r, bool) and ((op == "&&" and not r) or (op == "||" and r)):
                return r
            return UNK
        l = self.ev(body, n["l"], env)
        r = self.ev(body, n["r"], env)
        if op in ("==", "!=", "<", "<=", ">", ">="):
            return self.cmp_values(op, l, r)
        if isinstance(l, int) and isinstance(r, int) and not isinstance(l, bool):
            try:
                return {"+": l + r, "-": l - r, "*": l * r, "/": l // r if r else UNK, "%": l % r if r else UNK,
                        "<<": l << r, ">>": l >> r, "&": l & r, "|": l | r, "^": l ^ r}.get(op, UNK)
            except (ValueError, OverflowError):
                return UNK
        if op == "|" and is_v(l) and is_v(r):
            return self._op_trait(body, "std::ops::BitOr", "bitor", l, r)
        return UNK

    def _op_trait(self, body, trait, meth, l, r):
        adt = l[1].rsplit("::", 1)[0]
        b = self.prog.impl_fn(trait, adt, meth)
        if b is None:
            return UNK
        return self.call(b, [l, r])

    def ev_Path(self, body, n, env):
        dk = n.get("dk", "")
        if dk.startswith("Ctor(Variant, Const") or dk.startswith("Ctor(Struct, Const"):
            return V(n["def"], ())
        if dk.startswith("Ctor("):
            return ("ctor", n["def"])
        if dk.startswith("Const") or dk.startswith("AssocConst"):
            cb = self.prog.bodies.get(n["def"])
            if cb is not None and self.depth < self.MAX_DEPTH:
                return self.call(cb, [])
            return UNK
        if dk in ("Fn", "AssocFn"):
            return ("fn", n["def"])
        return UNK

    def ev_Lit(self, body, n, env):
        v = n.get("v")
        return v if isinstance(v, (bool, int, str)) else UNK

    def ev_Local(self, body, n, env):
        return env.get(n["id"], UNK)

    def ev_Tup(self, body, n, env):
        return ("tup", tuple(self.ev(body, e, env) for e in n["es"]))

    def ev_Field(self, body, n, env):
        key = (n.get("adt"), n["f"])
        if key in self.state:
            return self.state[key]
        b = self.ev(body, n["base"], env)
        if isinstance(b, tuple) and b[:1] == ("tup",) and n["f"].isdigit() and int(n["f"]) < len(b[1]):
            return b[1][int(n["f"])]
        return UNK

    def ev_Closure(self, body, n, env):
        return ("closure", body, n, env)

    def ev_Ret(self, body, n, env):
        raise _Return(self.ev(body, n["e"], env) if isinstance(n.get("e"), dict) else ("tup", ()))

    def ev_Assign(self, body, n, env):
        v = self.ev(body, n["r"], env)
        l = n["l"]
        if l["k"] == "Field" and (l.get("adt"), l["f"]) in self.state:
            self.state[(l.get("adt"), l["f"])] = v
            return ("tup", ())
        t = strip(l)
        if t["k"] == "Local":
            env[t["id"]] = v
        return ("tup", ())

    def ev_AssignOp(self, body, n, env):
        t = strip(n["l"])
        r = self.ev(body, n["r"], env)
        if t["k"] == "Local":
            cur = env.get(t["id"], UNK)
            if n["op"] == "|=" and is_v(cur) and is_v(r):
                adt = cur[1].rsplit("::", 1)[0]
                b = self.prog.impl_fn("std::ops::BitOr", adt, "bitor")
                env[t["id"]] = self.call(b, [cur, r]) if b is not None else UNK
            else:
                env[t["id"]] = UNK
        return ("tup", ())

    def _apply(self, body, n, callee_names, args):
        """shared by Call / MCall once the argument values are known"""
        for name in callee_names:
            if not name:
                continue
            if any(name.endswith(p) for p in PANIC_CALLEES):
                raise Panics(body.loc(n))
            last = name.rsplit("::", 1)[-1]
            if name in ("std::cmp::max", "core::cmp::max", "std::cmp::Ord::max") and len(args) == 2:
                c = self.cmp_values(">=", args[1], args[0])
                return UNK if c is UNK else (args[1] if c else args[0])
            if name in ("std::cmp::min", "core::cmp::min", "std::cmp::Ord::min") and len(args) == 2:
                c = self.cmp_values("<", args[1], args[0])
                return UNK if c is UNK else (args[1] if c else args[0])
            if name in ("std::cmp::PartialEq::eq", "std::cmp::PartialEq::ne") and len(args) == 2:
                return self.cmp_values("==" if last == "eq" else "!=", args[0], args[1])
            if name == "<bool as std::default::Default>::default":
                return False
            tb = self.prog.bodies.get(name)
            if tb is not None and tb.kind in ("Fn", "AssocFn") and len(tb.params) == len(args):
                return self.call(tb, args)
        if body.ty(n) == "!":
            raise Panics(body.loc(n))
        return UNK

    def ev_Call(self, body, n, env):
        args = [self.ev(body, a, env) for a in n["args"]]
        if "ctor" in n:
            return V(n["ctor"], tuple(args))
        if "f" in n and "callee" not in n:
            f = self.ev(body, n["f"], env)
            if isinstance(f, tuple) and f[:1] == ("closure",):
                return self.call_closure(f, args)
            if isinstance(f, tuple) and f[:1] == ("fn",):
                return self._apply(body, n, [f[1]], args)
            if isinstance(f, tuple) and f[:1] == ("ctor",):
                return V(f[1], tuple(args))
            return UNK
        return self._apply(body, n, [n.get("resolved"), n.get("callee")], args)

    def ev_MCall(self, body, n, env):
        recv = self.ev(body, n["recv"], env)
        args = [self.ev(body, a, env) for a in n["args"]]
        if n["name"] in ("clone", "to_owned", "borrow", "as_ref", "into", "copied", "cloned") and not args:
            return recv
        if n["name"] in ("max", "min") and n.get("trait") == "std::cmp::Ord":
            return self._apply(body, n, ["std::cmp::" + n["name"]], [recv] + args)
        return self._apply(body, n, [n.get("resolved"), n.get("callee")], [recv] + args)


def result_name(interp, body, args):
    """'Yes' / 'No' / 'Manually' / 'true' / 'false' / 'unreachable' / 'undecidable: ..'"""
    try:
        v = interp.call(body, args)
    except Panics:
        return "unreachable"
    except Undecidable as e:
        return "undecidable: %s" % e
    if isinstance(v, bool):
        return "true" if v else "false"
    if v is UNK:
        return "undecidable: the result is not a function of the inputs"
    return vname(v)


# =====================================================================================================
#  small shared helpers
# =====================================================================================================
def variants(prog, adt):
    a = prog.adts.get(adt)
    return [v["name"] for v in a["variants"]] if a else []


def dt_method(rep, name):
    return rep.need(rep.prog.fn("%s::%s" % (DT, name)), "DeriveTrait::" + name)


def find_fn(prog, suffix, contains=None):
    """the unique body whose path ends with `suffix` (and contains `contains`)"""
    out = [b for p, b in prog.bodies.items() if p.endswith(suffix) and (contains is None or contains in p)]
    return out[0] if len(out) == 1 else None


def short(path):
    return path.rsplit("::", 1)[-1]


def atoms_of(b, e, pol=True):
    return qq._atoms(b, e, pol)


def callee_of(n):
    return n.get("resolved") or n.get("callee") or ""


def opt_field(n):
    """`options().x` / `self.options.x` -> 'x' for fields of BindgenOptions, else None"""
    n = strip(n)
    if n.get("k") == "Field" and n.get("adt") == OPTS:
        return n["f"]
    return None


def toplevel_index(b, n):
    """index of the top-level statement of b.root that contains n (len(stmts) for the tail)"""
    cur = n
    while True:
        p = b.parent[cur["_i"]]
        if p is None:
            return None
        if p is b.root:
            r = b.role[cur["_i"]]
            return r[1] if isinstance(r, tuple) else len(b.root.get("stmts", []))
        cur = p
