"""C02 — generated types match the C compiler's size, alignment, offsets and values.

Not decided here (see `not_decided`): equality with clang's numbers, the padding arithmetic of
`StructLayoutTracker`, bit-field unit allocation.  Decided: the finite tables every number passes
through (R2.1), the presence of an explicit representation on every emitted type definition (R2.2)
and the shape of the two pure layout helpers (R2.3), each against oracle/c_types.json (written
from the C / libclang / Rust definitions, not from bindgen).

Generic helpers at the top (`val`, `pat_alts`, `match_rows`, `lin`) are shared with c04.py.
"""
import itertools
import json
import os
import re

from engine import RuleSet
from hir import strip, pat_str, macro_body_tokens
from hir import pat_variants as pat_variants_
from qq import quote_sites, QUOTE_MACROS

RULES = RuleSet("C02", "§3 C02 / C04 / C05",
                not_decided=["equality of sizes / alignments / offsets with what clang computes (a relation to runtime numbers)",
                             "that StructLayoutTracker places every padding field where C has a hole (R2.4, R2.10-R2.12 and R12.16 decide necessary parts: what is added to the offset, alignment of a padding field, no double tail padding, no wrapping subtraction)",
                             "bit-field allocation-unit layout (C03 covers the accessors)",
                             "alignment of u128 / f64 on the Rust side for a given target (rustc's data layout)",
                             "that the oracle table itself matches the C standard / libclang / the Rust reference (it is reviewed, not derived)"])

with open(os.path.join(os.path.dirname(os.path.abspath(__file__)), "oracle", "c_types.json")) as _fh:
    ORACLE = json.load(_fh)

IK = "ir::int::IntKind"
FK = "ir::ty::FloatKind"
TK = "ir::ty::TypeKind"


# ------------------------------------------------------------------------------------------------
# generic: symbolic value of an expression ("what does this arm produce")
# ------------------------------------------------------------------------------------------------
def is_quote_root(b, n):
    nm = b.macro_name(n)
    if nm not in QUOTE_MACROS:
        return False
    p = b.parent[n["_i"]]
    while p is not None and p["k"] in ("Semi", "ExprStmt"):
        p = b.parent[p["_i"]]
    return p is None or b.macro_site(p) != b.macro_site(n)


def quote_tokens(b, n):
    return macro_body_tokens(b.prog.text(b.macro_site(n)))


def callee_of(n):
    return n.get("resolved") or n.get("callee") or n.get("ctor") or ""


def val(b, n, depth=12):
    """Symbolic summary of the value of expression n (nested tuples, hashable).

    ("tok", "<tokens>")            a quote!/parse_quote! call site (tokens joined by one blank)
    ("lit", v) ("path", def)       literals, unit variants / consts
    ("ctor", variant, (args..))    tuple-variant / struct-variant construction (struct fields as (name, val))
    ("call", callee, (args..))     function call; method calls carry the receiver as first argument
    ("if", cond-canon, then, else) with literal conditions folded
    ("match", scrut-canon, ((alts, guard-canon|None, val), ..))
    ("ret", val) ("panic",) ("unit",) ("local", canon) ("expr", canon)
    """
    if depth <= 0:
        return ("expr", b.canon(n, 3))
    k = n["k"]
    if is_quote_root(b, n):
        return ("tok", " ".join(quote_tokens(b, n)))
    v = lambda x: val(b, x, depth - 1)
    if k == "Block":
        if n.get("tail") is not None:
            return v(n["tail"])
        if n["stmts"]:
            last = n["stmts"][-1]
            if last["k"] in ("Semi", "ExprStmt"):
                e = last["e"]
                if e["k"] == "Ret" or b.ty(e) == "!":
                    return v(e)
        return ("unit",)
    if k in ("AddrOf", "Cast") or (k == "Unary" and n.get("op") == "*"):
        return v(n["e"])
    if k == "If":
        c = strip(n["cond"])
        if c["k"] == "Lit" and c.get("v") is True:
            return v(n["then"])
        if c["k"] == "Lit" and c.get("v") is False:
            return v(n["else"]) if "else" in n else ("unit",)
        th, el = v(n["then"]), (v(n["else"]) if "else" in n else ("unit",))
        while c["k"] == "Unary" and c.get("op") == "!":
            c = strip(c["e"])
            th, el = el, th
        return ("if", b.canon(c, 8), th, el)
    if k == "Match":
        if b.ty(strip(n["scrut"])) == "bool" and len(n["arms"]) == 2 and not any("guard" in a for a in n["arms"]):
            # `match flag { true => a, false => b }` (or with `_`) is an `if`
            alts = [pat_alts(a["pat"]) for a in n["arms"]]
            if alts[0] in ([("lit", True)], [("lit", False)]) and alts[1] in ([("lit", True)], [("lit", False)], ["_"]):
                first_true = alts[0] == [("lit", True)]
                th, el = (v(n["arms"][0]["body"]), v(n["arms"][1]["body"])) if first_true else (v(n["arms"][1]["body"]), v(n["arms"][0]["body"]))
                c = strip(n["scrut"])
                while c["k"] == "Unary" and c.get("op") == "!":
                    c = strip(c["e"])
                    th, el = el, th
                return ("if", b.canon(c, 8), th, el)
        return ("match", b.canon(n["scrut"], 8),
                tuple((tuple(pat_alts(a["pat"])), b.canon(a["guard"], 8) if "guard" in a else None, v(a["body"])) for a in n["arms"]))
    if k == "Ret":
        return ("ret", v(n["e"]) if isinstance(n.get("e"), dict) else ("unit",))
    if k == "Lit":
        return ("lit", n.get("v"))
    if k == "Path":
        return ("path", n["def"])
    if b.ty(n) == "!" and k in ("Call", "MCall"):
        return ("panic",)
    if k == "Call":
        if "ctor" in n:
            return ("ctor", n["ctor"], tuple(v(a) for a in n["args"]))
        return ("call", callee_of(n) or b.canon(n.get("f", {}), 3), tuple(v(a) for a in n["args"]))
    if k == "Struct":
        return ("ctor", n["res"].get("def"), tuple((f["f"], v(f["e"])) for f in n["fs"]))
    if k == "MCall":
        return ("call", callee_of(n) or ("?." + n["name"]), tuple([v(n["recv"])] + [v(a) for a in n["args"]]))
    if k == "Local":
        init = b.local_init(n["id"])
        if init is not None:
            return v(init)
        return ("local", b.canon(n, 6))
    if k == "Tup":
        return ("tup", tuple(v(e) for e in n["es"]))
    return ("expr", b.canon(n, 6))


def leaves(v):
    """all result leaves of a val() tree (descending through if / match / ret)."""
    if v[0] == "if":
        return leaves(v[2]) + leaves(v[3])
    if v[0] == "match":
        out = []
        for _, _, x in v[2]:
            out += leaves(x)
        return out
    if v[0] == "ret":
        return leaves(v[1])
    return [v]


def show(v, n=90):
    s = _show(v)
    return s if len(s) <= n else s[:n - 1] + "…"


def _show(v):
    if not isinstance(v, tuple):
        return repr(v)
    t = v[0]
    if t == "tok":
        return "`%s`" % v[1]
    if t == "lit":
        return repr(v[1])
    if t == "path":
        return v[1].split("::")[-1]
    if t == "ctor":
        return "%s(%s)" % ("::".join(str(v[1]).split("::")[-2:]), ", ".join(_show(a) if not (isinstance(a, tuple) and len(a) == 2 and isinstance(a[0], str) and a[0] not in
                                                                                  ("tok", "lit", "path", "ret", "local", "expr")) else "%s: %s" % (a[0], _show(a[1])) for a in v[2]))
    if t == "call":
        return "%s(%s)" % ("::".join(v[1].split("::")[-2:]), ", ".join(_show(a) for a in v[2]))
    if t == "if":
        return "if %s {%s} else {%s}" % (v[1][-40:], _show(v[2]), _show(v[3]))
    if t == "match":
        return "match{%s}" % "; ".join("%s=>%s" % ("|".join(map(alt_str, alts)), _show(x)) for alts, _, x in v[2])
    if t == "ret":
        return "return " + _show(v[1])
    if t in ("local", "expr"):
        return v[1]
    return t


# ------------------------------------------------------------------------------------------------
# generic: patterns -> alternative keys, match -> rows
# ------------------------------------------------------------------------------------------------
def _trivial(p):
    k = p.get("k")
    return k in ("Wild", "Missing") or (k == "Bind" and "sub" not in p) or (k in ("PRef",) and _trivial(p["p"]))


def pat_alts(p):
    """Alternatives a pattern matches, as hashable keys.

    variant / const path str; "_" catch-all; ("lit", v); ("tuple", k0, k1, ..);
    (path, sub0, ..) for tuple-struct patterns with non-trivial sub-patterns;
    (path, ("f", name, sub), ..) for struct patterns with non-trivial field patterns."""
    k = p.get("k")
    if k == "Bind":
        return pat_alts(p["sub"]) if "sub" in p else ["_"]
    if k in ("Wild", "Missing"):
        return ["_"]
    if k in ("PRef", "PGuard"):
        return pat_alts(p["p"])
    if k == "POr":
        out = []
        for q in p["ps"]:
            out += pat_alts(q)
        return out
    if k == "PLit":
        v = p.get("v")
        if p.get("neg"):
            v = -v
        return [("lit", v)]
    if k == "PPath":
        return [p["res"].get("def")]
    if k == "PTupleStruct":
        d = p["res"].get("def")
        if all(_trivial(q) for q in p["ps"]):
            return [d]
        return [(d,) + combo for combo in itertools.product(*[pat_alts(q) for q in p["ps"]])]
    if k == "PStruct":
        d = p["res"].get("def")
        fs = [f for f in p["fs"] if not _trivial(f["p"])]
        if not fs:
            return [d]
        return [(d,) + tuple(("f", f["f"], c) for f, c in zip(fs, combo)) for combo in itertools.product(*[pat_alts(f["p"]) for f in fs])]
    if k == "PTuple":
        return [("tuple",) + combo for combo in itertools.product(*[pat_alts(q) for q in p["ps"]])]
    return [("?", pat_str(p))]


def alt_str(a):
    if isinstance(a, tuple):
        if a[0] == "lit":
            return repr(a[1])
        if a[0] == "tuple":
            return "(%s)" % ", ".join(alt_str(x) for x in a[1:])
        if a[0] == "f":
            return "%s: %s" % (a[1], alt_str(a[2]))
        return "%s(%s)" % (alt_str(a[0]), ", ".join(alt_str(x) for x in a[1:]))
    return "::".join(str(a).split("::")[-1:]) if a != "_" else "_"


def short(path):
    return str(path).split("::")[-1]


def flat_atoms(b, e, pol=True):
    """condition -> [(canonical string, polarity)] of the atoms that must all hold (`!`, `&&`, negated `||` flattened)."""
    e = strip(e)
    if e["k"] == "Unary" and e.get("op") == "!":
        return flat_atoms(b, e["e"], not pol)
    if e["k"] == "Binary" and ((e["op"] == "&&" and pol) or (e["op"] == "||" and not pol)):
        return flat_atoms(b, e["l"], pol) + flat_atoms(b, e["r"], pol)
    return [(b.canon(e, 8), pol)]


def match_rows(b, m):
    """[(alt key, guard node | None, body node, arm index)] in source order, one entry per alternative."""
    out = []
    for i, a in enumerate(m["arms"]):
        for alt in pat_alts(a["pat"]):
            out.append((alt, a.get("guard"), a["body"], i))
    return out


def first_match(b, pred, what=None):
    for n in b.walk():
        if n["k"] == "Match" and pred(n):
            return n
    return None


def scrut_ty(b, m):
    return b.ty(strip(m["scrut"])) or b.ty(m["scrut"]) or ""


def lookup(rows, key):
    """First row (source order) whose alternative equals key or is a catch-all, ignoring guarded rows unless exact."""
    for alt, guard, body, i in rows:
        if alt == key and guard is None:
            return alt, body
    for alt, guard, body, i in rows:
        if alt == "_" and guard is None:
            return alt, body
    return None, None


def variants_of(prog, adt):
    a = prog.adts.get(adt)
    return [v["name"] for v in a["variants"]] if a else []


# ------------------------------------------------------------------------------------------------
# generic: linear normal form of integer expressions (for R2.3)
# ------------------------------------------------------------------------------------------------
def lin(b, n, env=None):
    """expression -> frozenset({atom: coefficient}) over + and -; anything else is one atom (canonical string,
    commutative operators sorted).  Locals bound once are inlined."""
    d = {}
    _lin(b, n, 1, d, env or {})
    return frozenset((k, c) for k, c in d.items() if c != 0)


def _lin(b, n, sign, d, env):
    n = strip(n)
    k = n["k"]
    if k == "Local":
        if n["id"] in env:
            d[env[n["id"]]] = d.get(env[n["id"]], 0) + sign
            return
        init = b.local_init(n["id"])
        if init is not None:
            return _lin(b, init, sign, d, env)
    if k == "Binary" and n["op"] in ("+", "-"):
        _lin(b, n["l"], sign, d, env)
        _lin(b, n["r"], sign if n["op"] == "+" else -sign, d, env)
        return
    if k == "Lit" and isinstance(n.get("v"), int) and not isinstance(n.get("v"), bool):
        d["1"] = d.get("1", 0) + sign * n["v"]
        return
    a = atom(b, n, env)
    d[a] = d.get(a, 0) + sign


def atom(b, n, env):
    n = strip(n)
    k = n["k"]
    if k == "Local":
        if n["id"] in env:
            return env[n["id"]]
        init = b.local_init(n["id"])
        if init is not None:
            return atom(b, init, env)
        dd = b.local_def.get(n["id"])
        if dd and dd[0][0] == "param":
            return dd[2]["name"]
        return "local:" + n["name"]
    if k == "Lit":
        return repr(n.get("v"))
    if k == "Binary":
        if n["op"] in ("+", "-"):
            f = lin(b, n, env)
            return "(" + " ".join("%+d*%s" % (c, t) for t, c in sorted(f)) + ")"
        l, r = atom(b, n["l"], env), atom(b, n["r"], env)
        if n["op"] in ("*", "==", "!=", "&&", "||"):
            l, r = sorted((l, r))
        return "(%s %s %s)" % (l, n["op"], r)
    if k == "Unary":
        return "(%s%s)" % (n["op"], atom(b, n["e"], env))
    if k == "Field":
        return "%s.%s" % (atom(b, n["base"], env), n["f"])
    return b.canon(n, 4)


def fmt_lin(f):
    return " ".join("%+d*%s" % (c, t) for t, c in sorted(f)) or "0"


# ------------------------------------------------------------------------------------------------
# R2.1 — finite type tables
# ------------------------------------------------------------------------------------------------
def rust_of_leaf(v):
    """Classify a result leaf of int_kind_rust_type / float_kind_rust_type into the oracle's vocabulary."""
    if v[0] == "tok":
        t = v[1]
        if t in ORACLE["rust_primitives"]:
            return "prim:" + t
        return "tok:" + t
    if v[0] == "call" and v[1].endswith("::raw_type") and len(v[2]) == 2 and v[2][1][0] == "lit":
        return "raw:" + str(v[2][1][1])
    return None


def size_arg_is_layout_size(b, call, layout_param):
    """`Layout::known_type_for_size(<x>.size)` where <x> is the function's own `layout` parameter (possibly unwrapped)."""
    a = strip(call["args"][0])
    if a["k"] != "Field" or a["f"] != "size" or not a.get("adt", "").endswith("layout::Layout"):
        return False
    c = b.canon(a["base"], 8)
    return ("param:" + layout_param) in c


def find_calls(b, within, suffix):
    return [c for c in b.calls(None, within) if callee_of(c).endswith(suffix)]


@RULES.rule("R2.1", "primitive-type tables (IntKind / FloatKind / size->uint / enum repr / CXType) agree with the C and Rust definitions", floor=236)
def r2_1(rep):
    """Necessary condition: every integer/float member, enum repr and opaque blob is spelled through these tables, so one
    wrong row gives a wrong width or signedness for every header that uses that C type.  Breaks: `(true, 2) => IntKind::U16`
    gives `enum E : short { A = -1 }` an unsigned repr (A reads back as 65535); `IntKind::Long => raw_type(ctx, "c_int")` makes
    every `long` member 4 bytes on LP64; `8 => u32` in known_type_for_size halves every 8-byte blob."""
    prog = rep.prog
    o_int = {k: v for k, v in ORACLE["int_kinds"].items() if not k.startswith("_")}
    variants = rep.need(variants_of(prog, IK), "enum " + IK)

    # --- (a) IntKind variants are all known to the oracle -------------------------------------------------------------
    for v in variants:
        rep.check(v in o_int, "intkind-known:" + v, "IntKind::%s has %s row in oracle/c_types.json" % (v, "a" if v in o_int else "NO"))
    for v in o_int:
        if v not in variants:
            rep.note("oracle-only-intkind:" + v, "oracle row without a variant (harmless)")

    # --- (b) is_signed ---------------------------------------------------------------------------------------------------
    b = rep.need(prog.fn(IK + "::is_signed"), "fn IntKind::is_signed")
    m = rep.need(first_match(b, lambda n: scrut_ty(b, n).endswith("IntKind")), "match on IntKind in is_signed")
    rows = match_rows(b, m)
    signed = {}
    for v in variants:
        alt, body = lookup(rows, "%s::%s" % (IK, v))
        want = o_int.get(v, {}).get("signed")
        key = "is_signed:" + v
        if body is None:
            rep.bad(key, "no arm covers IntKind::%s" % v, b.loc(m))
            continue
        r = val(b, body)
        if r[0] == "lit" and isinstance(r[1], bool):
            signed[v] = r[1]
            if want == "target":
                rep.bad(key, "C leaves the signedness of %s to the target (signed 32-bit on x86_64-linux / Darwin, unsigned on Windows and "
                        "aarch64-linux) but is_signed answers the constant `%s`: members and enum reprs of that type get the wrong sign on "
                        "every target of the other class" % (o_int[v]["c"], str(r[1]).lower()), b.loc(body))
            elif want == "field":
                rep.bad(key, "signedness of %s is carried by the variant's own field but is_signed answers the constant %r" % (v, r[1]), b.loc(body))
            else:
                rep.check(r[1] == want, key, "is_signed(%s) = %s, C says %s is %s" % (v, r[1], o_int.get(v, {}).get("c"),
                                                                                    "signed" if want else "unsigned"), b.loc(body))
        else:
            # must be the variant's own is_signed field
            c = b.canon(body, 6)
            own = c.endswith("~%s::%s.is_signed" % (IK, v)) or ("~%s::%s.is_signed" % (IK, v)) in c
            # or-pattern bindings: the first alternative names the local; accept when this variant binds `is_signed` in the same arm
            if not own:
                body_n = strip(body)
                if body_n["k"] == "Local":
                    for pth in b.local_alts.get(body_n["id"], []):
                        if pth and pth[-1] == ("%s::%s" % (IK, v), "is_signed"):
                            own = True
            signed[v] = "field"
            rep.check(want == "field" and own, key, "is_signed(%s) = %s (oracle: %s)" % (v, c[-60:], want), b.loc(body))

    # --- (c) known_size ------------------------------------------------------------------------------------------------
    b2 = rep.need(prog.fn(IK + "::known_size"), "fn IntKind::known_size")
    m2 = rep.need(first_match(b2, lambda n: scrut_ty(b2, n).endswith("IntKind")), "match on IntKind in known_size")
    wrapped_some = any(callee_of(a).endswith("::Some") for a in b2.ancestors(m2) if a["k"] == "Call")
    rows2 = match_rows(b2, m2)
    sizes = {}
    for v in variants:
        alt, body = lookup(rows2, "%s::%s" % (IK, v))
        want = o_int.get(v, {}).get("size")
        key = "known_size:" + v
        if body is None:
            rep.bad(key, "no arm covers IntKind::%s" % v, b2.loc(m2))
            continue
        r = val(b2, body)
        got = "?"
        if r[0] == "lit" and wrapped_some:
            got = r[1]
        elif r[0] == "ctor" and r[1].endswith("::Some") and r[2] and r[2][0][0] == "lit":
            got = r[2][0][1]
        elif r == ("ret", ("path", "std::prelude::v1::None")) or r == ("path", "std::prelude::v1::None"):
            got = None
        sizes[v] = got
        # answering None is always safe (the libclang layout is used instead); a number must be the right one
        rep.check(got is None or (got == want and want is not None), key,
                  "known_size(%s) = %s; %s is %s" % (v, got, o_int.get(v, {}).get("c"), ("%d byte(s) on every target" % want) if want else
                                                     "data-model dependent (must be None)"), b2.loc(body))

    # --- (d) int_kind_rust_type ------------------------------------------------------------------------------------------
    b3 = rep.need(prog.fn("codegen::helpers::ast_ty::int_kind_rust_type"), "fn int_kind_rust_type")
    m3 = rep.need(first_match(b3, lambda n: scrut_ty(b3, n).endswith("IntKind")), "match on IntKind in int_kind_rust_type")
    rows3 = match_rows(b3, m3)
    pnames = [d[2]["name"] for d in b3.local_def.values() if d[0][0] == "param" and not d[1]]
    aliases = {k: v for k, v in ORACLE["rust_c_aliases"].items() if not k.startswith("_")}
    prims = {k: v for k, v in ORACLE["rust_primitives"].items() if not k.startswith("_")}
    for v in variants:
        alt, body = lookup(rows3, "%s::%s" % (IK, v))
        row = o_int.get(v, {})
        want = row.get("rust")
        key = "int_kind_rust_type:" + v
        if body is None:
            rep.bad(key, "no arm covers IntKind::%s" % v, b3.loc(m3))
            continue
        r = val(b3, body)
        ls = leaves(r)
        if want == "by-size":
            calls = find_calls(b3, body, "Layout::known_type_for_size")
            okc = len(calls) == 1 and any(size_arg_is_layout_size(b3, calls[0], p) for p in pnames)
            rep.check(okc, key, "%s is spelled as the unsigned integer of the libclang-reported size (known_type_for_size(layout.size)): %s"
                      % (v, show(r)), b3.loc(body))
            continue
        if want == "custom":
            okc = len(ls) == 1 and ls[0][0] == "call" and "parse_str" in ls[0][1] and ("~%s::%s.name" % (IK, v)) in b3.canon(strip(body)["args"][0] if strip(body)["k"] == "Call" else body, 6) \
                or ("~%s::%s.name" % (IK, v)) in b3.canon(body, 8)
            rep.check(okc, key, "%s is spelled with the user-supplied name: %s" % (v, show(r)), b3.loc(body))
            continue
        got = [rust_of_leaf(x) for x in ls]
        if want and want.startswith("placeholder:"):
            rep.check(got == ["tok:" + want.split(":", 1)[1]], key, "%s -> %s (documented placeholder ident)" % (v, got), b3.loc(body))
            continue
        ok = got == [want]
        detail = "%s (%s) -> %s, oracle: %s" % (v, row.get("c"), ", ".join(map(str, got)) or show(r), want)
        rep.check(ok, key, detail, b3.loc(body))
        # cross-table consistency: the Rust spelling has the signedness / size the other two tables claim
        if ok and want.startswith("prim:"):
            p = prims[want[5:]]
            rep.check(signed.get(v) == p["signed"] and sizes.get(v) in (None, p["size"]), "int-tables-agree:" + v,
                      "%s: rust type %s is %ssigned %d bytes; is_signed says %s, known_size says %s"
                      % (v, want[5:], "" if p["signed"] else "un", p["size"], signed.get(v), sizes.get(v)), b3.loc(body))
        elif ok and want.startswith("raw:"):
            a = aliases.get(want[4:])
            if not rep.check(a is not None, "c-alias-exists:" + want[4:], "`%s` is %s name in std::os::raw / core::ffi" % (want[4:], "a" if a else "NOT a"),
                             b3.loc(body)):
                continue
            s = a.get("signed")
            agree = (s == "target" and signed.get(v) == "field") or (s is not None and s == signed.get(v))
            rep.check(agree, "int-tables-agree:" + v, "%s: %s names C `%s` (%s); is_signed says %s"
                      % (v, want[4:], a["c"], "target-dependent sign" if s == "target" else ("signed" if s else "unsigned"), signed.get(v)), b3.loc(body))

    # --- (e) raw_type / c_void: alias roots -----------------------------------------------------------------------------
    roots = [r[0] for r in ORACLE["rust_c_alias_roots"]]
    for fname, tailtok in (("raw_type", None), ("c_void", "c_void")):
        bb = rep.need(prog.fn("codegen::helpers::ast_ty::" + fname), "fn ast_ty::" + fname)
        sites = quote_sites(bb)
        rep.need(sites, "parse_quote! sites in " + fname)
        seen_roots = set()
        for i, q in enumerate(sites):
            toks = q.tokens
            key = "%s:path:%d" % (fname, i)
            head = " ".join(toks[:-1])
            last = toks[-1] if toks else ""
            if tailtok is None:
                loc = q.interps().get(last[1:]) if last.startswith("#") else None
                src = bb.canon(loc, 6) if loc is not None else ""
                ok_tail = "rust_ident_raw" in src and "param:name" in src
                tail_desc = "the requested alias name (rust_ident_raw(name))"
            else:
                ok_tail = last == tailtok
                tail_desc = "`%s`" % tailtok
            if head in roots:
                seen_roots.add(head)
                ok_head = True
            elif head.startswith("#") and head.endswith("::") and len(toks) == 3:
                pl = q.interps().get(toks[0][1:])
                ok_head = pl is not None and "ctypes_prefix" in bb.canon(pl, 8)
                head = "<ctypes_prefix> ::"
            else:
                ok_head = False
            rep.check(ok_head and ok_tail, key, "`%s` = %s %s: the root must be ::std::os::raw / ::core::ffi (where the c_* aliases live) or the "
                      "user's ctypes_prefix, the last segment %s" % (" ".join(toks), head, last, tail_desc), q.loc())
        rep.check(seen_roots == set(roots), fname + ":roots", "alias roots used: %s" % sorted(seen_roots), bb.loc(bb.root))

    # --- (f) Layout::known_type_for_size -----------------------------------------------------------------------------------
    b4 = rep.need(prog.fn("ir::layout::Layout::known_type_for_size"), "fn Layout::known_type_for_size")
    m4 = rep.need(first_match(b4, lambda n: scrut_ty(b4, n) == "usize"), "match on usize in known_type_for_size")
    rep.check("param:size" in b4.canon(m4["scrut"], 4), "uint_for_size:scrutinee", "the table is indexed by the `size` argument", b4.loc(m4))
    rows4 = match_rows(b4, m4)
    o_sz = {int(k): v for k, v in ORACLE["uint_for_size"].items() if not k.startswith("_")}
    seen = set()
    for alt, guard, body, i in rows4:
        if isinstance(alt, tuple) and alt[0] == "lit":
            n = alt[1]
            seen.add(n)
            r = val(b4, body)
            if r[0] == "ctor" and r[1].endswith("::Some") and r[2]:
                r = r[2][0]
            got = rust_of_leaf(r)
            rep.check(guard is None and n in o_sz and got == "prim:" + o_sz[n], "uint_for_size:%s" % n,
                      "size %s -> %s (oracle: %s)" % (n, got or show(r), o_sz.get(n, "no integer of that size")), b4.loc(body))
        elif alt == "_":
            r = val(b4, body)
            none = r in (("ret", ("path", "std::prelude::v1::None")), ("path", "std::prelude::v1::None"))
            rep.check(none, "uint_for_size:other", "any other size -> %s (must be None: there is no integer of that size)" % show(r), b4.loc(body))
        else:
            rep.bad("uint_for_size:%s" % alt_str(alt), "unexpected pattern in the size table", b4.loc(body))
    for n in sorted(set(o_sz) - seen):
        # a missing row only loses a spelling (the caller falls back to a byte array); note, not a violation
        rep.note("uint_for_size:missing:%d" % n, "no row for size %d" % n)

    # --- (g) enum representation translation -------------------------------------------------------------------------------
    eb = rep.need(prog.impl_fn("codegen::CodeGenerator", "ir::enum_ty::Enum", "codegen"), "<Enum as CodeGenerator>::codegen")
    em = first_match(eb, lambda n: scrut_ty(eb, n) == "(bool, usize)")
    rep.need(em, "match (signed, size) in Enum::codegen")
    sc = strip(em["scrut"])
    s0 = eb.canon(sc["es"][0], 8) if sc["k"] == "Tup" else ""
    s1 = eb.canon(sc["es"][1], 10) if sc["k"] == "Tup" else ""
    rep.check("IntKind::is_signed" in s0, "enum-repr:signed-source", "first component is is_signed() of the enum's integer kind: %s" % s0[-80:], eb.loc(em))
    size_ok = False
    if sc["k"] == "Tup":
        src = strip(sc["es"][1])
        init = eb.local_init(src["id"]) if src["k"] == "Local" else src
        if init is not None:
            reads_size = False
            of_item = False
            for x in eb.walk(init):
                if x["k"] == "Field" and x["f"] == "size" and x.get("adt", "").endswith("layout::Layout"):
                    reads_size = True
                if x["k"] == "Local" and "ir::ty::Type::layout(ir::item::Item::expect_type(param:item)" in eb.canon(x, 6):
                    of_item = True
            size_ok = reads_size and of_item
            s1 = "layout(item).size" if size_ok else eb.canon(init, 4)
    rep.check(size_ok, "enum-repr:size-source", "second component is the size of the enum item's own libclang layout: %s" % s1[-100:], eb.loc(em))
    erows = match_rows(eb, em)
    have = {}
    default = None
    for alt, guard, body, i in erows:
        r = val(eb, body)
        if alt == "_":
            default = (r, body)
            continue
        if isinstance(alt, tuple) and alt[0] == "tuple" and len(alt) == 3 and alt[1][0] == "lit" and alt[2][0] == "lit" and guard is None:
            have.setdefault((alt[1][1], alt[2][1]), (r, body))
        else:
            rep.bad("enum-repr:%s" % alt_str(alt), "row that the rule cannot read", eb.loc(body))
    for size in ORACLE["enum_repr"]["sizes"]:
        for sg in (True, False):
            want = "%s::%s%d" % (IK, "I" if sg else "U", size * 8)
            key = "enum-repr:(%s,%d)" % ("signed" if sg else "unsigned", size)
            if (sg, size) in have:
                r, body = have[(sg, size)]
                rep.check(r == ("path", want), key, "(%s, %d) => %s (must be %s)" % (str(sg).lower(), size, show(r), short(want)), eb.loc(body))
            elif default is not None:
                r, body = default
                rep.check(r == ("path", want), key, "no row for a %s %d-byte underlying type; it falls to the default arm => %s, i.e. a %s-byte repr "
                          "for a %d-byte enum (Rust accepts #[repr(%s%d)])" % ("signed" if sg else "unsigned", size, show(r),
                                                                                 {"I8": 1, "U8": 1, "I16": 2, "U16": 2, "I32": 4, "U32": 4, "I64": 8, "U64": 8}.get(show(r), "?"),
                                                                                 size, "i" if sg else "u", size * 8), eb.loc(body))
            else:
                rep.bad(key, "no row and no default arm", eb.loc(em))
    # cross-check with int_kind_rust_type / is_signed / known_size of the chosen variants
    for (sg, size), (r, body) in sorted(have.items()):
        if r[0] == "path" and r[1].startswith(IK + "::"):
            v = short(r[1])
            rep.check(signed.get(v) == sg and sizes.get(v) == size, "enum-repr-agrees:(%s,%d)" % ("signed" if sg else "unsigned", size),
                      "%s: is_signed=%s known_size=%s" % (v, signed.get(v), sizes.get(v)), eb.loc(body))
    # the Rust-enum variation always takes the translated (primitive) repr: #[repr(c_uint)] is not accepted by rustc
    outer = None
    for a in eb.ancestors(em):
        if a["k"] == "Match":
            outer = a
    rep.need(outer, "outer match on self.repr() in Enum::codegen")
    passthrough = []
    for i, a in enumerate(outer["arms"]):
        inside = any(x is em for x in eb.walk(a["body"]))
        if not inside:
            passthrough.append(a)
    okp = bool(passthrough)
    for a in passthrough:
        g = eb.canon(a["guard"], 8) if "guard" in a else ""
        okp = okp and "is_rust" in g and "translate_enum_integer_types" in g
        # polarity: both must be negated
        ats = flat_atoms(eb, a["guard"], True) if "guard" in a else []
        okp = okp and any("is_rust" in s and pol is False for s, pol in ats) and any("translate_enum_integer_types" in s and pol is False for s, pol in ats)
    rep.check(okp, "enum-repr:untranslated-only-when-not-rust", "the C integer type is kept as repr only under !translate_enum_integer_types && !variation.is_rust() "
              "(a Rust `enum` needs a primitive repr)", eb.loc(outer))

    # --- (h) float_kind_rust_type ------------------------------------------------------------------------------------------
    fb = rep.need(prog.fn("codegen::helpers::ast_ty::float_kind_rust_type"), "fn float_kind_rust_type")
    fm = rep.need(first_match(fb, lambda n: "FloatKind" in scrut_ty(fb, n)), "match on FloatKind in float_kind_rust_type")
    fsc = strip(fm["scrut"])
    tup = fsc["k"] == "Tup"
    if tup:
        rep.check("convert_floats" in fb.canon(fsc["es"][1], 6), "float:convert-source", "second component is options.convert_floats", fb.loc(fm))
    frows = match_rows(fb, fm)
    o_f = {k: v for k, v in ORACLE["float_kinds"].items() if not k.startswith("_")}
    fvariants = rep.need(variants_of(prog, FK), "enum FloatKind")
    for v in fvariants:
        rep.check(v in o_f, "floatkind-known:" + v, "FloatKind::%s %s in the oracle" % (v, "is" if v in o_f else "is NOT"))

    def frow(v, conv):
        for alt, guard, body, i in frows:
            if guard is not None:
                continue
            if tup:
                if isinstance(alt, tuple) and alt[0] == "tuple" and alt[1] in ("%s::%s" % (FK, v), "_") and alt[2] in (("lit", conv), "_"):
                    return body
            elif alt in ("%s::%s" % (FK, v), "_"):
                return body
        return None

    for v in fvariants:
        row = o_f.get(v)
        if row is None:
            continue
        for conv in (True, False):
            body = frow(v, conv)
            key = "float:%s:%s" % (v, "convert" if conv else "keep")
            if body is None:
                rep.bad(key, "no arm covers (%s, %s)" % (v, conv), fb.loc(fm))
                continue
            r = val(fb, body)
            ls = leaves(r)
            if "exact" in row and row["exact"]:
                got = [rust_of_leaf(x) for x in ls]
                rep.check(len(got) == 1 and got[0] in row["exact"], key, "%s -> %s (same IEEE format: %s)" % (v, got, row["exact"]), fb.loc(body))
                if len(got) == 1 and got[0] and got[0].startswith("raw:"):
                    rep.check(got[0][4:] in aliases and aliases[got[0][4:]].get("float"), "c-alias-exists:" + got[0][4:],
                              "`%s` is a floating alias of std::os::raw / core::ffi" % got[0][4:], fb.loc(body))
            elif "wrapper" in row:
                idents = set()
                for x in ls:
                    idents.add(x[1].split(" ")[-1] if x[0] == "tok" else show(x))
                announced = bool(find_calls(fb, body, "generated_bindgen_float16"))
                rep.check(idents == {row["wrapper"]["ident"]} and announced, key, "%s -> %s, helper type requested: %s" % (v, sorted(idents), announced), fb.loc(body))
            elif "same_size" in row:
                got = [rust_of_leaf(x) for x in ls]
                rep.check(len(got) == 1 and got[0] in row["same_size"], key, "%s (%d bytes) -> %s (a %d-byte primitive: %s)"
                          % (v, row["size"], got, row["size"], row["same_size"]), fb.loc(body))
            elif "by_size" in row:
                if conv is False and frow(v, True) is body:
                    continue  # one arm for both
                sm = None
                size_at = None   # position of the size inside a tuple scrutinee
                for n in fb.walk(body):
                    if n["k"] != "Match":
                        continue
                    if scrut_ty(fb, n) == "usize":
                        sm = n
                        break
                    sn_ = strip(n["scrut"])
                    if sn_["k"] == "Tup":
                        hit = [i for i, e_ in enumerate(sn_["es"]) if "Layout::size" in fb.canon(e_, 8) or "Layout.size" in fb.canon(e_, 8)]
                        if len(hit) == 1:
                            sm, size_at = n, hit[0]
                            break
                if sm is None:
                    rep.bad(key + ":by-size", "%s is not spelled by the libclang-reported size: %s" % (v, show(r)), fb.loc(body))
                    continue
                sc2 = fb.canon(sm["scrut"] if size_at is None else strip(sm["scrut"])["es"][size_at], 8)
                rep.check("Layout.size" in sc2.replace("::size", ".size") and "param:layout" in sc2, "float:%s:size-source" % v,
                          "the size is the `layout` argument's size: %s" % sc2[-60:], fb.loc(sm))
                seen_sz = {}
                for alt, guard, sbody, i in match_rows(fb, sm):
                    rr = val(fb, sbody)
                    if size_at is not None and isinstance(alt, tuple) and alt[0] == "tuple":
                        rest = [x for j, x in enumerate(alt[1:]) if j != size_at]
                        alt = alt[1 + size_at]
                        if alt == "_" and any(x != "_" for x in rest):
                            rep.bad("float:%s:size-row-shape" % v, "a row that fixes another component but not the size: %s" % show(rr)[:60], fb.loc(sbody))
                            continue
                    if isinstance(alt, tuple) and alt[0] == "lit":
                        want = row["by_size"].get(str(alt[1]))
                        got = rust_of_leaf(rr)
                        pr = prims.get((got or "")[5:], {})
                        if (got or "").startswith("raw:"):
                            # a C alias is a type of that size exactly when it names the C type the oracle's primitive stands for
                            cname = aliases.get(got[4:], {}).get("c")
                            same = [k for k, r_ in o_f.items() if r_.get("c") == cname and r_.get("size") == alt[1] and aliases.get(got[4:], {}).get("float")]
                            okrow = bool(same)
                        else:
                            okrow = pr.get("size") == alt[1] and (want is None or got == want)
                        k_ = "float:%s:size=%s" % (v, alt[1])
                        seen_sz[k_] = seen_sz.get(k_, 0) + 1
                        rep.check(guard is None and got is not None and okrow,
                                  k_ + ("" if seen_sz[k_] == 1 else ":row%d" % seen_sz[k_]), "%d-byte long double -> %s (needs a %d-byte type%s)"
                                  % (alt[1], got or show(rr), alt[1], ", oracle: " + want if want else ""), fb.loc(sbody))
                    elif alt == "_":
                        # integer_type(layout) gives a same-size integer when one exists; the fallback for the rest must not be a
                        # primitive of some fixed size
                        sn = strip(sbody)
                        fixed = [rust_of_leaf(x) for x in leaves(rr) if rust_of_leaf(x)]
                        via_int = bool(find_calls(fb, sbody, "helpers::integer_type"))
                        fb_fixed = []
                        if sn["k"] == "MCall" and sn["name"] in ("unwrap_or", "unwrap_or_else") and sn["args"]:
                            fv = val(fb, sn["args"][0])
                            fb_fixed = [rust_of_leaf(x) for x in leaves(fv) if rust_of_leaf(x)]
                        rep.check(via_int, "float:%s:size=other:same-size-int" % v, "other sizes try the integer of the same size first", fb.loc(sbody))
                        rep.check(not fb_fixed and not fixed, "float:%s:size=other:fallback" % v,
                                  "a long double whose size has no same-size integer (12 bytes on i686-linux, 10 on some m68k ABIs) is spelled `%s`, a type "
                                  "of a different size: every member after it is at the wrong offset and by-value arguments are misread (oracle: only "
                                  "a blob of the reported size keeps the layout)" % ", ".join(x.split(":", 1)[1] for x in (fb_fixed or fixed)), fb.loc(sbody))

    # --- (i) build_builtin_ty: CXType_* -> TypeKind -----------------------------------------------------------------------
    bb = rep.need(prog.fn("ir::context::BindgenContext::build_builtin_ty"), "fn build_builtin_ty")
    bm = rep.need(first_match(bb, lambda n: any(isinstance(a, str) and a.startswith("clang_sys::CXType_") for a, _, _, _ in match_rows(bb, n))
                              and "clang::Type::kind" in bb.canon(n["scrut"], 4) and scrut_is_param_kind(bb, n)), "match ty.kind() in build_builtin_ty")
    o_cx = {k: v for k, v in ORACLE["cxtype"].items() if not k.startswith("_")}
    seen_cx = {}
    for alt, guard, body, i in match_rows(bb, bm):
        if alt == "_":
            r = val(bb, body)
            rep.check(r in (("ret", ("path", "std::prelude::v1::None")),), "cxtype:other", "any other kind is not a builtin (returns None): %s" % show(r), bb.loc(body))
            continue
        name = short(alt)
        r = val(bb, body)
        got = cx_value(r)
        allowed = o_cx.get(name)
        key = "cxtype:%s%s" % (name, "" if name not in seen_cx else ":alt%d" % seen_cx[name])
        seen_cx[name] = seen_cx.get(name, 0) + 1
        if allowed is None:
            rep.bad(key, "%s is not a builtin kind known to the oracle but is mapped to %s" % (name, got), bb.loc(body))
            continue
        ok = got in allowed
        if ok and guard is not None:
            # a guarded row must be the optional spelling (e.g. distinct char16_t), the unguarded one the default
            ok = allowed.index(got) > 0 or len(allowed) == 1
        elif ok and guard is None and len(allowed) > 1:
            ok = got == allowed[0]
        rep.check(ok, key, "%s%s -> %s (oracle: %s)" % (name, " if <option>" if guard is not None else "", got, " | ".join(allowed)), bb.loc(body))
    for name in ORACLE["cxtype_required"]:
        rep.check(name in seen_cx, "cxtype-present:" + name, "%s %s" % (name, "has a row" if name in seen_cx else
                                                                       "has NO row: every use of that C type becomes an unresolved/opaque type"), bb.loc(bm))
    # complex element table
    cm = None
    for n in bb.walk(bm):
        if n is not bm and n["k"] == "Match" and any(isinstance(a, str) and a.startswith("clang_sys::CXType_") for a, _, _, _ in match_rows(bb, n)):
            cm = n
    if cm is not None:
        for alt, guard, body, i in match_rows(bb, cm):
            if alt == "_":
                continue
            name = short(alt)
            r = val(bb, body)
            if r[0] == "ctor" and r[1] == TK + "::Complex" and r[2] and r[2][0][0] == "path":
                r = r[2][0]
            got = "Float:" + short(r[1]) if r[0] == "path" and r[1].startswith(FK) else show(r)
            rep.check(got in o_cx.get(name, []), "cxtype-complex:" + name, "_Complex element %s -> %s (oracle: %s)" % (name, got, o_cx.get(name)), bb.loc(body))


def scrut_is_param_kind(b, m):
    return "param:ty" in b.canon(m["scrut"], 4) or "param:" in b.canon(m["scrut"], 4)


def cx_value(r):
    if r[0] == "path" and r[1].startswith(TK + "::"):
        return short(r[1])
    if r[0] == "ctor" and r[1] in (TK + "::Int", TK + "::Float") and r[2]:
        a = r[2][0]
        head = short(r[1])
        if a[0] == "path":
            return "%s:%s" % (head, short(a[1]))
        if a[0] == "ctor":
            fs = dict(x for x in a[2] if isinstance(x, tuple) and len(x) == 2 and isinstance(x[0], str))
            s = fs.get("is_signed")
            return "%s:%s:%s" % (head, short(a[1]), str(s[1]).lower() if s and s[0] == "lit" else "?")
    if r[0] == "ctor" and r[1] == TK + "::Complex":
        return "Complex"
    if r[0] == "match":
        # `match elem.kind() { Float => Complex(Float), .., _ => Opaque }`: a complex type whose non-floating element kinds degrade
        # to a blob (checked row by row below)
        ls = [cx_value(x) for x in leaves(r)]
        if ls and "Complex" in ls and set(ls) <= {"Complex", "Opaque"}:
            return "Complex"
    return show(r)


# ------------------------------------------------------------------------------------------------
# R2.2 — every emitted type definition has an explicit representation
# ------------------------------------------------------------------------------------------------
def attr_run(toks, idx):
    """Parse the run of outer attributes / interpolations that immediately precedes toks[idx] (`pub`), backwards.
    -> list of ("attr", [tokens inside #[ .. ]]) | ("interp", name) | ("rep", name)"""
    out = []
    i = idx - 1
    while i >= 0:
        t = toks[i]
        if t == "]":
            depth = 0
            j = i
            while j >= 0:
                if toks[j] == "]":
                    depth += 1
                elif toks[j] == "[":
                    depth -= 1
                    if depth == 0:
                        break
                j -= 1
            if j >= 1 and toks[j - 1] == "#":
                out.append(("attr", toks[j + 1:i]))
                i = j - 2
                continue
            break
        if t == "*" and i >= 3 and toks[i - 1] == ")" and toks[i - 2].startswith("#") and toks[i - 3] == "#(":
            out.append(("rep", toks[i - 2][1:]))
            i -= 4
            continue
        if t.startswith("#") and len(t) > 1 and t != "#(":
            out.append(("interp", t[1:]))
            i -= 1
            continue
        break
    out.reverse()
    return out


def repr_items(attr_toks):
    """`repr ( a , b ( n ) , #x )` -> ["a", "b", "#x"] (top-level entries); None when the attribute is not a repr."""
    if len(attr_toks) < 3 or attr_toks[0] != "repr" or attr_toks[1] != "(":
        return None
    items, depth, cur = [], 0, []
    for t in attr_toks[2:-1]:
        if t == "(":
            depth += 1
        elif t == ")":
            depth -= 1
        if t == "," and depth == 0:
            items.append(cur)
            cur = []
        else:
            cur.append(t)
    if cur:
        items.append(cur)
    return [" ".join(x) for x in items]


def gkey(g):
    pol, kind, payload = g
    if kind == "cond":
        return (pol, "cond", payload["_i"])
    if kind == "arm":
        return (pol, "arm", payload[0]["_i"], payload[1])
    return (pol, kind, payload["_i"])


def covered(sets, have):
    """Is the disjunction of the conjunctions `sets` implied by the conjunction `have`?  (atoms = guard keys; only
    complementary polarities of the same condition node are related)."""
    sets = [frozenset(s - have) for s in sets]
    if any(not s for s in sets):
        return True
    for s in sets:
        for a in s:
            if a[1] != "cond":
                continue
            na = (not a[0],) + a[1:]
            if any(na in t for t in sets):
                pos = [t - {a} for t in sets if a in t]
                neg = [t - {na} for t in sets if na in t]
                if covered(pos, frozenset()) and covered(neg, frozenset()):
                    return True
    return False


def repr_of_value(b, n):
    """If expression n (an element pushed to an attribute list) is a repr attribute: the list of repr entries, else None."""
    v = val(b, n)
    out = None
    for x in leaves(v):
        if x[0] == "call" and x[1].endswith("helpers::attributes::repr") and x[2] and x[2][0][0] == "lit":
            out = (out or []) + [[str(x[2][0][1])]]
        elif x[0] == "call" and x[1].endswith("helpers::attributes::repr_list"):
            lits = []
            for c in b.calls(lambda c: callee_of(c).endswith("attributes::repr_list"), n):
                arr = strip(c["args"][0])
                for e in arr.get("es", []):
                    ev = val(b, e)
                    lits.append(str(ev[1]) if ev[0] == "lit" else "<expr>")
            out = (out or []) + [lits]
        elif x[0] == "tok":
            toks = x[1].split(" ")
            if toks[:2] == ["#", "["] and toks[-1] == "]":
                r = repr_items(toks[2:-1])
                if r is not None:
                    out = (out or []) + [r]
                else:
                    return None
            else:
                return None
        else:
            return None
    return out


def deep_walk(b, n, depth=4, seen=None):
    """walk(n) that also descends into the initialiser of every single-assignment local it meets."""
    seen = seen if seen is not None else set()
    for y in b.walk(n):
        yield y
        if y["k"] == "Local" and depth > 0 and y["id"] not in seen:
            seen.add(y["id"])
            init = b.local_init(y["id"])
            if init is not None:
                for z in deep_walk(b, init, depth - 1, seen):
                    yield z


def vec_sources(b, lid):
    """(node, element expression) for every element that can enter the Vec local `lid`: its initialiser and push/insert calls."""
    out = []
    d = b.local_def.get(lid)
    if d and d[0][0] == "let" and d[0][1].get("init") is not None:
        init = d[0][1]["init"]
        for c in b.calls(None, init):
            if callee_of(c).startswith("codegen::helpers::attributes::") or is_quote_root(b, c):
                out.append((d[0][1], c))
    for c in b.calls(lambda n: n["k"] == "MCall" and n["name"] in ("push", "insert") and strip(n["recv"]).get("k") == "Local" and strip(n["recv"]).get("id") == lid):
        out.append((c, c["args"][-1]))
    return out


@RULES.rule("R2.2", "every emitted struct / union / enum definition carries an explicit FFI representation; packed / align / union structure", floor=37)
def r2_2(rep):
    """Necessary condition: a Rust type with the default representation has no defined field order, size or alignment, so a
    definition emitted without #[repr(C)] / #[repr(transparent)] / #[repr(<int>)] cannot match the C compiler's layout.
    Breaks: replacing `attributes.push(attributes::repr("C"))` by nothing in the non-packed branch of CompInfo::codegen leaves every
    ordinary struct `repr(Rust)` (rustc reorders `struct { char a; int b; char c; }` to 8 bytes instead of 12)."""
    prog = rep.prog
    ffi = set(ORACLE["repr"]["ffi_reprs"])
    exceptions = ORACLE["repr"]["exceptions"]
    seen_keys = {}
    nsites = 0
    for path, b in prog.bodies.items():
        if "codegen" not in path:
            continue
        for q in quote_sites(b):
            t = q.tokens
            for j in range(len(t) - 1):
                if t[j] != "pub" or t[j + 1] not in ("struct", "union", "enum"):
                    continue
                kind = t[j + 1]
                name = t[j + 2] if j + 2 < len(t) else "?"
                fn = path.split(" as ")[0].lstrip("<").split("::")[-1] + "::" + path.split("::")[-1] if path.startswith("<") else "::".join(path.split("::")[-2:])
                key = "typedef:%s:%s %s" % (fn, kind, name)
                seen_keys[key] = seen_keys.get(key, 0) + 1
                if seen_keys[key] > 1:
                    key += "#%d" % seen_keys[key]
                nsites += 1
                if path in exceptions:
                    rep.ok(key, "exception: " + exceptions[path], q.loc())
                    continue
                run = attr_run(t, j)
                found = None
                problems = []
                for what, x in run:
                    if what == "attr":
                        items = repr_items(x)
                        if items is None:
                            continue
                        good = []
                        for it in items:
                            if it in ffi:
                                good.append(it)
                            elif it.startswith("#"):
                                loc = q.interps().get(it[1:])
                                src = b.canon(loc, 8) if loc is not None else ""
                                # an interpolated repr must be the builder's integer representation type
                                if "EnumBuilder" in src and src.endswith("::repr"):
                                    good.append("<EnumBuilder.repr>")
                                else:
                                    problems.append("repr(%s) interpolates `%s`, not an integer representation" % (it, src[-60:]))
                        if good:
                            found = "literal #[repr(%s)]" % ", ".join(items)
                    else:
                        loc = q.interps().get(x)
                        if loc is None:
                            continue
                        lid = loc["id"]
                        if what == "interp":
                            init = b.local_init(lid)
                            if init is None:
                                continue
                            r = repr_of_value(b, init)
                            if r and all(any(e in ffi for e in alt) for alt in r):
                                found = "#%s is always %s" % (x, " / ".join("#[repr(%s)]" % ", ".join(alt) for alt in r))
                        else:
                            site_guards = frozenset(gkey(g) for g in b.guards(q.root))
                            sets = []
                            descr = []
                            for holder, e in vec_sources(b, lid):
                                r = repr_of_value(b, e)
                                if not r:
                                    continue
                                if not all(any(x2 in ffi for x2 in alt) for alt in r):
                                    continue
                                if holder["_i"] > q.root["_i"]:
                                    continue
                                sets.append(frozenset(gkey(g) for g in b.guards(holder)))
                                descr.append("/".join("repr(%s)" % ", ".join(alt) for alt in r))
                            if sets and covered(sets, site_guards):
                                found = "#(#%s)* receives %s on every path to the emission" % (x, " or ".join(descr))
                            elif sets:
                                problems.append("#(#%s)* receives %s only on some paths" % (x, " or ".join(descr)))
                rep.check(found is not None, key, found or ("`pub %s %s` is emitted with the default (Rust) representation: %s"
                                                          % (kind, name, "; ".join(problems) or "no repr attribute and no attribute list that always carries one")), q.loc())
    rep.note("type-definition sites", nsites)

    # ---- CompInfo::codegen: packed / explicit alignment / union ------------------------------------------------------------
    b = rep.need(prog.impl_fn("codegen::CodeGenerator", "ir::comp::CompInfo", "codegen"), "<CompInfo as CodeGenerator>::codegen")
    from qq import guard_atoms, has_atom
    attr_lids = set()
    for q in quote_sites(b):
        if q.has("pub", "struct") or q.has("pub", "union"):
            for what, x in attr_run(q.tokens, q.tokens.index("pub")):
                if what == "rep" and x in q.interps():
                    attr_lids.add(q.interps()[x]["id"])
    rep.need(attr_lids, "attribute list interpolated into the struct/union definition")
    pushes = [(h, e) for lid in attr_lids for h, e in vec_sources(b, lid)]
    packed_pushes = [(h, e) for h, e in pushes if any(callee_of(c).endswith("attributes::repr_list") for c in b.calls(None, e))]
    plain_pushes = [(h, e) for h, e in pushes if repr_of_value(b, e) == [["C"]]]
    rep.check(len(packed_pushes) == 1 and len(plain_pushes) == 1, "comp:repr-pushes", "one repr(C, packed..) push and one repr(C) push (found %d / %d)"
              % (len(packed_pushes), len(plain_pushes)), b.loc(b.root))
    for h, e in packed_pushes:
        atoms = guard_atoms(b, h)
        # the packed local: initialised from CompInfo::is_packed
        pk = [a for a in atoms if a[2]["k"] == "Local" and a[1]]
        from_is_packed = False
        for s, pol, node in pk:
            d = b.local_def.get(node["id"])
            if d and d[0][0] == "let" and "CompInfo::is_packed" in b.canon(d[0][1].get("init", {}), 6):
                from_is_packed = True
        rep.check(from_is_packed, "comp:packed=>repr-packed", "repr(C, packed..) is pushed under the flag initialised from CompInfo::is_packed: %s"
                  % ", ".join(("" if p else "!") + s[-50:] for s, p, _ in atoms[-3:]), b.loc(h))
        r = repr_of_value(b, e)
        rep.check(bool(r) and r[0][:1] == ["C"] and len(r[0]) == 2, "comp:packed-list-shape", "repr list is [\"C\", <packed>]: %s" % r, b.loc(e))
        lits = set()
        reads_align = False
        for c in b.calls(lambda c: callee_of(c).endswith("attributes::repr_list"), e):
            es = strip(c["args"][0]).get("es", [])
            if len(es) == 2:
                for y in deep_walk(b, es[1]):
                    if y["k"] == "Lit" and isinstance(y.get("v"), str):
                        lits.add(y["v"])
                    if y["k"] == "Field" and y["f"] == "align" and y.get("adt", "").endswith("layout::Layout"):
                        reads_align = True
        plain = "packed" in lits
        with_n = any("packed(" in s and ")" in s.split("packed(", 1)[1] for s in lits)
        rep.check(plain and with_n and reads_align, "comp:packed-spelling",
                  "second entry is `packed` or `packed(<layout.align>)`: literals %s" % sorted(l.encode("ascii", "replace").decode() for l in lits), b.loc(e))
    # explicit alignment: the `#[repr(align(#n))]` push, the Option local it is conditioned on, the assignments to that local
    align_sites = []
    for h, e in pushes:
        v = val(b, e)
        if v[0] == "tok" and v[1].startswith("# [ repr ( align ("):
            align_sites.append((h, e, v))
    rep.check(len(align_sites) == 1, "comp:align-push", "one `#[repr(align(#n))]` push into the attribute list (found %d)" % len(align_sites), b.loc(b.root))
    ea = None
    for h, e, v in align_sites:
        for pol, kind, g in b.guards(h):
            if kind == "cond" and pol and strip(g)["k"] == "LetCond" and strip(strip(g)["init"]).get("k") == "Local" and \
                    (b.ty(strip(strip(g)["init"])) or "").startswith("std::option::Option<usize>"):
                ea = strip(strip(g)["init"])["id"]
    rep.need(ea is not None, "the Option<usize> local that conditions the repr(align) push in CompInfo::codegen")
    ea_name = b.local_def[ea][2]["name"]
    assigns = [n for n in b.walk() if n["k"] == "Assign" and strip(n["l"]).get("id") == ea]
    for i, a in enumerate(assigns):
        v = val(b, a["r"])
        src = b.canon(strip(a["r"])["args"][0], 8) if strip(a["r"])["k"] == "Call" and strip(a["r"])["args"] else ""
        okv = v[0] == "ctor" and v[1].endswith("::Some") and src.endswith("Layout::align") and "Type::layout" in src
        rep.check(okv, "comp:explicit_align-source:%d" % i, "explicit_align = Some(<the type's own libclang layout>.align): %s" % src[-90:], b.loc(a))
    rep.check(len(assigns) >= 2, "comp:explicit_align-assigned", "%d assignments" % len(assigns), b.loc(b.root))
    for h, e, v in align_sites:
        # guard: if let Some(explicit) = explicit_align
        bound = None
        for pol, kind, g in b.guards(h):
            if kind == "cond" and pol and strip(g)["k"] == "LetCond" and strip(strip(g)["init"]).get("id") == ea:
                bound = strip(g)
        rep.check(bound is not None, "comp:align-push-guard", "pushed inside `if let Some(explicit) = explicit_align`", b.loc(h))
        q = [q for q in quote_sites(b) if q.root is strip(e) or any(x is q.root for x in b.walk(e))]
        interp = v[1].split(" ")[6] if len(v[1].split(" ")) > 6 else ""
        src = ""
        if q and interp.startswith("#") and interp[1:] in q[0].interps():
            src = b.canon(q[0].interps()[interp[1:]], 8)
        rep.check("int_expr(" in src and ("local:%s~std::prelude::v1::Some.0" % ea_name) in src, "comp:align-value",
                  "the number is int_expr(<the bound alignment>): %s" % src[-90:], b.loc(e))
        # the alternative (dummy zero-length array field) : table n -> u(8n)
        iff = None
        for a in b.ancestors(h):
            if a["k"] == "If" and iff is None and any(x is h for x in b.walk(a.get("else", {"k": "x"}))) if "else" in a else False:
                iff = a
        if iff is not None:
            tm = None
            for n in b.walk(iff["then"]):
                if n["k"] == "Match" and tm is None:
                    tm = n
            if tm is not None:
                for alt, guard, body, i in match_rows(b, tm):
                    r = val(b, body)
                    if isinstance(alt, tuple) and alt[0] == "lit":
                        rep.check(r == ("tok", "u%d" % (alt[1] * 8)), "comp:align-field:%d" % alt[1], "alignment %d via a zero-length array of %s"
                                  % (alt[1], show(r)), b.loc(body))
                    elif alt == "_":
                        rep.check(r == ("tok", "u8"), "comp:align-field:other", "otherwise %s (align 1)" % show(r), b.loc(body))
                c = b.canon(iff["cond"], 8)
                bounded = [n for n in b.walk(iff["cond"]) if n["k"] == "Binary" and n["op"] in ("<=", "<") and strip(n["r"])["k"] == "Lit"]
                lim = strip(bounded[0]["r"])["v"] - (1 if bounded and bounded[0]["op"] == "<" else 0) if bounded else None
                rows = [alt[1] for alt, _, _, _ in match_rows(b, tm) if isinstance(alt, tuple) and alt[0] == "lit"]
                rep.check(lim is not None and max(rows + [1]) >= lim, "comp:align-field:bound", "the dummy-field path is taken only for alignments <= %s, "
                          "largest row %s" % (lim, max(rows + [1])), b.loc(iff))
    # union vs struct keyword
    for q in quote_sites(b):
        for kw, pol in (("union", True), ("struct", False)):
            if q.has("pub", kw):
                atoms = guard_atoms(b, q.root)
                ok = has_atom(atoms, "StructLayoutTracker::<'a>::is_rust_union", pol) or has_atom(atoms, "is_rust_union", pol)
                if kw == "union":
                    ok = ok and has_atom(atoms, "CompKind::Union", True)
                rep.check(ok, "comp:keyword:" + kw, "`pub %s` is emitted iff %sis_rust_union: %s" % (kw, "" if pol else "!",
                                                                                                     ", ".join(("" if p else "!") + s[-60:] for s, p, _ in atoms[-3:])), q.loc())
    # blob for a non-Rust union
    blob_q = [q for q in quote_sites(b) if q.has("bindgen_union_field", ":")]
    rep.check(len(blob_q) == 1, "comp:union-blob-site", "one `bindgen_union_field` emission (found %d)" % len(blob_q), b.loc(b.root))
    for q in blob_q:
        atoms = guard_atoms(b, q.root)
        ty = q.interps().get("ty")
        src = b.canon(ty, 6) if ty is not None else ""
        rep.check(has_atom(atoms, "is_rust_union", False) and has_atom(atoms, "CompKind::Union", True) and "helpers::blob" in src, "comp:union-blob-guard",
                  "a union that is not a Rust `union` gets a blob of its layout (helpers::blob) as storage: guards %s"
                  % ", ".join(("" if p else "!") + s[-50:] for s, p, _ in atoms[-3:]), q.loc())
    # field wrapping
    w = rep.need(prog.fn("codegen::wrap_union_field_if_needed"), "fn wrap_union_field_if_needed")
    v = val(w, w.root)
    ok = v[0] == "if" and "is_rust_union" in v[1]
    then_l = [x for x in leaves(v[2])] if ok else []
    else_l = [x for x in leaves(v[3])] if ok else []
    then_ok = all(x == ("local", "param:ty") or (x[0] == "tok" and "ManuallyDrop < #ty >" in x[1]) for x in then_l) and bool(then_l)
    else_ok = all(x[0] == "tok" and x[1].endswith("__BindgenUnionField < #ty >") for x in else_l) and bool(else_l)
    announced = bool(find_calls(w, w.root, "saw_bindgen_union")) and all(has_atom(guard_atoms(w, c), "is_rust_union", False) for c in find_calls(w, w.root, "saw_bindgen_union"))
    rep.check(ok and then_ok and else_ok and announced, "union-field-wrap", "Rust union: the field type itself or ManuallyDrop<ty> (transparent); otherwise "
              "__BindgenUnionField<ty> (zero-sized marker) and the helper type is requested: %s" % show(v, 200), w.loc(w.root))
    # CompInfo::is_rust_union: never for non-unions, without untagged_union, or forward declarations
    iu = rep.need(prog.fn("ir::comp::CompInfo::is_rust_union"), "fn CompInfo::is_rust_union")
    falses = {}
    for n in iu.walk():
        if n["k"] == "Ret":
            v = val(iu, n)
            if v[1][0] == "tup" and v[1][1][0] == ("lit", False):
                for s, pol, _ in guard_atoms(iu, n):
                    falses[(s, pol)] = True
    for what, sub, pol in (("not-a-union", "CompInfo::is_union", False), ("untagged_union-off", "untagged_union", False), ("forward-declaration", "is_forward_declaration", True)):
        rep.check(any(sub in s and p == pol for (s, p) in falses), "is_rust_union:" + what, "returns (false, _) when %s%s" % ("" if pol else "!", sub), iu.loc(iu.root))


# ------------------------------------------------------------------------------------------------
# R2.3 — pure layout helpers
# ------------------------------------------------------------------------------------------------
def eq_atom(x, y):
    return "(%s == %s)" % tuple(sorted((x, y)))


def param_env(b):
    env = {}
    for i, p in enumerate(b.params):
        q = p
        while q.get("k") in ("PRef",):
            q = q["p"]
        if q.get("k") == "Bind":
            env[q["id"]] = "p%d" % i
    return env


def return_paths(b):
    """[(value node, [(atom string, polarity)])] for every `return e` and the tail expression of the body."""
    out = []
    nodes = [n for n in b.walk() if n["k"] == "Ret" and isinstance(n.get("e"), dict)]
    vals = [(n["e"], n) for n in nodes]
    t = b.root
    while t is not None and t["k"] == "Block":
        t = t.get("tail")
    if t is not None:
        vals.append((t, t))
    return vals


def cond_atoms(b, n, env):
    out = []
    for pol, kind, g in b.guards(n):
        if kind != "cond":
            continue
        stack = [(g, pol)]
        while stack:
            e, p = stack.pop()
            e = strip(e)
            if e["k"] == "Unary" and e["op"] == "!":
                stack.append((e["e"], not p))
            elif e["k"] == "Binary" and ((e["op"] == "&&" and p) or (e["op"] == "||" and not p)):
                stack += [(e["l"], p), (e["r"], p)]
            elif e["k"] == "Binary" and e["op"] == "!=":
                out.append(("(%s == %s)" % tuple(sorted((atom(b, e["l"], env), atom(b, e["r"], env)))), not p))
            else:
                out.append((atom(b, e, env), p))
    return out


@RULES.rule("R2.3", "pure layout helpers: align_to rounds up, Layout::for_size picks a power-of-two alignment that divides the size", floor=16)
def r2_3(rep):
    """Necessary condition: every padding amount and every padding blob's alignment is computed by these helpers.
    Breaks: `size + align - rem` -> `size + rem` makes align_to(5, 4) = 6, so the tracker believes the next int member of
    `struct { char c[5]; int i; }` sits at offset 6 and emits no/incorrect explicit padding; dropping `size % next_align == 0` from
    for_size_internal gives a 12-byte padding blob the alignment 8 (`[u64; 1]`, 8 bytes instead of 12)."""
    prog = rep.prog
    b = rep.need(prog.fn("codegen::struct_layout::align_to"), "fn struct_layout::align_to")
    env = param_env(b)
    rep.check(len(env) == 2, "align_to:params", "two plain parameters (size, align)", b.loc(b.root))
    REM = "(p0 % p1)"
    ROUND_A = frozenset({("p0", 1), ("p1", 1), (REM, -1)})
    SAME = frozenset({("p0", 1)})
    ROUND_B = ["(((+1*p0 +1*p1 -1*1) / p1) * p1)", "(p1 * ((+1*p0 +1*p1 -1*1) / p1))", "(((-1*1 +1*p0 +1*p1) / p1) * p1)", "(p1 * ((-1*1 +1*p0 +1*p1) / p1))"]
    rounding = 0
    for i, (e, holder) in enumerate(return_paths(b)):
        f = lin(b, e, env)
        conds = cond_atoms(b, holder, env)
        cs = ", ".join(("" if p else "!") + a for a, p in conds)
        key = "align_to:path:%d" % i
        if f == SAME:
            ok = (eq_atom("0", "p1"), True) in conds or (eq_atom("0", REM), True) in conds
            rep.check(ok, key, "returns `size` unchanged only when align == 0 or size %% align == 0 (conditions: %s)" % cs, b.loc(e))
        elif f == ROUND_A:
            ok = (eq_atom("0", REM), False) in conds
            rounding += 1
            rep.check(ok, key, "returns size + align - size %% align when the remainder is non-zero (conditions: %s)" % cs, b.loc(e))
        elif len(f) == 1 and list(f)[0][1] == 1 and any(list(f)[0][0] == x for x in ROUND_B):
            rounding += 1
            rep.check(True, key, "returns (size + align - 1) / align * align", b.loc(e))
        else:
            rep.bad(key, "returns %s under [%s]: neither `size` (already aligned) nor size rounded up to the next multiple of align" % (fmt_lin(f), cs), b.loc(e))
    rep.check(rounding >= 1, "align_to:rounds-up", "a rounding-up path exists", b.loc(b.root))
    # padding_bytes = align_to(latest_offset, layout.align) - latest_offset
    pb = rep.need(prog.fn("codegen::struct_layout::StructLayoutTracker::<'a>::padding_bytes") or
                  next((x for p, x in prog.bodies.items() if p.endswith("::padding_bytes") and "StructLayoutTracker" in p), None), "fn StructLayoutTracker::padding_bytes")
    penv = param_env(pb)
    paths = return_paths(pb)
    okp = False
    desc = ""
    if len(paths) == 1:
        f = dict(lin(pb, paths[0][0], penv))
        desc = fmt_lin(frozenset(f.items()))
        pos = [k for k, c in f.items() if c == 1]
        neg = [k for k, c in f.items() if c == -1]
        okp = len(f) == 2 and len(pos) == 1 and len(neg) == 1 and "align_to(" in pos[0] and "latest_offset" in neg[0] and \
            pos[0].replace(" ", "").find("latest_offset,") > 0 and "Layout::align" in pos[0]
    rep.check(okp, "padding_bytes:formula", "padding = align_to(latest_offset, layout.align) - latest_offset: %s" % desc[-160:], pb.loc(pb.root))

    # Layout::for_size_internal
    f = rep.need(prog.fn("ir::layout::Layout::for_size_internal"), "fn Layout::for_size_internal")
    fenv = param_env(f)
    loops = [n for n in f.walk() if n["k"] in ("While", "Loop")]
    lits = [n for n in f.walk() if n["k"] == "Struct" and n.get("adt", "").endswith("layout::Layout")]
    if rep.check(len(loops) == 1 and loops[0]["k"] == "While" and len(lits) == 1, "for_size:shape", "one while loop and one Layout literal", f.loc(f.root)):
        w = loops[0]
        lit = lits[0]
        fs = {x["f"]: x["e"] for x in lit["fs"]}
        al = strip(fs.get("align", {"k": "?"}))
        var = None
        if al.get("k") == "Binary" and al["op"] == "/" and strip(al["l"])["k"] == "Local" and strip(al["r"]).get("v") == 2:
            var = strip(al["l"])["id"]
        rep.check(var is not None, "for_size:align=candidate/2", "align is the loop variable halved (the last candidate that passed)", f.loc(lit))
        if var is not None:
            fenv[var] = "A"
            d = f.local_def.get(var)
            init = strip(d[0][1].get("init", {"k": "?"})) if d and d[0][0] == "let" else {"k": "?"}
            rep.check(init.get("k") == "Lit" and init.get("v") == 2, "for_size:start", "the first candidate alignment is 2 (so the smallest result is 1)", f.loc(f.root))
            conds = set()
            stack = [w["cond"]]
            while stack:
                e = strip(stack.pop())
                if e["k"] == "Binary" and e["op"] == "&&":
                    stack += [e["l"], e["r"]]
                else:
                    conds.add(atom(f, e, fenv))
            rep.check(eq_atom("0", "(p1 % A)") in conds, "for_size:divides", "a candidate is accepted only if it divides the size: %s" % sorted(conds), f.loc(w))
            rep.check("(A <= p0)" in conds or "(p0 >= A)" in conds, "for_size:bounded", "a candidate is accepted only up to the pointer size: %s" % sorted(conds), f.loc(w))
            steps = [n for n in f.walk(w["body"]) if n["k"] in ("Assign", "AssignOp")]
            oks = len(steps) == 1 and strip(steps[0]["l"]).get("id") == var and \
                ((steps[0]["k"] == "AssignOp" and steps[0]["op"] in ("*", "*=") and strip(steps[0]["r"]).get("v") == 2) or
                 (steps[0]["k"] == "AssignOp" and steps[0]["op"] in ("<<", "<<=") and strip(steps[0]["r"]).get("v") == 1))
            rep.check(oks, "for_size:doubling", "the only state change in the loop doubles the candidate", f.loc(w))
            others = [n for n in f.walk() if n["k"] in ("Assign", "AssignOp") and not any(a is w for a in f.ancestors(n))]
            rep.check(not others, "for_size:no-other-writes", "no assignment outside the loop", f.loc(f.root))
        rep.check(atom(f, fs.get("size", {"k": "?"}), fenv) == "p1", "for_size:size", "the size is passed through unchanged", f.loc(lit))
        rep.check(strip(fs.get("packed", {"k": "?"})).get("v") is False, "for_size:not-packed", "the layout is not packed", f.loc(lit))
    fsz = rep.need(prog.fn("ir::layout::Layout::for_size"), "fn Layout::for_size")
    calls = find_calls(fsz, fsz.root, "Layout::for_size_internal")
    okc = len(calls) == 1 and "target_pointer_size" in fsz.canon(calls[0]["args"][0], 4) and atom(fsz, calls[0]["args"][1], param_env(fsz)) == "p1"
    rep.check(okc, "for_size:arguments", "for_size_internal(ctx.target_pointer_size(), size) in that order", fsz.loc(fsz.root))
    # Layout::new: fields from the like-named arguments
    ln = rep.need(prog.fn("ir::layout::Layout::new"), "fn Layout::new")
    lenv = param_env(ln)
    lit = [n for n in ln.walk() if n["k"] == "Struct" and n.get("adt", "").endswith("layout::Layout")]
    if rep.check(len(lit) == 1, "Layout::new:shape", "one Layout literal", ln.loc(ln.root)):
        fs = {x["f"]: atom(ln, x["e"], lenv) for x in lit[0]["fs"]}
        rep.check(fs.get("size") == "p0" and fs.get("align") == "p1" and fs.get("packed") == "False", "Layout::new:fields",
                  "Layout::new(size, align) stores size, align, packed=false: %s" % fs, ln.loc(lit[0]))


# ---------------------------------------------------------------------------------------------------------------------
# R2.4 — bookkeeping of StructLayoutTracker (added by the main session)
SLT = "codegen::struct_layout::StructLayoutTracker"


def _slt_methods(prog):
    out = {}
    for p, b in prog.bodies.items():
        if (b.fact.get("impl_self") or "").startswith(SLT) and b.fact.get("impl_trait") is None:
            out[p.split("::")[-1]] = b
    return out


def _self_field(n, name=None):
    n = strip(n)
    if n.get("k") == "Field" and n.get("adt") == SLT and strip(n["base"]).get("name") == "self":
        return n["f"] if name is None else n["f"] == name
    return None if name is None else False


def _assigns(b, field):
    return [n for n in b.walk() if n["k"] in ("Assign", "AssignOp") and _self_field(n["l"], field)]


@RULES.rule("R2.4", "StructLayoutTracker accounts every member once: offset grows by its size, layout and max alignment are recorded", floor=30)
def r2_4(rep):
    """The tracker's running `latest_offset` decides every explicit padding field and the tail padding; the recorded
    `latest_field_layout` / `max_field_align` decide alignment of the next member and whether `repr(align)` is needed.
    Breaks: dropping `max_field_align = max(..)` from saw_base makes a struct whose only over-aligned member is a base
    lose/gain `#[repr(align)]`; `latest_offset += layout.size` -> `= layout.size` misplaces every later padding."""
    prog = rep.prog
    ms = _slt_methods(prog)
    rep.need(ms, "impl StructLayoutTracker")
    pb = rep.need(ms.get("padding_bytes"), "StructLayoutTracker::padding_bytes")
    env = param_env(pb)
    t = pb.root.get("tail")
    f = dict(lin(pb, t, env)) if t is not None else {}
    al = [k for k, v in f.items() if v == 1 and "align_to" in k]
    lo = [k for k, v in f.items() if v == -1 and "latest_offset" in k]
    rep.check(len(f) == 2 and len(al) == 1 and len(lo) == 1 and "latest_offset" in al[0] and "align" in al[0], "padding_bytes:formula",
              "padding_bytes(l) = align_to(latest_offset, l.align) - latest_offset (found %s)" % fmt_lin(frozenset(f.items()))[:140], pb.loc(pb.root))

    # which layout each accounting method records
    acct = {"saw_vtable": None, "saw_base": None, "saw_bitfield_unit": None, "saw_field_with_layout": None}
    for name in acct:
        b = ms.get(name)
        if not rep.check(b is not None, "accounting-method:" + name, "StructLayoutTracker::%s exists" % name):
            continue
        lf = _assigns(b, "latest_field_layout")
        ok = len(lf) == 1 and lf[0]["k"] == "Assign" and strip(lf[0]["r"]).get("k") == "Call" and (strip(lf[0]["r"]).get("ctor") or "").endswith("Some")
        if not rep.check(ok, name + ":records-layout", "records exactly one `latest_field_layout = Some(<layout of the member>)`", b.loc(b.root)):
            continue
        L = strip(lf[0]["r"])["args"][0]
        Lc = b.canon(L, 6)
        extra = [a for a, p_, nd in qq_atoms(b, lf[0]) if not a.startswith("let ")]
        rep.check(not extra, name + ":records-layout-always", "the member's layout is recorded on every path (found condition %s)" % extra[:1], b.loc(lf[0]))
        # max_field_align
        ma = _assigns(b, "max_field_align")
        okm = False
        for n in ma:
            r = b.canon(n["r"], 6)
            if name == "saw_vtable":
                okm = okm or ("target_pointer_size" in r)
            else:
                okm = okm or (("std::cmp::max(" in r or "Ord::max(" in r) and "max_field_align" in r and (Lc in r) and "Layout::align" in r)
        rep.check(okm, name + ":max-align", "max_field_align takes the member's alignment into account (`max(max_field_align, <layout>.align)`)", b.loc(b.root))
        # latest_offset grows by the member's size
        lo = [n for n in _assigns(b, "latest_offset")]
        grow = False
        for n in lo:
            if n["k"] == "AssignOp" and n["op"] == "+=":
                fr = dict(lin(b, n["r"], {}))
                sizes = [k for k, v in fr.items() if v == 1 and ("Layout::size" in k or ".size" in k or "target_pointer_size" in k)]
                others = [k for k, v in fr.items() if k not in sizes]
                if sizes and all("padding_bytes" in k for k in others) and (name == "saw_vtable" or Lc.split("~")[0][:40] in sizes[0] or "size" in sizes[0]):
                    grow = True
            elif n["k"] == "Assign":
                # the same sum spelled out: latest_offset = <latest_offset | align_to(latest_offset, ..)> + size
                fr = dict(lin(b, n["r"], {}))
                sizes = [k for k, v in fr.items() if v == 1 and (k.endswith(".size") or "Layout::size" in k) and "align_to(" not in k]
                others = [k for k, v in fr.items() if k not in sizes]
                if len(sizes) == 1 and len(others) == 1 and fr[others[0]] == 1 and "latest_offset" in others[0] and \
                        (others[0].endswith("latest_offset") or "align_to(" in others[0].split("latest_offset")[0]):
                    grow = True
        if name == "saw_field_with_layout":
            # struct: += size ; union: max(latest_offset, size)
            unions = [n for n in lo if n["k"] == "Assign" and "max(" in b.canon(n["r"], 6) and "latest_offset" in b.canon(n["r"], 6) and "Layout::size" in b.canon(n["r"], 6)]
            rep.check(bool(unions) and all(qq_has(b, n, "CompInfo::is_union", True) for n in unions), name + ":union-offset",
                      "for unions the offset is max(latest_offset, size)", b.loc(b.root))
            grow_nodes = [n for n in lo if n["k"] == "AssignOp" and n["op"] == "+=" and "Layout::size" in b.canon(n["r"], 6)]
            rep.check(bool(grow_nodes) and all(qq_has(b, n, "CompInfo::is_union", False) for n in grow_nodes), name + ":struct-offset",
                      "for structs the offset grows by the field's size", b.loc(b.root))
        else:
            rep.check(grow, name + ":offset-grows-by-size", "latest_offset += (padding +) size of the member", b.loc(b.root))
        if name == "saw_base":
            # `align_to_latest_field` aligns to the PREVIOUS member and gives up for packed records; the gap in front of the base
            # itself is only ever accounted by `padding_bytes(<base layout>)` (or, spelled out, align_to(latest_offset, align))
            aligned = False
            for n in lo:
                fr = dict(lin(b, n["r"], {}))
                pos = [k for k, v in fr.items() if v == 1]
                if n["k"] == "AssignOp" and n["op"] == "+=":
                    aligned = aligned or any("padding_bytes(" in k and Lc[:24] in k for k in pos)
                elif n["k"] == "Assign":
                    aligned = aligned or any("align_to(" in k and "latest_offset" in k and "::align" in k.split("align_to(", 1)[1] for k in pos)
            rep.check(aligned, "saw_base:own-alignment-gap", "the offset is first brought to the base's own alignment "
                      "(`padding_bytes(<base layout>)` is part of what is added)", b.loc(lo[0] if lo else b.root))
    # saw_field_with_layout: padding is added to the offset before the field, and is what the padding blob is made of
    b = ms.get("saw_field_with_layout")
    if b is not None:
        # the gap local: the one bare local that is added to latest_offset (identified by that role, whatever it is called)
        bare = [n for n in _assigns(b, "latest_offset") if n["k"] == "AssignOp" and n["op"] == "+=" and strip(n["r"]).get("k") == "Local"]
        PAD = strip(bare[0]["r"])["name"] if bare else "padding_bytes"
        adds = [n for n in _assigns(b, "latest_offset") if n["k"] == "AssignOp" and n["op"] == "+=" and strip(n["r"]).get("name") == PAD]
        rep.check(len(adds) == 1 and not b.guards(adds[0]), "field:padding-added-once", "`latest_offset += padding_bytes` happens once, unconditionally", b.loc(b.root))
        news = [c for c in b.calls(lambda n: n["k"] == "Call" and (n.get("callee") or "").endswith("Layout::new"))]
        rep.check(bool(news) and all(strip(c["args"][0]).get("name") == PAD for c in news), "field:padding-blob-size",
                  "the explicit padding field is exactly padding_bytes long", b.loc(b.root))
        # explicit clang offset: padding = offset/8 - latest_offset, only when the field lies beyond the current offset
        pads = [n for n in b.walk() if n["k"] == "Let" and n["pat"].get("name") == PAD]
        if rep.check(len(pads) == 1, "field:padding-def", "one definition of padding_bytes", b.loc(b.root)):
            m = strip(pads[0]["init"])
            okx = False
            if m.get("k") == "Match":
                for a in m["arms"]:
                    if "guard" in a:
                        g = strip(a["guard"])
                        body = dict(lin(b, a["body"], {}))
                        pos = [k for k, v in body.items() if v == 1]
                        neg = [k for k, v in body.items() if v == -1]
                        okx = g.get("k") == "Binary" and g["op"] == ">" and "/ lit:8" in b.canon(g["l"], 4).replace("'", "") or okx
                        okx = okx and len(pos) == 1 and len(neg) == 1 and "/ 8" in pos[0] and "latest_offset" in neg[0]
            rep.check(okx, "field:explicit-offset-padding", "with a known field offset the padding is offset/8 - latest_offset, used only when offset/8 > latest_offset",
                      b.loc(pads[0]))
        # a gap is materialised as an explicit padding field whenever it is at least as large as the FIELD's own alignment
        # (a smaller gap is what repr(C) inserts by itself); comparing with anything larger drops needed padding
        geqs = [n for n in b.walk() if n["k"] == "Binary" and n["op"] in (">=", "<=") and
                PAD in (strip(n["l"]).get("name"), strip(n["r"]).get("name")) and "Layout::align" in b.canon(n, 8)]
        if rep.check(len(geqs) == 1, "field:need-padding-test", "one comparison of the gap with an alignment (found %d)" % len(geqs), b.loc(b.root)):
            g = geqs[0]
            gap, al_ = (g["l"], g["r"]) if g["op"] == ">=" else (g["r"], g["l"])
            rep.check(strip(gap).get("name") == PAD and re.fullmatch(r"param:\w+\.ir::layout::Layout::align", b.canon(al_, 6)) is not None, "field:need-padding-vs-own-align",
                      "padding is needed when gap >= the field's own alignment (found `%s >= %s`)" % (b.canon(gap, 3)[:40], b.canon(al_, 6)[:80]), b.loc(g))
    # pad_struct / add_tail_padding
    for name, szname in (("pad_struct", "layout"), ("add_tail_padding", "comp_layout")):
        b = ms.get(name)
        if not rep.check(b is not None, "method:" + name, "StructLayoutTracker::%s exists" % name):
            continue
        news = [c for c in b.calls(lambda x: x["k"] == "Call" and ((x.get("callee") or "").endswith("Layout::new") or (x.get("callee") or "").endswith("Layout::for_size")))]
        rep.check(bool(news), name + ":blob-sites", "%d padding blob constructions" % len(news), b.loc(b.root))
        for c in news:
            arg = c["args"][0] if (c.get("callee") or "").endswith("Layout::new") else c["args"][1]
            fr = dict(lin(b, arg, {}))
            pos = [k for k, v in fr.items() if v == 1]
            neg = [k for k, v in fr.items() if v == -1]
            okf = len(fr) == 2 and len(pos) == 1 and len(neg) == 1 and "size" in pos[0] and szname in pos[0] and "latest_offset" in neg[0]
            rep.check(okf, name + ":formula", "the trailing padding blob is %s.size - latest_offset bytes long (found %s)" %
                      (szname, fmt_lin(frozenset(fr.items()))[:120]), b.loc(c))
    b = ms.get("pad_struct")
    if b is not None:
        rets = [n for n in b.walk() if n["k"] == "Ret" and "None" in b.canon(n.get("e", {}), 2)]
        conds = " ".join(a for n in rets for a, p, _ in qq_atoms(b, n))
        rep.check("<" in conds and "latest_offset" in conds and "== lit:0" in conds, "pad_struct:early-exits",
                  "no padding when the struct is already as large as (or larger than) its layout", b.loc(b.root))
        _pad_struct_threshold(rep, b)


def _pad_struct_threshold(rep, b):
    """rustc rounds a struct's size up to its alignment, which supplies at most align-1 bytes: a tail gap of `align` bytes or
    more is never supplied by rustc.  Decided over the three orderings of (gap, layout.align): in `gap == align` and
    `gap > align` the padding field is emitted whatever the other tests say."""
    from c08 import _atoms, _ev
    gaps = []
    for n in b.walk():
        if n["k"] == "Let" and n.get("init") is not None and n["pat"].get("name"):
            fr = dict(lin(b, n["init"], {}))
            pos = [k for k, v in fr.items() if v == 1]
            neg = [k for k, v in fr.items() if v == -1]
            if len(fr) == 2 and len(pos) == 1 and len(neg) == 1 and pos[0].endswith("size") and "latest_offset" in neg[0]:
                gaps.append(n)
    if not rep.check(len(gaps) == 1, "pad_struct:gap-def", "one definition of the tail gap `layout.size - latest_offset` (found %d)" % len(gaps), b.loc(b.root)):
        return
    GAP = gaps[0]["pat"]["name"]
    gap_canon = b.canon(gaps[0]["init"], 6)

    def is_gap(e):
        e = strip(e)
        return e.get("name") == GAP or b.canon(e, 6) == gap_canon

    def is_align(e):
        return re.fullmatch(r"param:\w+\.ir::layout::Layout::align", b.canon(strip(e), 6)) is not None

    FLIP = {"<": ">", "<=": ">=", ">": "<", ">=": "<=", "==": "==", "!=": "!="}

    def form(e, depth=0):
        e = strip(e)
        k = e.get("k")
        if k == "Unary" and e["op"] == "!":
            return ("not", form(e["e"], depth))
        if k == "Binary" and e["op"] in ("&&", "||"):
            return ("and" if e["op"] == "&&" else "or", form(e["l"], depth), form(e["r"], depth))
        if k == "Binary" and e["op"] in FLIP:
            if is_gap(e["l"]) and is_align(e["r"]):
                return ("atom", "ORD" + e["op"])
            if is_align(e["l"]) and is_gap(e["r"]):
                return ("atom", "ORD" + FLIP[e["op"]])
        if k == "Local" and depth < 6:
            init = b.local_init(e["id"])
            if init is not None and strip(init).get("k") in ("Unary", "Binary", "Local"):
                return form(init, depth + 1)
        return ("atom", b.canon(e, 6))

    pf = [c for c in b.calls(lambda n: n["k"] == "MCall" and n.get("name") == "padding_field")]
    if not rep.check(len(pf) == 1, "pad_struct:padding-site", "one `padding_field` call (found %d)" % len(pf), b.loc(b.root)):
        return
    f = ("true",)
    other = []
    for pol, kind, g in b.guards(pf[0], nested=True):
        if kind == "cond":
            x = form(g)
        else:
            other.append(kind)
            continue
        f = ("and", f, x if pol else ("not", x))
    if not rep.check(not other, "pad_struct:guards-are-tests", "the padding field is reached through boolean tests only (found %s)" % other[:2], b.loc(pf[0])):
        return
    atoms = sorted(_atoms(f, set()))
    ords = [a for a in atoms if a.startswith("ORD")]
    if not rep.check(bool(ords), "pad_struct:gap-vs-align", "the gap is compared with the struct's alignment", b.loc(pf[0])):
        return
    # hypotheses of the two early exits: size >= latest_offset and gap != 0
    hyp = [a for a in atoms if not a.startswith("ORD") and (("latest_offset" in a and " < " in a and "Layout::size" in a) or
                                                             a.replace("'", "").rstrip(")").endswith("== lit:0"))]
    free = [a for a in atoms if not a.startswith("ORD") and a not in hyp]
    CMP = {"<": lambda o: o < 0, "<=": lambda o: o <= 0, ">": lambda o: o > 0, ">=": lambda o: o >= 0, "==": lambda o: o == 0, "!=": lambda o: o != 0}
    for o, nm in ((0, "gap == align"), (1, "gap > align")):
        bad = None
        for vals in itertools.product((False, True), repeat=len(free)):
            env = dict(zip(free, vals))
            env.update({a: False for a in hyp})
            env.update({a: CMP[a[3:]](o) for a in ords})
            if not _ev(f, env):
                bad = [a[:50] for a, v in env.items() if v and not a.startswith("ORD")]
                break
        rep.check(bad is None, "pad_struct:pads-when:" + nm.replace(" ", ""), "a tail of %s bytes always gets a padding field "
                  "(rustc's own rounding supplies at most align-1)%s" % (nm, "" if bad is None else " — not with %s true" % (bad or "everything else false")), b.loc(pf[0]))


def qq_atoms(b, n):
    import qq
    return qq.guard_atoms(b, n)


def qq_has(b, n, substr, pol):
    import qq
    return qq.has_atom(qq.guard_atoms(b, n), substr, pol)


@RULES.rule("R2.5", "padding and opaque blobs are built from the requested size and alignment only (shared with C10 R10.5)", floor=6)
def r2_5(rep):
    """helpers::blob backs every explicit padding field: `len = size / align` units of the alignment's integer type.
    Rounding the count up (`(size + align - 1) / align`) makes the padding in front of an `aligned(8)` int one unit too long,
    so the member and everything after it move (an independently seeded change did exactly this)."""
    import c10
    c10.r10_5(rep)


@RULES.rule("R2.6", "`#pragma pack` is inferred from EVERY member whose alignment exceeds the record's", floor=6)
def r2_6(rep):
    """libclang does not expose `#pragma pack`; `CompInfo::is_packed` detects it when some member's own alignment is larger
    than the alignment clang reports for the record.  Any extra condition on the member (size != 0, named, not an array …)
    loses `#pragma pack(1) struct { unsigned char len; unsigned int words[]; }`, which is then emitted as plain repr(C) with
    size 4 instead of 1."""
    prog = rep.prog
    b = rep.need(prog.fn("ir::comp::CompInfo::is_packed"), "CompInfo::is_packed")
    # (a) the packed attribute decides on its own
    rets = [n for n in b.walk() if n["k"] == "Ret" and strip(n.get("e", {})).get("v") is True]
    rep.check(any(any("CompInfo::packed_attr" in a and p for a, p, _ in qq_atoms(b, r)) and len(qq_atoms(b, r)) == 1 for r in rets), "attr-decides",
              "`packed_attr` alone makes the record packed", b.loc(b.root))
    # (b) the inference compares member alignment with record alignment, nothing else
    cmps = [n for n in b.walk() if n["k"] == "Binary" and n["op"] in (">", "<") and "Layout::align" in b.canon(n["l"], 5) and "Layout::align" in b.canon(n["r"], 5)]
    if rep.check(len(cmps) == 1, "align-comparison", "one comparison of a member's alignment with the record's (found %d)" % len(cmps), b.loc(b.root)):
        c = cmps[0]
        big, small = (c["l"], c["r"]) if c["op"] == ">" else (c["r"], c["l"])
        rep.check("cparam:" in b.canon(big, 5) and "param:layout" in b.canon(small, 5), "align-comparison-operands",
                  "member.align > record.align (found %s > %s)" % (b.canon(big, 4)[:50], b.canon(small, 4)[:50]), b.loc(c))
        weakened = [a for a in b.ancestors(c) if a["k"] == "Binary" and a["op"] == "&&"]
        clo = [a for a in b.ancestors(c) if a["k"] == "Closure"]
        extra = []
        if clo:
            # only conjunctive restrictions matter: `packed || cmp` (accumulation) does not exclude any member
            extra = [g for g in b.guards(c) if g[1] == "cond" and g[0] and any(x is clo[0] for x in b.ancestors(g[2]))]
        rep.check(not weakened and not extra, "no-extra-member-condition",
                  "no further condition restricts which members count (found %s)" % ([b.canon(a, 4)[:80] for a in weakened] + [b.canon(g[2], 4)[:80] for g in extra]), b.loc(c))
        if clo:
            p = b.parent[clo[0]["_i"]]
            while p is not None and p["k"] in ("AddrOf",):
                p = b.parent[p["_i"]]
            rep.check(p is not None and p["k"] == "MCall" and (p.get("callee") or "").endswith("each_known_field_layout"), "all-members-visited",
                      "the test runs for every member with a known layout (each_known_field_layout)", b.loc(c))
    ek = rep.need(prog.fn("ir::comp::CompInfo::each_known_field_layout"), "CompInfo::each_known_field_layout")
    calls = [c for c in ek.calls(lambda n: n["k"] == "Call" and "f" in n and strip(n["f"]).get("name") == "callback")]
    fors = [n for n in ek.walk() if n["k"] == "For"]
    okall = bool(calls) and len(fors) >= 2
    for c in calls:
        atoms = [a for a, p, _ in qq_atoms(ek, c) if not a.startswith("arm:")]
        okall = okall and all(a.startswith("let ") and "layout" in a for a in atoms)
        lp = [a for a in ek.ancestors(c) if a["k"] == "For"]
        okall = okall and bool(lp) and not re_search_lossy(ek.canon(lp[0]["iter"], 6))
    rep.check(okall, "each-known-field-layout-complete", "the callback is invoked for every field whose layout is known, in both field representations", ek.loc(ek.root))


def re_search_lossy(s):
    import re as _re
    return _re.search(r"::(skip|take|filter|step_by|take_while|skip_while)\(", s) is not None


# ---------------------------------------------------------------------------------------------------------
# R2.7 / R2.8  (added after round 3 of the seeded changes)
# ---------------------------------------------------------------------------------------------------------
@RULES.rule("R2.7", "a record found to be packed is emitted packed: the decision is only ever strengthened on its way to `repr`", floor=3)
def r2_7(rep):
    """`CompInfo::is_packed` is the only place that knows `__attribute__((packed))` / `#pragma pack`; `CompInfo::codegen` may add
    `packed` (alignment 1 that repr(C) cannot express) but must not take it away for some representation: a Rust `union` under
    `#pragma pack(2)` keeps natural alignment otherwise (C: size 10 align 2; bindings: size 16 align 8, every enclosing offset
    wrong)."""
    prog = rep.prog
    b = rep.need(prog.impl_fn("codegen::CodeGenerator", "ir::comp::CompInfo", "codegen"), "<CompInfo as CodeGenerator>::codegen")
    lets = [n for n in b.nodes if n["k"] == "Let" and n["pat"].get("k") == "Bind" and n.get("init") is not None and
            callee_of(strip(n["init"])).endswith("CompInfo::is_packed")]
    rep.need(len(lets) == 1, "`let packed = self.is_packed(..)` in CompInfo::codegen")
    lid = lets[0]["pat"]["id"]
    init = strip(lets[0]["init"])
    d0 = b.local_def.get(strip(init["recv"]).get("id")) if strip(init["recv"]).get("k") == "Local" else None
    rep.check(bool(d0) and d0[0][0] == "param" and d0[0][1] == 0, "packed:asked-of-self", "is_packed is asked of the record being generated", b.loc(init))
    asg = [n for n in b.nodes if n["k"] in ("Assign", "AssignOp") and strip(n["l"]).get("k") == "Local" and strip(n["l"])["id"] == lid]
    weaker = [n for n in asg if not (n["k"] == "Assign" and strip(n["r"]).get("k") == "Lit" and strip(n["r"]).get("v") is True) and
              not (n["k"] == "AssignOp" and n["op"] in ("|", "|=", "BitOr"))]
    rep.check(not weaker, "packed:only-strengthened", "%d assignment(s) to the packed flag, all `= true`" % len(asg) if not weaker else
              "the packed flag is overwritten with `%s`: a record that is packed in C can be emitted without `packed`" % b.canon(weaker[0]["r"], 3)[:60],
              b.loc(weaker[0]) if weaker else b.loc(lets[0]))
    # the flag is what selects repr(C, packed..)
    sites = [c for c in b.calls(lambda n: n["k"] == "Call" and callee_of(n).endswith("attributes::repr_list"))
             if any(x["k"] == "Lit" and isinstance(x.get("v"), str) and "packed" in x["v"] for x in b.walk(c)) or
             any(x["k"] == "Local" and b.local_init(x["id"]) is not None and "packed" in b.canon(b.local_init(x["id"]), 6) for x in b.walk(c))]
    # the site is reached only when the flag is set: decided over all combinations of the conditions on the way (locals resolved,
    # either branch order)
    import itertools
    from c08 import _reach, _atoms, _ev
    okr = bool(sites)
    pk_name = "local:" + lets[0]["pat"]["name"]
    for c in sites:
        f = _reach(b, c)
        atoms = sorted(_atoms(f, set()))
        pk_atoms = [a for a in atoms if a == pk_name or a.startswith("ir::comp::CompInfo::is_packed(param:self")]
        if not pk_atoms or len(atoms) > 14:
            okr = False
            continue
        for vals in itertools.product([False, True], repeat=len(atoms)):
            env = dict(zip(atoms, vals))
            if any(env[a] for a in pk_atoms):
                continue
            if _ev(f, env):
                okr = False
                break
    rep.check(okr, "packed:selects-repr", "`repr(C, packed[(N)])` is emitted under the packed flag", b.loc(sites[0]) if sites else b.loc(b.root))


@RULES.rule("R2.8", "typedef names that bindgen maps to Rust primitives keep their width and signedness", floor=13)
def r2_8(rep):
    """`utils::type_from_named` short-cuts `int32_t`, `size_t`, `ssize_t`, … to Rust primitives by NAME.  The table has to agree
    with C: `ssize_t` is signed (`isize`); merging it into the `size_t` arm makes a `-1` stored by C read back as
    18446744073709551615 through the bindings while size, alignment and offsets still match."""
    prog = rep.prog
    t = rep.need(prog.fn("codegen::utils::type_from_named"), "utils::type_from_named")
    want = {k: v for k, v in ORACLE["named_typedefs"].items() if not k.startswith("_")}
    ms = [n for n in t.walk() if n["k"] == "Match"]
    rep.need(ms, "the name table of type_from_named")
    seen = {}
    for a in ms[0]["arms"]:
        names = [v[4:].strip("'\"") for v in pat_variants_(a["pat"]) if v.startswith("lit:")]
        if not names:
            continue
        prims = sorted({str(x.get("v")) for c in t.calls(lambda n: n["k"] == "Call" and callee_of(n).endswith("utils::primitive_ty"), a["body"])
                        for x in [strip(c["args"][1])] if x.get("k") == "Lit"})
        for nm in names:
            seen[nm] = (prims, a)
    for nm, (prims, a) in sorted(seen.items()):
        if nm not in want:
            rep.bad("named-typedef:" + nm, "`%s` is mapped to %s by name but is not in oracle/c_types.json named_typedefs" % (nm, prims), t.loc(a["body"]))
            continue
        rep.check(prims == [want[nm]], "named-typedef:" + nm, "`%s` -> %s (C: %s)" % (nm, prims, want[nm]), t.loc(a["body"]))
    rep.need(len(seen) >= 13, "rows of the type_from_named table")


@RULES.rule("R2.9", "member offsets are libclang's, whatever is or is not asserted about them (shared with C06 R6.4)", floor=6)
def r2_9(rep):
    """`FieldData::offset` does not only feed the offset assertions: it decides the explicit padding in front of over-aligned members
    and where a run of bit-fields starts.  Querying it only when layout tests are enabled makes `--no-layout-tests` change the
    LAYOUT (`struct { char c; int v __attribute__((aligned(8))); }` puts v at 4).  The provenance rule is C06's."""
    import c06
    c06.r6_4(rep)


@RULES.rule("R2.10", "the gap in front of a bit-field unit is filled whenever libclang places the run later (unions excepted)", floor=1)
def r2_10(rep):
    """A bit-field unit is a byte array: `repr(packed)` cannot move it, and even inside a packed record a zero-width bit-field makes the
    next run start at the next boundary (`#pragma pack(2) struct { char a; int :0; unsigned b:3; }` has b at byte 4).  The only
    conditions on the padding are therefore "not a union" and "libclang's offset is beyond the running offset"; excluding packed
    records as well puts the unit at byte 1 and shrinks the struct from 12 to 8 bytes."""
    prog = rep.prog
    b = rep.need(next((x for p, x in prog.bodies.items() if p.endswith("::saw_bitfield_unit") and "StructLayoutTracker" in p), None),
                 "StructLayoutTracker::saw_bitfield_unit")
    subs = [n for n in b.nodes if n["k"] == "Binary" and n["op"] == "-" and "latest_offset" in b.canon(n["r"], 4) and "/ lit:8" in b.canon(n["l"], 4).replace("'", "")]
    rep.need(subs, "the padding computation `offset / 8 - latest_offset` in saw_bitfield_unit")
    for s_ in subs:
        if b.macro_name(s_):
            continue
        extra = []
        for pol, kind, g in b.guards(s_):
            if kind != "cond":
                continue
            todo = [(pol, strip(g))]
            while todo:
                pl, e = todo.pop()
                if e.get("k") == "Unary" and e.get("op") == "!":
                    todo.append((not pl, strip(e["e"])))
                elif e.get("k") == "Binary" and e["op"] == ("&&" if pl else "||"):
                    todo += [(pl, strip(e["l"])), (pl, strip(e["r"]))]
                else:
                    src = b.canon(e, 5)
                    if "CompInfo::is_union" in src and not pl:
                        continue
                    if e.get("k") == "Binary" and e["op"] in (">", "<", ">=", "<=") and "latest_offset" in src:
                        continue
                    extra.append(("" if pl else "!") + src[:60])
        rep.check(not extra, "unit-gap-conditions", "padding is emitted for every non-union record whose run starts beyond the running offset" if not extra else
                  "the padding is additionally conditioned on %s: the unit of such a record is placed too early" % ", ".join(extra), b.loc(s_))


@RULES.rule("R2.11", "an explicit padding field neither rounds its size up nor moves: its alignment divides its size and its start", floor=1)
def r2_11(rep):
    """A padding field is a blob of `padding_bytes` bytes that has to begin exactly where the previous member ended.  Giving it an
    alignment that does not divide both numbers makes Rust round the blob's size up and move it to the next multiple: for
    `struct { char c; long double ld; }` (c at 0, ld at 16) the 15-byte padding of alignment 8 becomes 16 bytes at offset 8, `ld`
    lands at 32 and the generated offset assertion does not compile."""
    prog = rep.prog
    b = rep.need(next((x for p, x in prog.bodies.items() if p.endswith("::saw_field_with_layout") and "StructLayoutTracker" in p), None),
                 "StructLayoutTracker::saw_field_with_layout")
    news = [c for c in b.calls(lambda n: n["k"] == "Call" and callee_of(n).endswith("Layout::new"))]
    rep.need(news, "the padding `Layout::new(padding_bytes, <align>)` in saw_field_with_layout")
    for c in news:
        al = c["args"][1]
        leaves_ = []

        def leaves_of(e, depth=0, at=None):
            """(value, node whose guards describe when that value is chosen)"""
            e = strip(e)
            if e.get("k") == "If" and "else" in e:
                return leaves_of(e["then"], depth + 1) + leaves_of(e["else"], depth + 1)
            if e.get("k") == "Block" and e.get("tail") is not None:
                return leaves_of(e["tail"], depth + 1, at)
            if e.get("k") == "Local" and b.local_init(e["id"]) is not None and depth < 6:
                init = strip(b.local_init(e["id"]))
                if init.get("k") in ("If", "Block", "Local"):
                    return leaves_of(init, depth + 1, at or (e if at is None and any(g[1] == "cond" for g in b.guards(e)) else None))
            return [(e, at or e)]
        bad = []
        for lf, where_ in leaves_of(al):
            if lf.get("k") == "Lit" and lf.get("v") == 1:
                continue
            # a larger alignment is fine when the path to it tests that it divides the size and the start offset
            tests = " ".join(b.canon(g, 6) for pol, kind, g in b.guards(where_) if kind == "cond" and pol)
            div = tests.count("%") >= 2 or ("is_multiple_of" in tests and tests.count("is_multiple_of") >= 2)
            if not div:
                bad.append(lf)
        rep.check(not bad, "padding-align-divides-size-and-start", "the padding's alignment is 1, or tested to divide its size and its start offset" if not bad else
                  "the padding blob gets alignment `%s` without checking that it divides the padding size and the offset the padding starts at"
                  % b.canon(bad[0], 3)[:60], b.loc(c))


@RULES.rule("R2.12", "padding emitted by `add_tail_padding` is counted, so the final `pad_struct` does not add it again", floor=1)
def r2_12(rep):
    """With `--explicit-padding` CompInfo::codegen first asks `add_tail_padding` and then, like always, `pad_struct`.  Both compute
    `size - latest_offset`.  When the struct ends in a bit-field unit `pad_struct` pads regardless of the size of the gap, so unless
    the first one advances the running offset the tail is padded twice: `struct T { int a:3; }` becomes 1 + 3 + 3 bytes, size 8
    instead of 4 (the bindings' own size assertion fails to compile)."""
    prog = rep.prog
    ms = {p.split("::")[-1]: b for p, b in prog.bodies.items() if "StructLayoutTracker" in p}
    b = rep.need(ms.get("add_tail_padding"), "StructLayoutTracker::add_tail_padding")
    pf = [c for c in b.calls(lambda n: n["k"] == "MCall" and n.get("name") == "padding_field")]
    rep.need(pf, "the padding_field call of add_tail_padding")
    upd = [n for n in b.nodes if n["k"] in ("Assign", "AssignOp") and strip(n["l"]).get("k") == "Field" and strip(n["l"])["f"] == "latest_offset"]
    ok = bool(upd) and all([g for g in b.guards(u) if g[1] == "cond"] == [g for g in b.guards(pf[0]) if g[1] == "cond"] for u in upd)
    rep.check(ok, "tail-padding-advances-offset", "the running offset is moved to the end of the emitted padding" if ok else
              "add_tail_padding emits a padding field without advancing `latest_offset`: pad_struct sees the same gap again", b.loc(pf[0]))
    cg = rep.need(prog.impl_fn("codegen::CodeGenerator", "ir::comp::CompInfo", "codegen"), "<CompInfo as CodeGenerator>::codegen")
    order = [(c["_i"], c["name"]) for c in cg.calls(lambda n: n["k"] == "MCall" and n.get("name") in ("add_tail_padding", "pad_struct"))]
    rep.note("order", [n for _, n in sorted(order)])


@RULES.rule("R2.13", "a function pointer that cannot be spelled is replaced by a blob of the POINTER's layout", floor=1)
def r2_13(rep):
    """A function pointer is written as its function type (`Option<unsafe extern "C" fn(..)>`).  When that type cannot be written
    (its ABI is not available for the target), the opaque fallback has to be taken for the pointer, whose layout is a pointer's.
    `to_rust_ty_or_opaque` on the pointee gives the blob of the function TYPE instead (`[u32; 0]`), and every struct holding such a
    pointer fails its size assertion.  In the pointer arm of `Type::try_to_rust_ty`, what is returned for a function pointee comes
    from the fallible conversion (`try_to_rust_ty(..)?`)."""
    prog = rep.prog
    b = rep.need(prog.impl_fn("codegen::TryToRustTy", "ir::ty::Type", "try_to_rust_ty"), "<Type as TryToRustTy>::try_to_rust_ty")
    # exits of the pointer arm that are guarded by `is_function()`
    n = 0
    for node in b.walk():
        is_exit = node["k"] == "Ret" or (node["k"] == "Call" and (node.get("ctor_of") or "").endswith("Ok") and
                                         b.parent[node["_i"]] is not None and b.parent[node["_i"]]["k"] in ("Block", "If"))
        if not is_exit:
            continue
        gs = b.guards(node, nested=True)
        in_ptr_arm = any(kind == "arm" and any(v.endswith(("TypeKind::Pointer", "TypeKind::Reference")) for v in pat_variants_(g[0]["arms"][g[1]]["pat"]))
                         for pol, kind, g in gs)
        only_fn = [g for pol, kind, g in gs if kind == "cond" and pol and "is_function" in b.canon(g, 6) and "is_objc" not in b.canon(g, 6) and "||" not in b.canon(g, 6)]
        if not in_ptr_arm or not only_fn:
            continue
        n += 1
        val = node.get("e") if node["k"] == "Ret" else node
        src = b.canon(val, 10)
        for x in b.walk(val):
            if x["k"] == "Local" and b.local_init(x["id"]) is not None:
                src += " " + b.canon(b.local_init(x["id"]), 10)
        fallible = "TryToRustTy>::try_to_rust_ty(" in src and "to_rust_ty_or_opaque" not in src
        rep.check(fallible, "fn-pointer-fallback-is-pointer-sized", "the pointee is converted fallibly; a failure makes the pointer itself opaque" if fallible else
                  "the value returned for a function pointee comes from `to_rust_ty_or_opaque`: an unspellable function type yields a blob "
                  "of the function type's layout where a pointer is needed", b.loc(node))
    rep.need(n >= 1, "the exit of the pointer arm for function pointees")


@RULES.rule("R2.14", "the layout by which a scalar is spelled is the layout of that scalar", floor=3)
def r2_14(rep):
    """`int_kind_rust_type` / `float_kind_rust_type` pick the spelling of `long double`, `__int128`, `wchar_t` .. by the SIZE in the
    layout they are handed.  Handing them the layout of the enclosing type picks the row of another size: the `TypeKind::Complex`
    arm passes the complex type's own layout (2 x the element), so `long double _Complex` (32 bytes on x86-64) is spelled
    `__BindgenComplex<f64>` (16 bytes), and with a 64-bit long double `__BindgenComplex<u128>` (32 bytes for 16).
    Per call site: under an arm for the scalar kind itself the argument is `self.layout(ctx)`; under the Complex arm it is derived
    (halved) from it."""
    prog = rep.prog
    b = rep.need(prog.impl_fn("codegen::TryToRustTy", "ir::ty::Type", "try_to_rust_ty"), "<Type as TryToRustTy>::try_to_rust_ty")
    n = 0
    for c in b.calls(lambda x: x["k"] == "Call" and callee_of(x).endswith(("ast_ty::float_kind_rust_type", "ast_ty::int_kind_rust_type"))):
        arms = [g for pol, kind, g in b.guards(c, nested=True) if kind == "arm" and pol]
        vs = set()
        for g in arms:
            vs |= {v.split("::")[-1] for v in pat_variants_(g[0]["arms"][g[1]]["pat"]) if "TypeKind::" in v}
        if not vs:
            continue
        n += 1
        arg = c["args"][2]
        src = b.canon(arg, 10)
        if strip(arg).get("k") == "Local" and b.local_init(strip(arg)["id"]) is not None:
            src = b.canon(b.local_init(strip(arg)["id"]), 10)
        own = src.replace(" ", "") in ("ir::ty::Type::layout(param:self,param:ctx)",)
        kind = "/".join(sorted(vs))
        if vs & {"Complex"}:
            rep.check(not own, "complex-element-layout@try_to_rust_ty",
                      "the element is spelled by a layout derived from the complex type's" if not own else
                      "the element of a `_Complex` is spelled by the layout of the COMPLEX type (twice the element's size): `long double _Complex` "
                      "becomes `__BindgenComplex<f64>`, 16 bytes for a 32-byte type", b.loc(c))
        else:
            rep.check(own, "scalar-own-layout:%s@try_to_rust_ty" % kind, "spelled by `self.layout(ctx)` (found `%s`)" % src[:80], b.loc(c))
    rep.need(n >= 3, "int_kind_rust_type / float_kind_rust_type call sites in try_to_rust_ty")


@RULES.rule("R2.15", "vtable and sizedness facts pass through typedefs, alias templates and resolved references (shared with C07 R7.9)", floor=6)
def r2_15(rep):
    """`CompInfo::codegen` emits a `vtable_` pointer field for a class that needs a vtable of its own, i.e. has virtual functions and
    no base that already has one; an `_address` byte for a class without sized members.  Both facts come from the HasVtable /
    Sizedness analyses, which forward `Alias`, `TemplateAlias` and `ResolvedTypeRef` to what they name.  With `Alias` dropped from the
    forwarding arm (seeded change) a base named through `typedef Shape ShapeT;` has no entry, and `struct ViaTd : ShapeT { virtual
    void hit(); int r; }` gets a second vtable pointer: 32 bytes for 24, `r` at 24 for 16.  Same rule instances as R7.9."""
    from engine import KeyFilter
    import c07
    c07.r7_9(KeyFilter(rep, lambda k: "HasVtable" in k or "Sizedness" in k))


@RULES.rule("R2.16", "explicit tail padding is only added where nothing else supplies those bytes", floor=2)
def r2_16(rep):
    """`--explicit-padding` must not change a size.  Two emitters add bytes AFTER `add_tail_padding` has run: the
    `bindgen_union_field` blob of a union that is emitted as a struct (it has the union's whole size), and the `_address` byte of a class
    without sized members.  Tail padding in front of either counts the same bytes twice (`union U{int a; char b[5];}` 12 bytes for 8
    under --disable-untagged-union; `struct E{};` 2 bytes for 1 — both before the fixes).  (1) in `add_tail_padding` the padding field
    is unreachable when the record is a union, whatever its Rust representation; (2) in `CompInfo::codegen` the call is unreachable
    for a zero-sized item."""
    import itertools
    from c08 import _reach, _atoms, _ev
    prog = rep.prog
    ms = _slt_methods(prog)
    b = rep.need(ms.get("add_tail_padding"), "StructLayoutTracker::add_tail_padding")
    pf = [c for c in b.calls(lambda n: n["k"] == "MCall" and n.get("name") == "padding_field")]
    rep.need(pf, "the padding field built by add_tail_padding")

    def unreachable_when(bb, node, pred, what, key, loc):
        f = _reach(bb, node)
        atoms = sorted(_atoms(f, set()))
        fixed = {a: True for a in atoms if pred(a)}
        free = [a for a in atoms if a not in fixed]
        ok = bool(fixed) and not any(_ev(f, dict(zip(free, vs), **fixed)) for vs in itertools.product((False, True), repeat=len(free)))
        rep.check(ok, key, "not reached when %s" % what if ok else
                  "still reached when %s (tests on the way: %s): the same bytes are supplied a second time by what is emitted afterwards"
                  % (what, [a[:60] for a in atoms][:4]), loc)
    for c in pf:
        unreachable_when(b, c, lambda a: a.endswith("CompInfo::is_union(param:self.codegen::struct_layout::StructLayoutTracker::comp)") or
                         ("CompInfo::is_union(" in a and "StructLayoutTracker::comp" in a and "!" not in a[:2]),
                         "the record is a union (Rust union or wrapper struct)", "tail-padding:never-for-unions", b.loc(c))
    cg = rep.need(prog.impl_fn("codegen::CodeGenerator", "ir::comp::CompInfo", "codegen"), "<CompInfo as CodeGenerator>::codegen")
    calls = [c for c in cg.calls(lambda n: n["k"] == "MCall" and n.get("name") == "add_tail_padding")]
    rep.need(calls, "the add_tail_padding call in CompInfo::codegen")
    for c in calls:
        # `layout.filter(|_| !item.is_zero_sized(ctx))` as the scrutinee of the `if let` counts as the test
        gs = cg.guards(c, nested=True)
        via_filter = any(kind in ("cond", "arm", "letelse") and "is_zero_sized" in json.dumps(g if isinstance(g, dict) else g[0].get("scrut", {}))
                         and "filter" in json.dumps(g if isinstance(g, dict) else g[0].get("scrut", {})) for pol, kind, g in gs)
        direct = any(kind == "cond" and "is_zero_sized" in cg.canon(g, 8) and (pol is False or cg.canon(g, 8).lstrip("(").startswith("!")) for pol, kind, g in gs)
        neg_in_filter = False
        for pol, kind, g in gs:
            node = g if isinstance(g, dict) else g[0].get("scrut", {})
            for x in cg.walk(node) if isinstance(node, dict) and "k" in node else []:
                if x["k"] == "Closure" and "is_zero_sized" in cg.canon(x.get("body", {}), 8):
                    neg_in_filter = cg.canon(x["body"], 8).lstrip("(").startswith("!")
        ok = direct or (via_filter and neg_in_filter)
        rep.check(ok, "tail-padding:never-for-zero-sized", "not reached for an item without sized members" if ok else
                  "reached for a zero-sized item too: its `_address` byte is emitted after the padding", cg.loc(c))


@RULES.rule("R2.17", "a class without sized members still gets the alignment (and tail) its layout asks for", floor=1)
def r2_17(rep):
    """C++ gives an empty class one byte, or more under `alignas`: `struct alignas(8) E {};` has size 8 and alignment 8.  The bindings
    stand for it with `_address: u8`; the step that pads the struct and decides `#[repr(align(N))]` has to run for it as for any other
    struct (before the fix it was skipped for every zero-sized record: size 1, alignment 1).  On the reach condition of the
    struct-branch `requires_explicit_align` in `CompInfo::codegen`: with "zero-sized" and "got an `_address` byte" true (not opaque,
    not a union, layout known) it is reached whatever the remaining tests say."""
    import itertools
    from c08 import _reach, _atoms, _ev
    prog = rep.prog
    cg = rep.need(prog.impl_fn("codegen::CodeGenerator", "ir::comp::CompInfo", "codegen"), "<CompInfo as CodeGenerator>::codegen")
    calls = [c for c in cg.calls(lambda n: n["k"] == "MCall" and n.get("name") == "requires_explicit_align")]
    rep.need(calls, "requires_explicit_align in CompInfo::codegen")
    # the local that records that the `_address` byte was emitted: assigned `true` next to the `_address` quote
    addr = None
    import qq
    for q in qq.quote_sites(cg):
        if "_address" in q.tokens:
            blk = next((a for a in cg.ancestors(q.root) if a["k"] == "Block"), None)
            for a in cg.ancestors(q.root):
                if a["k"] != "Block":
                    continue
                for n in cg.walk(a):
                    if n["k"] == "Assign" and strip(n["l"]).get("k") == "Local" and strip(n["r"]).get("k") == "Lit" and strip(n["r"]).get("v") is True:
                        addr = strip(n["l"])
                if addr is not None:
                    break
    struct_calls = []
    for c in calls:
        f = _reach(cg, c)
        atoms = sorted(_atoms(f, set()))
        union_atoms = [a for a in atoms if "CompKind::Union" in a]
        # the struct branch is the one reached with "is a union" false
        fixed = {}
        for a in atoms:
            if "CompKind::Union" in a:
                fixed[a] = False
            elif "IsOpaque>::is_opaque" in a or "is_forward_declaration" in a or "has_non_type_template_params" in a:
                fixed[a] = False
            elif "is_zero_sized" in a:
                fixed[a] = True
            elif a.startswith("let ") and "Type::layout" in a:
                fixed[a] = True
            elif addr is not None and a == "local:%s" % addr["name"]:
                fixed[a] = True
        free = [a for a in atoms if a not in fixed]
        vals = [_ev(f, dict(zip(free, vs), **fixed)) for vs in itertools.product((False, True), repeat=len(free))]
        # is this the struct branch?  (the union branch is unreachable with is-union false)
        f_union = dict(fixed)
        for a in union_atoms:
            f_union[a] = True
        reach_as_union = any(_ev(f, dict(zip(free, vs), **f_union)) for vs in itertools.product((False, True), repeat=len(free)))
        if reach_as_union and not any(vals):
            continue
        struct_calls.append((c, all(vals), free))
    rep.need(struct_calls or calls, "the struct-branch alignment decision")
    ok = any(allv for _, allv, _ in struct_calls)
    rep.check(ok, "empty-class-alignment-decided", "the alignment decision is reached for a zero-sized record that got an `_address` byte" if ok else
              "the padding / explicit-alignment step is never reached for a zero-sized record: `struct alignas(8) E {};` becomes a one-byte, "
              "one-aligned struct", cg.loc(calls[0]))
