"""C18 — extern-block merging and semantic sorting only regroup items."""
from engine import RuleSet
from hir import strip, pat_variants

RULES = RuleSet("C18", "§3 C18",
                not_decided=["that the processed bindings still compile (needs rustc on the output)",
                             "multiset equality of two concrete outputs (a relation between two runs)"])

KEY_FIELDS = {"attrs", "abi", "unsafety"}
FM = "syn::ItemForeignMod"


def merge_fn(rep):
    """The function that merges foreign items: calls extend* on ItemForeignMod.items."""
    out = []
    for b in rep.prog.bodies.values():
        for c in b.calls(lambda n: n["k"] == "MCall" and n["name"] in ("extend_from_slice", "extend", "append", "push")):
            r = strip(c["recv"])
            if r["k"] == "Field" and r.get("adt") == FM and r["f"] == "items":
                out.append((b, c))
    return out


@RULES.rule("R18.1", "merge admits only blocks equal in attrs, abi and unsafety", floor=3)
def r18_1(rep):
    sites = rep.need(merge_fn(rep), "a call extending syn::ItemForeignMod.items")
    for b, c in sites:
        compared = {}
        for pol, kind, g in b.guards(c):
            if kind != "cond" or not pol:
                continue
            # conjunction of equalities
            stack = [g]
            while stack:
                e = stack.pop()
                if e["k"] == "Binary" and e["op"] == "&&":
                    stack += [e["l"], e["r"]]
                elif e["k"] == "Binary" and e["op"] == "==":
                    for a, o in ((e["l"], e["r"]), (e["r"], e["l"])):
                        a = strip(a)
                        if a["k"] == "Field" and a.get("adt") == FM:
                            compared[a["f"]] = (b.canon(a), b.canon(o))
        for f in sorted(KEY_FIELDS):
            if f not in compared:
                rep.bad("merge-key:" + f, "foreign items are merged into an existing block without comparing `%s` "
                        "(compared: %s)" % (f, sorted(compared)), b.loc(c))
                continue
            lhs, rhs = compared[f]
            # the other side must be the same field of the block being merged
            same = ("%s.%s" % (FM, f)) in rhs or rhs.endswith("::" + f)
            rep.check(same, "merge-key:" + f, "`%s` compared with `%s`" % (lhs, rhs), b.loc(c))


REORDERERS = {"swap", "insert", "reverse", "sort", "sort_by", "sort_by_key", "sort_unstable", "sort_unstable_by", "sort_unstable_by_key",
              "rotate_left", "rotate_right", "splice", "retain", "dedup", "truncate", "clear", "drain", "remove", "pop", "swap_remove",
              "split_off", "swap_with_slice"}


def _fm_test(b, item_id, pol_kind_g):
    """+1 when the guard says `item` IS an Item::ForeignMod, -1 when it says it is not, 0 otherwise."""
    pol, kind, g = pol_kind_g
    pat = init = None
    if kind == "cond" and strip(g).get("k") == "LetCond":
        pat, init = strip(g)["pat"], strip(g)["init"]
    elif kind == "letelse":
        pat, init = g["pat"], g.get("init")
    if pat is None or init is None:
        return 0
    x = strip(init)
    if not (x.get("k") == "Local" and x["id"] == item_id):
        return 0
    if not any(v == "syn::Item::ForeignMod" for v in pat_variants(pat)):
        return 0
    return 1 if pol else -1


@RULES.rule("R18.2", "merge loop hands every item to exactly one sink, and merged items keep their order", floor=11)
def r18_2(rep):
    """`visit_items` takes the item list, keeps one block per (attrs, abi, unsafety) key and pushes everything else back.  Nothing may
    be lost (every non-extern item pushed back; every extern block either appended to THE block with its key or stored as a new one,
    decided per item by a flag that starts false for each item) and nothing inside a key group may change places (the incoming items
    are appended behind the ones already collected; no swap / sort / truncate on either list).  Both the `if let .. else` and the
    `let .. else { push; continue }` spelling of the dispatch are read."""
    sites = rep.need(merge_fn(rep), "merge function")
    b = sites[0][0]
    loops = [n for n in b.walk() if n["k"] == "For" and "std::mem::take" in b.canon(n["iter"])]
    rep.need(loops, "for loop over mem::take(items) in %s" % b.path)
    loop = loops[0]
    item_id = loop["pat"].get("id")

    def ctx(n):
        """+1 / -1 / 0: n runs only for extern blocks / only for other items / for both"""
        v = 0
        for g3 in b.guards(n, nested=True):
            t = _fm_test(b, item_id, g3)
            if t:
                v = t
        # the `else` block of a let-else runs exactly when the pattern did not match
        for a in b.ancestors(n):
            if a["k"] == "Let" and "els" in a and any(x is n for x in b.walk(a["els"])):
                if _fm_test(b, item_id, (True, "letelse", a)) == 1:
                    v = -1
        return v
    # ---- other items are pushed back --------------------------------------------------------------------------------
    pushes = [c for c in b.calls(lambda n: n["k"] == "MCall" and n["name"] == "push", loop["body"])
              if strip(c["args"][0]).get("k") == "Local" and strip(c["args"][0])["id"] == item_id]
    good = [c for c in pushes if ctx(c) == -1 and
            not [g3 for g3 in b.guards(c, nested=True) if g3 not in b.guards(loop["body"], nested=True) and _fm_test(b, item_id, g3) == 0]]
    rep.check(bool(good), "push-back-other-items", "a non-extern item is pushed back to `items` on every path", b.loc(loop["body"]))
    # ---- no early exits -------------------------------------------------------------------------------------------------
    bad_exit = None
    for n in b.walk(loop["body"]):
        if n["k"] == "Ret":
            bad_exit = n
        elif n["k"] in ("Break", "Continue"):
            inner = [a for a in b.ancestors(n) if a["k"] in ("For", "While", "Loop")]
            if inner and inner[0] is loop:
                # `continue` right after the push-back of a non-extern item is the let-else spelling of the else branch
                blk = b.parent[n["_i"]]
                while blk is not None and blk["k"] != "Block":
                    blk = b.parent[blk["_i"]]
                after_push = n["k"] == "Continue" and blk is not None and any(any(x is c for x in b.walk(blk)) for c in good) and ctx(n) == -1
                if not after_push:
                    bad_exit = n
    rep.check(bad_exit is None, "no-early-exit", "no way out of the loop body that skips an item" if bad_exit is None else
              "`%s` inside the merge loop drops the current (or every remaining) item" % bad_exit["k"].lower(), b.loc(bad_exit or loop))
    # ---- extern blocks: merged into the block with the same key, or stored ----------------------------------------------
    ext = [c for c in b.calls(lambda n: n["k"] == "MCall" and n["name"] in ("extend_from_slice", "extend", "append"), loop["body"])
           if strip(c["recv"]).get("k") == "Field" and strip(c["recv"]).get("adt") == FM and strip(c["recv"])["f"] == "items"]
    store = [c for c in b.calls(lambda n: n["k"] == "MCall" and n["name"] == "push", loop["body"])
             if strip(c["args"][0])["k"] == "Struct" and strip(c["args"][0]).get("adt") == FM]
    rep.check(len(ext) == 1 and ctx(ext[0]) == 1, "merge-extend-once", "exactly one extend of an existing block (found %d)" % len(ext), b.loc(loop["body"]))
    rep.check(len(store) == 1 and ctx(store[0]) == 1, "store-new-block", "exactly one push of a new block (found %d)" % len(store), b.loc(loop["body"]))
    if len(ext) != 1 or len(store) != 1:
        return
    flag = None
    for pol, kind, g in b.guards(store[0], nested=True):
        if kind != "cond":
            continue
        e = strip(g)
        if e["k"] == "Unary" and e["op"] == "!" and strip(e["e"])["k"] == "Local" and b.ty(strip(e["e"])) == "bool":
            flag = (strip(e["e"])["id"], not pol)
        elif e["k"] == "Local" and b.ty(e) == "bool":
            flag = (e["id"], pol)
    if not rep.check(flag is not None and flag[1] is False, "store-iff-not-merged", "the new block is stored under `!<flag>`", b.loc(store[0])):
        return
    assigns = [n for n in b.walk() if n["k"] == "Assign" and strip(n["l"]).get("id") == flag[0]]
    good_set = len(assigns) == 1 and strip(assigns[0]["r"]).get("v") is True and b.guards(assigns[0]) == b.guards(ext[0])
    rep.check(good_set, "flag-set-iff-merged", "the flag is set to true exactly on the path that extends an existing block", b.loc(ext[0]))
    init = b.local_def.get(flag[0])
    let = init[0][1] if init and init[0][0] == "let" else None
    ok_init = let is not None and strip(let.get("init", {})).get("v") is False
    rep.check(bool(ok_init), "flag-init-false", "the flag is initialised to false", b.loc(let or loop))
    per_item = let is not None and any(x is let for x in b.walk(loop["body"])) and \
        not [a for a in b.ancestors(let) if a["k"] in ("For", "While", "Loop") and a is not loop and any(x is a for x in b.walk(loop["body"]))]
    rep.check(per_item, "flag-per-item", "the flag is declared inside the loop body: it starts false for every item" if per_item else
              "the merged-flag is declared outside the loop over the items: after the first merge it stays true, and every later block with "
              "a new key is neither merged nor stored - its functions and statics vanish", b.loc(let or loop))
    lit = strip(store[0]["args"][0])
    for f in lit["fs"]:
        src = b.canon(f["e"])
        rep.check(src.endswith("~%s.%s" % (FM, f["f"])), "store-field:" + f["f"],
                  "field `%s` of the stored block comes from `%s`" % (f["f"], src), b.loc(f["e"]))
    a0 = b.canon(ext[0]["args"][0])
    rep.check(a0.endswith("~%s.items" % FM), "extend-source", "existing block is extended with `%s`" % a0, b.loc(ext[0]))
    # ---- order inside a key group ---------------------------------------------------------------------------------------
    reorder = []
    for c in b.calls(None, loop["body"]):
        nm = c.get("name") or (c.get("callee") or "").split("::")[-1]
        if nm in REORDERERS or (c.get("callee") or "").endswith("mem::swap") or (c.get("callee") or "").endswith("mem::replace"):
            src = b.canon(c, 6)
            if "ItemForeignMod::items" in src or "~%s.items" % FM in src or "ItemForeignMod.items" in src:
                reorder.append(c)
    rep.check(not reorder, "merge-keeps-order", "the incoming items are appended behind the collected ones; neither list is reordered" if not reorder else
              "`%s` touches the item list of a block inside the merge loop: the relative order of foreign items within one key group "
              "is no longer the order they were generated in" % b.canon(reorder[0], 3)[:100], b.loc(reorder[0] if reorder else ext[0]))
    # ---- after the loop every collected block is pushed back --------------------------------------------------------------
    okb = False
    for n in [x for x in b.walk() if x["k"] == "For" and x is not loop and not any(a is loop for a in b.ancestors(x))]:
        for c in b.calls(lambda x: x["k"] == "MCall" and x["name"] == "push", n["body"]):
            a = strip(c["args"][0])
            if a["k"] == "Call" and a.get("ctor_of") == "syn::Item::ForeignMod" and not [g for g in b.guards(c) if g not in b.guards(n)]:
                okb = True
    for c in b.calls(lambda x: x["k"] == "MCall" and x["name"] == "extend"):
        if any(a is loop for a in b.ancestors(c)) or b.guards(c):
            continue
        src = b.canon(c["args"][0], 8)
        if "syn::Item::ForeignMod" in src and "into_iter" in src and "map(" in src and not any(w in src for w in ("filter", "skip", "take(", "step_by", "rev(")):
            okb = True
    rep.check(okb, "push-back-blocks", "all collected extern blocks are pushed back after the loop", b.loc(b.root))


@RULES.rule("R18.3", "semantic sort is stable and keyed on the item kind only", floor=5)
def r18_3(rep):
    sorters = []
    for b in rep.prog.bodies.values():
        if "postprocessing" not in b.path:
            continue
        for c in b.calls(lambda n: n["k"] == "MCall" and n["name"].startswith("sort")):
            sorters.append((b, c))
    rep.need(sorters, "a sort call in codegen::postprocessing")
    for b, c in sorters:
        callee = c.get("callee", "")
        rep.check("unstable" not in callee and "select_nth" not in callee, "stable-sort:" + b.path.split("::")[-2],
                  "`%s` must be a stable sort (same-kind items keep their relative order)" % callee, b.loc(c))
        if not c["args"]:
            continue
        # the key function: a closure, a closure that forwards to a function, or a function named directly
        kb, m = b, None
        k = strip(c["args"][0])
        for _ in range(4):
            if k["k"] == "Closure":
                k = strip(k["body"])
            elif k["k"] in ("Call", "MCall") and rep.prog.fn(k.get("resolved") or k.get("callee") or "") is not None:
                kb = rep.prog.fn(k.get("resolved") or k.get("callee"))
                k = strip(kb.root)
            elif k["k"] == "Path" and rep.prog.fn(k.get("def", "")) is not None:
                kb = rep.prog.fn(k["def"])
                k = strip(kb.root)
            elif k["k"] == "Block" and not k["stmts"] and k.get("tail") is not None:
                k = strip(k["tail"])
            else:
                break
        if k["k"] == "Match":
            m = k
        if not rep.check(m is not None, "rank-is-a-kind-table", "the sort key is a `match` over the item kind" if m is not None else
                         "the sort key `%s` cannot be read as a table over the item kind" % b.canon(c["args"][0], 3)[:100], b.loc(c)):
            continue
        lits = all(strip(a["body"])["k"] == "Lit" for a in m["arms"])
        rep.check(lits, "rank-is-constant-per-kind", "every arm of the rank function is a literal", kb.loc(m))
        guarded = [a for a in m["arms"] if "guard" in a]
        rep.check(not guarded, "rank-depends-on-kind-only",
                  "no arm of the rank table looks inside the item" if not guarded else
                  "arm `%s if ..` ranks items of one kind differently: their relative order changes (`impl T {}` vs `impl Tr for T {}`)"
                  % list(pat_variants(guarded[0]["pat"]))[0].split("::")[-1], kb.loc(guarded[0]["body"]) if guarded else kb.loc(m))
        total = any("_" in pat_variants(a["pat"]) for a in m["arms"])
        rep.check(total, "rank-total", "the rank function has a catch-all arm", kb.loc(m))
        rep.note("ranks", {list(pat_variants(a["pat"]))[0]: strip(a["body"]).get("v") for a in m["arms"]})


@RULES.rule("R18.4", "each pass runs iff its own option is set; visitors recurse into modules", floor=8)
def r18_4(rep):
    prog = rep.prog
    passes = [b for b in prog.bodies.values() if b.kind.startswith("Const") and "PostProcessingPass" in (b.ty(b.root) or "")
              or (b.kind.startswith("Const") and b.path.endswith("postprocessing::PASSES"))]
    rep.need(passes, "const PASSES")
    b = passes[0]
    lits = [n for n in b.walk() if n["k"] == "Struct" and n.get("adt", "").endswith("PostProcessingPass")]
    rep.check(len(lits) >= 2, "passes-count", "%d passes registered" % len(lits), b.loc(b.root))
    for lit in lits:
        fs = {f["f"]: strip(f["e"]) for f in lit["fs"]}
        sr, run = fs.get("should_run"), fs.get("run")
        opt = None
        if sr and sr["k"] == "Closure":
            e = strip(sr["body"])
            if e["k"] == "Field" and e.get("adt", "").endswith("BindgenOptions"):
                opt = e["f"]
        fn = None
        if run and run["k"] == "Closure":
            for c in b.calls(None, run["body"]):
                fn = c.get("callee")
        rep.check(opt is not None and fn is not None and fn.split("::")[-1] == opt, "pass:" + str(opt),
                  "pass `%s` runs under option `%s`" % (fn, opt), b.loc(lit))
    # driver: run guarded by should_run of the same pass
    drv = [x for x in prog.bodies.values() if x.path.endswith("postprocessing::postprocessing")]
    rep.need(drv, "fn postprocessing")
    d = drv[0]
    runs = [c for c in d.calls() if c["k"] == "Call" and "f" in c and strip(c["f"])["k"] == "Field" and strip(c["f"])["f"] == "run"]
    rep.check(len(runs) == 1, "driver-run-site", "one `(pass.run)(file)` site (found %d)" % len(runs), d.loc(d.root))
    for c in runs:
        who = d.canon(strip(c["f"])["base"])
        ok = False
        for pol, kind, g in d.guards(c):
            if kind == "cond" and pol:
                e = strip(g)
                if e["k"] == "Call" and "f" in e and strip(e["f"])["k"] == "Field" and strip(e["f"])["f"] == "should_run" \
                        and d.canon(strip(e["f"])["base"]) == who:
                    ok = True
        rep.check(ok, "driver-run-guard", "`run` of a pass is guarded by `should_run` of the same pass", d.loc(c))
    # the result of the passes is what is returned
    tail = strip(d.root.get("tail") or {})
    passed = {strip(c["args"][0]).get("id") for c in runs if c["args"] and strip(c["args"][0]).get("k") == "Local"}
    trecv = strip(tail["recv"]) if tail.get("k") == "MCall" and tail.get("name") in ("into_token_stream", "to_token_stream") else {}
    rep.check(trecv.get("k") == "Local" and trecv.get("id") in passed,
              "driver-returns-file", "the file the passes worked on is what is returned", d.loc(d.root))
    # what the passes see is the parse of the whole module text: one syn::Item per Rust item.  (codegen's Vec<TokenStream> holds
    # several items per entry -- a struct with its impls, a constified enum with its alias -- so parsing entry by entry, or
    # carrying an unparsable entry as Item::Verbatim, would move such a group as one item of the wrong kind)
    for c in runs:
        arg = strip(c["args"][0]) if c["args"] else {}
        init = None
        if arg.get("k") == "Local":
            dd = d.local_def.get(arg["id"])
            if dd and dd[0][0] == "let":
                init = dd[0][1].get("init")
        e = init
        while e is not None and e.get("k") in ("MCall", "Try") and (e["k"] == "Try" or e.get("name") in ("unwrap", "expect", "unwrap_or_else", "unwrap_or_default")):
            e = strip(e["e"] if e["k"] == "Try" else e["recv"])
        whole = e is not None and e.get("k") == "Call" and (e.get("callee") or e.get("resolved") or "").startswith("syn::parse2") and \
            "syn::File" in (d.ty(e) or "")
        rep.check(whole, "driver-parses-whole-file", "the passes run on `syn::parse2::<syn::File>(<all tokens>)`" if whole else
                  "the file the passes run on is `%s`, not the parse of the whole token stream" % (d.canon(init, 3)[:120] if init else "?"),
                  d.loc(init) if init else d.loc(c))
    verb = []
    for x in prog.bodies.values():
        if "postprocessing" in x.path:
            verb += [(x, n) for n in x.nodes if (n["k"] == "Path" and n.get("def") == "syn::Item::Verbatim") or
                     (n["k"] == "Call" and (n.get("ctor") or n.get("callee") or "") == "syn::Item::Verbatim")]
    rep.check(not verb, "no-verbatim-items", "no pass or driver creates `syn::Item::Verbatim` (an opaque group of items that sorts as one)",
              verb[0][0].loc(verb[0][1]) if verb else d.loc(d.root))
    # the two switches select passes and nothing else: code generation proper must not look at them, otherwise turning a pass on
    # changes WHAT is emitted (attributes, blocks), not only how it is grouped
    readers = []
    for p, x in sorted(prog.bodies.items()):
        if "postprocessing" in p or p.startswith(("options::", "<options::", "Builder::")) or "options::" in p.split(" as ")[0]:
            continue
        for n in x.nodes:
            if n["k"] == "Field" and str(n.get("adt", "")).endswith("BindgenOptions") and n["f"] in ("merge_extern_blocks", "sort_semantically"):
                readers.append((x, n))
    rep.check(not readers, "pass-switches-read-only-by-the-pass-driver",
              "`merge_extern_blocks` / `sort_semantically` are read by the pass table only" if not readers else
              "`options.%s` is read in %s: enabling the pass changes what code generation emits" % (readers[0][1]["f"], readers[0][0].path[-60:]),
              readers[0][0].loc(readers[0][1]) if readers else d.loc(d.root))
    # visitors
    for mod in ("merge_extern_blocks", "sort_semantically"):
        for meth, rec in (("visit_file_mut", "syn::visit_mut::visit_file_mut"), ("visit_item_mod_mut", "syn::visit_mut::visit_item_mod_mut")):
            vb = [x for x in prog.bodies.values() if mod in x.path and x.path.endswith("::" + meth) and x.fact.get("impl_trait") == "syn::visit_mut::VisitMut"]
            if not vb:
                rep.bad("visitor:%s:%s" % (mod, meth), "VisitMut::%s is not overridden in %s: nested modules / the file are not processed" % (meth, mod))
                continue
            v = vb[0]
            callees = [c.get("callee", "") for c in v.calls()]
            local = [c for c in callees if c.endswith("%s::visit_items" % mod)]
            rep.check(bool(local) and rec in callees, "visitor:%s:%s" % (mod, meth),
                      "processes its own items and recurses (%s)" % ", ".join(callees), v.loc(v.root))
            # the recursion is what reaches the modules below this one: it happens on every path, whatever this level contains
            for c in [c for c in v.calls() if c.get("callee", "") == rec]:
                gs = [(pol, kind) for pol, kind, g in v.guards(c, nested=True)]
                rep.check(not gs, "visitor-recursion-unconditional:%s:%s" % (mod, meth),
                          "the walk continues below this level on every path" if not gs else
                          "the recursion into nested modules is skipped on some path (%s): a module below one with nothing to do at its own "
                          "level is never processed" % ", ".join("%s%s" % ("" if pol else "not ", kind) for pol, kind in gs), v.loc(c))


REORDERING = {"insert", "splice", "rotate_left", "rotate_right", "reverse", "swap", "swap_remove", "retain", "retain_mut", "drain", "remove",
              "truncate", "clear", "dedup", "dedup_by", "dedup_by_key", "pop", "split_off", "sort", "sort_by", "sort_by_key", "sort_unstable",
              "sort_unstable_by", "sort_unstable_by_key", "sort_by_cached_key", "select_nth_unstable", "shuffle", "fill", "fill_with"}


@RULES.rule("R18.5", "the passes only append (merge) or stably sort (sort): nothing is inserted in front, removed or reordered otherwise", floor=3)
def r18_5(rep):
    """Relative order of the foreign items inside a merged block and of same-kind items must be preserved, and no item
    may be dropped.  Breaks: `extern_block.items.splice(0..0, extern_block_items)` reverses the order of merged
    functions; `items.dedup()` after sorting drops a duplicated `use`."""
    prog = rep.prog
    n = 0
    for b in prog.bodies.values():
        if "codegen::postprocessing::" not in b.path:
            continue
        is_sort = "sort_semantically" in b.path
        for c in b.calls(lambda x: x["k"] == "MCall" and x["name"] in REORDERING):
            rt = prog.types[c["rt"]]
            if "syn::" not in rt and "ItemForeignMod" not in rt and "Item" not in rt:
                continue
            n += 1
            allowed = is_sort and c["name"] in ("sort", "sort_by", "sort_by_key", "sort_by_cached_key")
            rep.check(allowed, "mutator:%s@%s" % (c["name"], b.path.split("::")[-2]),
                      "`%s` on %s: the pass may only %s" % (c["name"], rt, "stably sort" if is_sort else "append"), b.loc(c))
        if b.path.endswith("merge_extern_blocks::visit_items"):
            ext = [c for c in b.calls(lambda x: x["k"] == "MCall" and x["name"] in ("extend_from_slice", "extend", "append"))]
            rep.check(bool(ext), "merge:appends", "merged foreign items are appended behind the block's own items", b.loc(b.root))
    rep.check(n >= 1, "mutators-seen", "%d reordering-capable calls inspected" % n)
