"""C03 — bit-field getters, setters and constructors agree bit-for-bit with C.

`codegen/bitfield_unit.rs` is pasted into the bindings as text and compiled by bindgen itself only under
cfg(test); it is analysed here as a stand-alone crate through the same rustc driver (type-checked HIR).
"""
import re

from engine import RuleSet, Missing
from hir import Program, strip, kids
import facts as facts_mod
import intervals
import qq

RULES = RuleSet("C03", "§3 C03",
                assumptions=["the accessors' own debug_assert! preconditions hold at entry (bit_width <= 64, the field lies inside the storage)",
                             "usize is 32 or 64 bits wide (both are analysed)"],
                not_decided=["allocation of bit-fields to units against clang's record layout (ir/comp.rs arithmetic on run-time offsets)",
                             "index bounds of the storage accesses (needs a division identity, left to Rust's own bounds checks)",
                             "that the accessors compute the C value (the rules decide absence of shift overflow and agreement of the eight siblings)"])

BFU = "bindgen/codegen/bitfield_unit.rs"
ACCESSORS = ["get", "raw_get", "set", "raw_set", "get_const", "raw_get_const", "set_const", "raw_set_const"]
BIT_HELPERS = ["extract_bit", "change_bit", "get_bit", "raw_get_bit", "set_bit", "raw_set_bit"]


def bfu_prog(rep):
    if not hasattr(rep.run, "_bfu"):
        f, info = facts_mod.load_file(BFU, "bitfield_unit")
        rep.run._bfu = Program(f)
        rep.run.infos["file:" + BFU] = info
    return rep.run._bfu


def fn_named(prog, name):
    c = [b for p, b in prog.bodies.items() if p.endswith("::" + name) and "BindgenBitfieldUnit" in p]
    return c[0] if c else None


@RULES.rule("R3.1", "no shift by >= the operand width and no unsigned underflow in the bit-field unit accessors", floor=150, configs=("none",))
def r3_1(rep):
    prog = bfu_prog(rep)
    for name in ACCESSORS + BIT_HELPERS:
        b = fn_named(prog, name)
        if b is None:
            raise Missing("R3.1: accessor `%s` not found in %s" % (name, BFU))
        bad = {}
        checked = 0
        for bits in (64, 32):
            it = intervals.Interp(b, bits)
            for f in it.run():
                key = re.sub(r"#\d+", "", f.key)
                bad.setdefault(key, (f, bits))
            checked += it.checked
        for key, (f, bits) in sorted(bad.items()):
            rep.bad(key, f.detail, "%s:%s" % (BFU, b.loc(f.node).split(":")[-1]))
        for i in range(max(0, checked - len(bad))):
            rep.ok("%s:arith-site-%d" % (name, i))


# ---- sibling normalisation ------------------------------------------------------------------------
class Norm:
    """Canonical text of an accessor body modulo the storage-access form, loop form, const-vs-runtime
    parameters and the usize/u64 word type."""

    def __init__(self, body):
        self.b = body
        self.mut = set(body.local_mut)
        self.loopvars = set()
        for x in body.walk():
            if x["k"] == "For" and x["pat"].get("k") == "Bind":
                self.loopvars.add(x["pat"]["id"])
            if x["k"] == "AssignOp" and x["op"] == "+=" and x["l"].get("k") == "Local" and strip(x["r"]).get("v") == 1:
                self.loopvars.add(x["l"]["id"])

    def e(self, n, d=40):
        b = self.b
        while n.get("k") == "Block" and not n["stmts"] and n.get("tail") is not None:
            n = n["tail"]
        k = n["k"]
        if d <= 0:
            return "…"
        if k == "Cast":
            t = b.ty(n)
            inner = self.e(n["e"], d - 1)
            if t == "u8":
                return "u8(%s)" % inner
            if t and t.startswith("*"):
                return inner
            return inner
        if k == "Lit":
            v = n.get("v")
            if v == 64 and n.get("lk") == "int":
                return "BITS"
            return repr(v) if not (n.get("lk") == "bool" and b.macro_name(n) == "cfg") else "BE"
        if k == "Path":
            d_ = n["def"]
            if n.get("dk") == "ConstParam":
                nm = d_.split("::")[-1]
                return {"BIT_OFFSET": "bit_offset", "BIT_WIDTH": "bit_width", "N": "LEN"}.get(nm, nm)
            if re.search(r"<impl usize>::BITS$", d_):
                return "BITS"
            return d_.split("::")[-1]
        if k == "Local":
            if n["id"] in self.loopvars:
                return "$i"
            if n["id"] not in self.mut:
                d_ = b.local_def.get(n["id"])
                if d_ and d_[0][0] == "let" and not d_[1] and d_[0][1].get("init") is not None:
                    return self.e(d_[0][1]["init"], d - 1)
            return n["name"]
        if k == "Binary":
            return "(%s %s %s)" % (self.e(n["l"], d - 1), n["op"], self.e(n["r"], d - 1))
        if k == "Unary":
            if n["op"] == "*":
                inner = self.e(n["e"], d - 1)
                return inner if inner.startswith("BYTE[") else "*" + inner
            return "(%s%s)" % (n["op"], self.e(n["e"], d - 1))
        if k == "AddrOf":
            return self.e(n["e"], d - 1)
        if k == "Index":
            base = self.e(n["base"], d - 1)
            if "storage" in base or base == "STORAGE":
                return "BYTE[%s]" % self.e(n["idx"], d - 1)
            return "%s[%s]" % (base, self.e(n["idx"], d - 1))
        if k == "Field":
            if n["f"] == "storage":
                return "STORAGE"
            return "%s.%s" % (self.e(n["base"], d - 1), n["f"])
        if k == "MCall":
            name = n["name"]
            recv = self.e(n["recv"], d - 1)
            if name in ("as_ref", "as_mut") and recv == "STORAGE":
                return "STORAGE"
            if name == "len" and recv == "STORAGE":
                return "LEN"
            if name in ("add", "offset") and (recv == "STORAGE" or recv.startswith("STORAGE")):
                return "BYTE[%s]" % self.e(n["args"][0], d - 1)
            if name == "cast":
                return "STORAGE" if recv in ("this", "STORAGE") else recv
            return "%s.%s(%s)" % (recv, name, ",".join(self.e(a, d - 1) for a in n["args"]))
        if k == "Call":
            c = (n.get("callee") or "").split("::")[-1]
            if c == "size_of":
                return "LEN"
            if c == "panic" or "panic" in (n.get("callee") or ""):
                return "panic"
            return "%s(%s)" % (c, ",".join(self.e(a, d - 1) for a in n["args"]))
        if k == "If":
            return "if %s {%s} else {%s}" % (self.e(n["cond"], d - 1), self.blk(n["then"], d - 1), self.blk(n["else"], d - 1) if "else" in n else "")
        if k == "Block":
            return "{%s}" % self.blk(n, d - 1)
        if k == "Ret":
            return "return %s" % (self.e(n["e"], d - 1) if "e" in n else "")
        if k == "Assign":
            return "%s = %s" % (self.e(n["l"], d - 1), self.e(n["r"], d - 1))
        if k == "AssignOp":
            return "%s %s %s" % (self.e(n["l"], d - 1), n["op"], self.e(n["r"], d - 1))
        if k == "Struct":
            return "%s{%s}" % ((n.get("adt") or "").split("::")[-1], ",".join("%s:%s" % (f["f"], self.e(f["e"], d - 1)) for f in n["fs"]))
        return k

    def stmts(self, blk, d=40):
        """list of normalised statements of a block (unsafe blocks flattened, pure lets dropped, loops unified)"""
        b = self.b
        out = []
        if blk["k"] != "Block":
            return [self.e(blk, d)]
        items = list(blk["stmts"])
        if blk.get("tail") is not None:
            items.append({"k": "Tail", "e": blk["tail"]})
        i = 0
        while i < len(items):
            s = items[i]
            i += 1
            if s["k"] == "Let":
                p = s["pat"]
                if p.get("k") == "Bind" and p["id"] in self.mut:
                    # `let mut i = 0; while i < n { ..; i += 1 }`  ==>  loop(i, 0, n)
                    nxt = items[i] if i < len(items) else None
                    w = nxt.get("e") if nxt is not None else None
                    if w is not None and w.get("k") == "While":
                        lp = self.while_as_for(p, s.get("init"), w, d)
                        if lp:
                            out.append(lp)
                            i += 1
                            continue
                    out.append("%s := %s" % (p["name"], self.e(s["init"], d - 1) if "init" in s else "?"))
                continue
            e = s.get("e")
            while e.get("k") == "Block" and e.get("unsafe") and not (e["stmts"] and e.get("tail") is None and False):
                break
            if e.get("k") == "Block" and (e.get("unsafe") or True) and s["k"] != "Tail":
                out += self.stmts(e, d - 1)
                continue
            if e.get("k") == "Block" and s["k"] == "Tail":
                out += self.stmts(e, d - 1)
                continue
            if e.get("k") == "If":
                c = e["cond"]
                cs = strip(c)
                # debug_assert!
                if cs.get("k") == "Lit" and cs.get("v") is True and b.macro_name(cs) != "cfg":
                    inner = [x for x in b.walk(e["then"]) if x["k"] == "If"]
                    if inner:
                        out.append("assert(!%s)" % self.e(inner[0]["cond"], d - 1))
                        continue
                out.append("if %s {%s} else {%s}" % (self.e(c, d - 1), "; ".join(self.stmts(e["then"], d - 1)),
                                                     "; ".join(self.stmts(e["else"], d - 1)) if "else" in e else ""))
                continue
            if e.get("k") == "For":
                it = strip(e["iter"])
                if it.get("k") == "Struct":
                    fs = {f["f"]: f["e"] for f in it["fs"]}
                    out.append("loop(%s, %s, %s) {%s}" % ("$i", self.e(fs["start"], d - 1), self.e(fs["end"], d - 1),
                                                        "; ".join(self.stmts(e["body"], d - 1))))
                    continue
            out.append(self.e(e, d - 1))
        return out

    def blk(self, blk, d):
        return "; ".join(self.stmts(blk, d))

    def while_as_for(self, pat, init, w, d):
        c = strip(w["cond"])
        body = w["body"]
        if c.get("k") != "Binary" or c["op"] != "<" or strip(c["l"]).get("id") != pat["id"]:
            return None
        last = body["stmts"][-1].get("e") if body["stmts"] and body.get("tail") is None else None
        if not (last and last.get("k") == "AssignOp" and last["op"] == "+=" and strip(last["l"]).get("id") == pat["id"] and strip(last["r"]).get("v") == 1):
            return None
        inner = dict(body, stmts=body["stmts"][:-1])
        return "loop(%s, %s, %s) {%s}" % ("$i", self.e(init, d - 1), self.e(c["r"], d - 1), "; ".join(self.stmts(inner, d - 1)))


def word_split(b, norm):
    """For const accessors: (common prefix statements, usize-branch statements, u64-branch statements)."""
    root = b.root
    pre = dict(root, tail=None)
    t = root.get("tail")
    iff = None
    if t is not None and strip(t).get("k") == "If":
        iff = strip(t)
    else:
        for s in root["stmts"]:
            if s.get("e", {}).get("k") == "If" and "else" in s["e"] and "BITS" in norm.e(s["e"]["cond"]):
                iff = s["e"]
        pre = dict(root, stmts=[s for s in root["stmts"] if s.get("e") is not iff], tail=None)
    if iff is None or "else" not in iff:
        return None
    return norm.stmts(pre), norm.e(iff["cond"]), norm.stmts(iff["then"]), norm.stmts(iff["else"])


def first_diff(a, b):
    for i, (x, y) in enumerate(zip(a, b)):
        if x != y:
            return "statement %d differs:\n          A: %s\n          B: %s" % (i, x[:300], y[:300])
    if len(a) != len(b):
        return "different number of statements (%d vs %d); extra: %s" % (len(a), len(b), (a[len(b):] or b[len(a):])[0][:200])
    return None


@RULES.rule("R3.2", "the eight unit accessors are the same computation (raw/safe, const/runtime, usize/u64 forms)", floor=10, configs=("none",))
def r3_2(rep):
    prog = bfu_prog(rep)
    bodies = {}
    for name in ACCESSORS:
        b = fn_named(prog, name)
        if b is None:
            raise Missing("R3.2: accessor `%s` not found" % name)
        bodies[name] = (b, Norm(b))

    def whole(name):
        b, nm = bodies[name]
        return nm.stmts(b.root)

    for a, c in (("get", "raw_get"), ("set", "raw_set"), ("get_const", "raw_get_const"), ("set_const", "raw_set_const")):
        d = first_diff(whole(a), whole(c))
        rep.check(d is None, "sibling:%s~%s" % (a, c), "`%s` and `%s` must differ only in how the storage bytes are reached; %s" % (a, c, d),
                  "%s:%d" % (BFU, bodies[a][0].line))
    for cname, rname in (("get_const", "get"), ("set_const", "set")):
        b, nm = bodies[cname]
        ws = word_split(b, nm)
        if not rep.check(ws is not None, "word-split:" + cname, "`%s` selects a usize or u64 implementation by `BIT_WIDTH + bit_shift <= usize::BITS`" % cname,
                         "%s:%d" % (BFU, b.line)):
            continue
        pre, cond, small, big = ws
        rep.check(re.fullmatch(r"\(\(bit_width \+ \(bit_offset % 8\)\) <= BITS\)", cond) is not None, "word-cond:" + cname,
                  "the usize path is taken iff the field plus its bit shift fits the word (found `%s`)" % cond, "%s:%d" % (BFU, b.line))
        d = first_diff(small, big)
        rep.check(d is None, "sibling:%s.usize~%s.u64" % (cname, cname), "the usize and u64 paths of `%s` must be the same computation; %s" % (cname, d),
                  "%s:%d" % (BFU, b.line))
        rt = whole(rname)
        d = first_diff(pre + big, rt)
        rep.check(d is None, "sibling:%s.u64~%s" % (cname, rname), "the u64 path of `%s` and the runtime `%s` must be the same computation; %s" % (cname, rname, d),
                  "%s:%d" % (BFU, b.line))
    # single-bit helpers
    for a, c in (("get_bit", "raw_get_bit"), ("set_bit", "raw_set_bit")):
        ba, bc = fn_named(prog, a), fn_named(prog, c)
        if ba is None or bc is None:
            raise Missing("R3.2: helper `%s`/`%s` not found" % (a, c))
        d = first_diff(Norm(ba).stmts(ba.root), Norm(bc).stmts(bc.root))
        rep.check(d is None, "sibling:%s~%s" % (a, c), "`%s` and `%s` must differ only in how the storage bytes are reached; %s" % (a, c, d),
                  "%s:%d" % (BFU, ba.line))


# ---- emission -----------------------------------------------------------------------------------
CALLS = {"get": 2, "set": 2, "raw_get": 2, "raw_set": 2, "get_const": 2, "set_const": 2, "raw_get_const": 2, "raw_set_const": 2}


@RULES.rule("R3.3", "every generated accessor addresses the same (offset, width) of its own bit-field", floor=20)
def r3_3(rep):
    prog = rep.prog
    bodies = [b for b in prog.bodies.values() if b.fact.get("impl_self") == "ir::comp::Bitfield" and
              (b.path.endswith("::extend_ctor_impl") or (b.fact.get("impl_trait") or "").startswith("codegen::FieldCodegen"))]
    rep.need(len(bodies) >= 2, "Bitfield::codegen and Bitfield::extend_ctor_impl")
    seen = set()
    for b in bodies:
        fn = b.path.split("::")[-1]
        for q in qq.quote_sites(b):
            t = q.tokens
            for i, tok in enumerate(t):
                if tok in CALLS and i + 1 < len(t) and t[i + 1] in ("(", "::"):
                    # the two interpolations that follow, skipping the receiver expression of raw_* calls
                    ips = [x for x in t[i + 1:i + 60] if x.startswith("#")]
                    closing = t[i + 1:i + 60]
                    ip = q.interps()
                    # the interpolated locals are recognised by what they hold, not by what they are called
                    src_of = {nm: b.canon(e, 10) for nm, e in ip.items()}
                    OFF = next((nm for nm, sc in src_of.items() if "offset_into_unit" in sc), "offset")
                    WID = next((nm for nm, sc in src_of.items() if nm != OFF and re.search(r"Bitfield::width\(|\.width", sc)), "width")
                    INT = next((nm for nm, sc in src_of.items() if "codegen::helpers::integer_type(" in sc), "bitfield_int_ty")
                    args = [x for x in closing if x in ("#" + OFF, "#" + WID)][:2]
                    key = "%s@%s" % (tok, fn) + ("#%d" % sum(1 for s in seen if s.startswith("%s@%s" % (tok, fn))) if ("%s@%s" % (tok, fn)) in seen else "")
                    seen.add(key)
                    rep.check(args == ["#" + OFF, "#" + WID], "args:" + key, "`%s` is called with (#offset, #width) in this order (found %s)" % (tok, args), q.loc())
                    off = b.canon(ip[OFF], 6) if OFF in ip else "?"
                    wid = b.canon(ip[WID], 6) if WID in ip else "?"
                    rep.check(off == "param:self.ir::comp::Bitfield::offset_into_unit", "offset-source:" + key,
                              "#offset is this bit-field's offset_into_unit() (found %s)" % off, q.loc())
                    rep.check(re.fullmatch(r"ir::comp::Bitfield::width\(param:self\)|param:self\..*width.*", wid) is not None, "width-source:" + key,
                              "#width is this bit-field's width() (found %s)" % wid, q.loc())
                    if tok.startswith(("set", "raw_set")):
                        rep.check(q.has("val", "as", "u64") or any(q.has("#" + nm, "as", "u64") for nm in ip), "value-widened:" + key,
                                  "the stored value is widened to u64 from the field's integer type", q.loc())
                        rep.check(q.has(":", "#" + INT, "=") , "value-through-int-type:" + key,
                                  "the value is first converted to the bit-field's integer type (sign/zero extension of the declared type)", q.loc())
                    else:
                        rep.check(q.has("as", "#" + INT), "value-narrowed:" + key,
                                  "the unit's u64 is narrowed to the bit-field's integer type before the final conversion", q.loc())
    for name in ("get", "set", "raw_get", "raw_set", "get_const", "set_const", "raw_get_const", "raw_set_const"):
        rep.check(any(s.startswith(name + "@") for s in seen), "emitted:" + name, "an accessor calling `%s` is generated" % name)
    # the integer type is the integer of the bit-field type's own layout
    for b in bodies:
        fn = b.path.split("::")[-1]
        for n in b.walk():
            if n["k"] == "Let" and n.get("init") is not None and "codegen::helpers::integer_type(" in b.canon(n["init"], 10):
                src = b.canon(n["init"], 10)
                rep.check("codegen::helpers::integer_type(" in src and "Bitfield" in src and "::layout(" in src, "int-type-source@" + fn,
                          "bitfield_int_ty is integer_type(layout of the bit-field's own type) (found %s)" % src[:160], b.loc(n))


def realign_sites(al):
    """assignments `x = align_to(x, align_of(type) * 8)` in the allocation function (found by shape, not by name)"""
    out = []
    for n in al.walk():
        if n["k"] in ("Assign", "Let"):
            r = strip(n.get("r") or n.get("init") or {})
            if r.get("k") == "Call" and (r.get("callee") or "").endswith("align_to") and len(r["args"]) == 2 and \
                    "Layout::align" in al.canon(r["args"][1], 8) and "lit:8" in al.canon(r["args"][1], 8):
                out.append(n)
    return out


@RULES.rule("R3.4", "bit-field units are allocated with the same notion of `packed` that lays out the struct", floor=5)
def r3_4(rep):
    """`#pragma pack(2)` makes `is_packed` true although there is no packed attribute and align != 1; if unit allocation
    used a weaker test, bindgen's overflow realignment would override clang's offsets for such structs."""
    prog = rep.prog
    cu = rep.need(prog.fn("ir::comp::CompInfo::compute_bitfield_units"), "CompInfo::compute_bitfield_units")
    calls = [c for c in cu.calls(lambda n: n["k"] == "MCall" and (n.get("callee") or "").endswith("CompFields::compute_bitfield_units"))]
    rep.need(calls, "call of CompFields::compute_bitfield_units")
    src = cu.canon(calls[0]["args"][1], 6)
    rep.check(src.startswith("ir::comp::CompInfo::is_packed(param:self"), "alloc-packed-is-is_packed",
              "unit allocation receives `self.is_packed(ctx, layout)` (found %s)" % src[:100], cu.loc(calls[0]))
    # the flag is threaded through unchanged
    chain = ["ir::comp::CompFields::compute_bitfield_units", "ir::comp::raw_fields_to_fields_and_bitfield_units", "ir::comp::bitfields_to_allocation_units"]
    for caller, callee in zip(chain, chain[1:]):
        b = rep.need(prog.fn(caller), caller)
        cs = [c for c in b.calls(lambda n: (n.get("callee") or "").startswith(callee))]
        if not rep.check(bool(cs), "packed-threaded:%s" % callee.split("::")[-1], "`%s` calls `%s`" % (caller.split("::")[-1], callee.split("::")[-1]), b.loc(b.root)):
            continue
        for c in cs:
            args = [b.canon(a, 3) for a in c["args"]]
            rep.check("param:packed" in args, "packed-threaded:%s" % callee.split("::")[-1],
                      "`packed` is handed on unchanged (args %s)" % args, b.loc(c))
    al = rep.need(prog.fn("ir::comp::bitfields_to_allocation_units"), "bitfields_to_allocation_units")
    realign = realign_sites(al)
    rep.check(bool(realign) and all(qq.has_atom(qq.guard_atoms(al, n), "param:packed", False) for n in realign), "realign-only-unpacked",
              "clang's offset is overridden by the overflow realignment only for non-packed structs", al.loc(al.root))
    # the struct layout side uses the same predicate
    cg = rep.need(prog.impl_fn("codegen::CodeGenerator", "ir::comp::CompInfo", "codegen"), "<CompInfo as CodeGenerator>::codegen")
    lets = [n for n in cg.walk() if n["k"] == "Let" and n.get("init") is not None and
            (strip(n["init"]).get("callee") or strip(n["init"]).get("resolved") or "").endswith("CompInfo::is_packed")]
    rep.check(bool(lets) and cg.canon(lets[0]["init"], 5).startswith("ir::comp::CompInfo::is_packed(param:self"), "layout-packed-is-is_packed",
              "the struct layout side derives `packed` from the same `is_packed`", cg.loc(cg.root))


@RULES.rule("R3.5", "a bit-field moves to the next aligned boundary iff it would straddle its storage unit (System V / Itanium rule)", floor=5)
def r3_5(rep):
    """Oracle (psABI): a bit-field must live entirely in a storage unit of its declared type, so when clang's offset is
    not used the field is realigned exactly when `(offset mod align_bits) + width > size_bits` (or the width is 0).
    The comparison is read in linear normal form, so `width > size*8 - (offset & mask)` is the same rule, while `>=`
    (a field that exactly fills the unit is pushed out) or a missing zero-width case are not."""
    from c02 import lin
    prog = rep.prog
    al = rep.need(prog.fn("ir::comp::bitfields_to_allocation_units"), "bitfields_to_allocation_units")
    realign = realign_sites(al)
    rep.need(realign, "the realignment `x = align_to(x, align * 8)`")
    for n in realign:
        r = strip(n.get("r") or n.get("init"))
        target = strip(n["l"]) if n["k"] == "Assign" else {"name": n["pat"].get("name")}
        offname = strip(r["args"][0]).get("name")
        ok = offname is not None and offname == target.get("name")
        rep.check(ok, "realign-to-type-alignment", "the field is moved to align_to(offset, align_of(type) * 8) (found %s)" % al.canon(r, 5)[:120], al.loc(n))
        # the condition: a disjunction containing `width == 0` and the straddle test
        conds = [g for p, k, g in al.guards(n) if k == "cond" and p]
        cmps, zero = [], False
        for g in conds:
            for x in al.walk(g):
                if x["k"] == "Binary" and x["op"] in (">", ">=", "<", "<="):
                    cmps.append(x)
                if x["k"] == "Binary" and x["op"] == "==" and "bitfield_width" in al.canon(x, 6) and "lit:0" in al.canon(x, 6):
                    zero = True
            for x in al.walk(g):
                if x["k"] == "Local" and al.local_init(x["id"]) is not None:
                    for y in al.walk(al.local_init(x["id"])):
                        if y["k"] == "Binary" and y["op"] in (">", ">=", "<", "<="):
                            cmps.append(y)
                        if y["k"] == "Binary" and y["op"] == "==" and "bitfield_width" in al.canon(y, 6) and "lit:0" in al.canon(y, 6):
                            zero = True
        rep.check(zero, "zero-width-realigns", "a zero-width bit-field always moves to the next boundary", al.loc(n))
        if not rep.check(len(cmps) == 1, "straddle-test-present", "one ordering comparison decides the overflow (found %d)" % len(cmps), al.loc(n)):
            continue
        c = cmps[0]
        l, rr = dict(lin(al, c["l"])), dict(lin(al, c["r"]))
        if c["op"] in ("<", "<="):
            l, rr = rr, l
        strict = c["op"] in (">", "<")
        form = dict(l)
        for k, v in rr.items():
            form[k] = form.get(k, 0) - v
        form = {k: v for k, v in form.items() if v != 0}
        pos = sorted(k for k, v in form.items() if v == 1)
        neg = sorted(k for k, v in form.items() if v == -1)
        shape = len(form) == 3 and len(pos) == 2 and len(neg) == 1
        m = [k for k in pos if "&" in k and ("local:%s" % offname) in k and "align" in k]
        w = [k for k in pos if "bitfield_width" in k and "&" not in k]
        s = [k for k in neg if "size" in k and "8" in k and "*" in k]
        rep.check(shape and len(m) == 1 and len(w) == 1 and len(s) == 1, "straddle-test-terms",
                  "the test is (offset & (align*8 - 1)) + width  vs  size*8 (normal form: +%s  -%s)" % (pos, neg), al.loc(c))
        rep.check(strict, "straddle-test-strict", "a field that exactly fills the rest of its storage unit stays where it is (`>`; found `%s`)" %
                  ({">": ">", "<": "<(swapped)", ">=": ">=", "<=": "<=(swapped)"}[c["op"]]), al.loc(c))
        if m:
            rep.check(re.search(r"-1\*1", m[0]) is not None and "8" in m[0], "straddle-mask", "the mask is align*8 - 1 (found %s)" % m[0][:100], al.loc(c))


@RULES.rule("R3.6", "getters of signed bit-fields sign-extend: accessor generation consults the signedness of the declared type", floor=1)
def r3_6(rep):
    """C reads `int a:3` holding 0b111 as -1.  The unit accessors return the raw bits zero-extended in a u64, so the generated
    getter can only be right for signed fields if accessor generation looks at the signedness of the field's type (a signed
    intermediate integer type, or an explicit shift pair).  Today it never does: `s.set_a(-1); s.a()` yields 7."""
    prog = rep.prog
    bodies = [b for b in prog.bodies.values() if b.fact.get("impl_self") == "ir::comp::Bitfield" and
              (b.fact.get("impl_trait") or "").startswith("codegen::FieldCodegen")]
    rep.need(bodies, "<Bitfield as FieldCodegen>::codegen")
    b = bodies[0]
    reach = prog.reachable([b.path], stop=lambda p: not (p.startswith("codegen::helpers") or p.startswith("ir::layout") or p == b.path))
    consults = []
    for p in reach:
        bb = prog.bodies.get(p)
        if bb is None:
            continue
        for c in bb.calls():
            callee = (c.get("resolved") or c.get("callee") or "")
            if callee.endswith("IntKind::is_signed") or callee.endswith("Type::is_signed") or "signed" in callee.split("::")[-1]:
                consults.append((bb, c))
        for q in qq.quote_sites(bb) if bb is b else []:
            t = q.tokens
            if any(x in ("i8", "i16", "i32", "i64") for x in t) or (("<<" in t) and (">>" in t)):
                consults.append((bb, q.root))
    rep.check(bool(consults), "getter-sign-extension:signedness-never-consulted@Bitfield::codegen",
              "nothing in the generation of bit-field accessors depends on whether the declared type is signed: the getter zero-extends "
              "every field (`int a:3` holding 0b111 reads back as 7; C reads -1)", b.loc(b.root))


@RULES.rule("R3.7", "every bit-field of a run — zero-width separators included — reaches unit allocation", floor=6)
def r3_7(rep):
    """A `: 0` bit-field ends the current storage unit.  Where clang gives no offsets (class templates) or no padding is added
    (packed structs) dropping the separator before allocation packs the next field right behind the previous one."""
    prog = rep.prog
    b = rep.need(prog.fn("ir::comp::raw_fields_to_fields_and_bitfield_units"), "raw_fields_to_fields_and_bitfield_units")
    LOSSY = {"filter", "filter_map", "skip", "skip_while", "take", "take_while", "step_by", "retain", "dedup", "nth", "last"}
    n = 0
    for c in b.calls(lambda x: x["k"] == "MCall"):
        rt = prog.types[c["rt"]]
        if c["name"] not in LOSSY and "RawField" not in rt and "Peekable" not in rt and "Fuse" not in rt and "IntoIter" not in rt:
            continue
        n += 1
        if c["name"] in LOSSY:
            rep.bad("raw-field-stream:%s" % c["name"], "`%s` on the stream of raw fields can drop fields before units are allocated" % c["name"], b.loc(c))
        elif c["name"] == "peeking_take_while":
            clo = strip(c["args"][0]) if c["args"] else {}
            body = strip(clo.get("body", {}))
            ok = body.get("k") == "MCall" and body["name"] in ("is_none", "is_some") and strip(body["recv"]).get("name") == "bitfield_width"
            rep.check(ok, "partition-by-bitfield-ness:%s" % body.get("name"), "the stream is split into runs only by `bitfield_width().is_some()/is_none()` "
                      "(found %s)" % b.canon(body, 5)[:100], b.loc(c))
        else:
            rep.ok("raw-field-stream:%s" % c["name"])
    rep.check(n >= 4, "stream-ops-seen", "%d operations on the raw field stream" % n)
    al = rep.need(prog.fn("ir::comp::bitfields_to_allocation_units"), "bitfields_to_allocation_units")
    loops = [x for x in al.walk() if x["k"] == "For" and "param:raw_bitfields" in al.canon(x["iter"], 4)]
    if rep.check(len(loops) == 1, "alloc-loop", "one loop over the run's bit-fields", al.loc(al.root)):
        lp = loops[0]
        skips = [x for x in al.walk(lp["body"]) if x["k"] == "Continue"]
        pushes = [c for c in al.calls(lambda x: x["k"] == "MCall" and x["name"] == "push", lp["body"]) if "Bitfield::new" in al.canon(c["args"][0], 4)]
        rep.check(not skips and len(pushes) == 1 and not [g for g in al.guards(pushes[0]) if g not in al.guards(lp) and not (g[1] == "cond" and al.diverges(al.parent[g[2]["_i"]].get("then", {})) and False)],
                  "every-bitfield-allocated", "every bit-field of the run is placed in the unit (no skip, unconditional push)", al.loc(lp))
        rep.check(not re.search(r"::(filter|skip|take|step_by|skip_while|take_while)\(", al.canon(lp["iter"], 6)), "alloc-loop-complete", "the loop covers the whole run", al.loc(lp))


@RULES.rule("R3.8", "the struct layout tracker accounts every member and bit-field unit once (shared with C02 R2.4)", floor=30)
def r3_8(rep):
    """C03 lists codegen/struct_layout.rs: a plain member that follows a run of bit-fields must still be padded out to the offset clang
    reports; an independently seeded change that ignored it right after a unit was caught by C02's rule only."""
    import c02
    c02.r2_4(rep)


# ---------------------------------------------------------------------------------------------------------
# R3.9  where the unit is put / R3.10 where the width comes from  (added after round 3 of the seeded changes)
# ---------------------------------------------------------------------------------------------------------
@RULES.rule("R3.9", "a bit-field unit starts where libclang puts the first bit-field of its run", floor=1)
def r3_9(rep):
    """Every accessor addresses bits relative to the start of `_bitfield_N` with the first bit-field of the run at bit 0.  The C
    compiler does not always start a run in the byte after the previous member: `struct A { short s; char c; unsigned long long
    y:50; }` puts `y` at byte 8 (it does not fit in what is left of the first 8-byte unit), `struct B { char c; unsigned x:30; }`
    puts `x` at byte 4.  So the position of the unit has to be taken from libclang's offset of the FIRST bit-field of the run
    (named or not -- `offset_into_unit` counts from it); anchoring on a later one (the first named one) shifts every accessor when
    the run opens with reserved bits."""
    from hir import strip as _strip
    prog = rep.prog
    cg = rep.need(prog.impl_fn("codegen::FieldCodegen", "ir::comp::BitfieldUnit", "codegen") or
                  next((b for p, b in prog.bodies.items() if "BitfieldUnit" in p and "FieldCodegen" in p and p.endswith("::codegen")), None),
                  "<BitfieldUnit as FieldCodegen>::codegen")
    calls = [c for c in cg.calls(lambda n: n["k"] == "MCall" and (n.get("callee") or n.get("resolved") or "").endswith("StructLayoutTracker::<'a>::saw_bitfield_unit"))]
    rep.need(calls, "call of StructLayoutTracker::saw_bitfield_unit in BitfieldUnit::codegen")
    sb = rep.need(next((b for p, b in prog.bodies.items() if p.endswith("::saw_bitfield_unit") and "StructLayoutTracker" in p), None),
                  "StructLayoutTracker::saw_bitfield_unit")

    def offset_reads(b, within):
        return [x for x in b.walk(within) if x["k"] == "MCall" and x.get("name") == "offset" and
                "Bitfield" in (b.ty(x["recv"]) or "")]

    def through_locals(b, e, depth=6):
        out, todo, seen = [], [e], set()
        while todo and depth:
            depth -= 1
            e = todo.pop()
            out.append(e)
            for x in b.walk(e):
                if x["k"] == "Local" and x["id"] not in seen:
                    seen.add(x["id"])
                    if b.local_init(x["id"]) is not None:
                        todo.append(b.local_init(x["id"]))
        return out

    for c in calls:
        reads = []
        for a in c["args"]:
            for e in through_locals(cg, a):
                reads += offset_reads(cg, e)
        if not reads:
            rep.bad("unit-placement:not-anchored@saw_bitfield_unit",
                    "the unit is placed right after the previous member (aligned to the unit's alignment); libclang's offset of the run's first "
                    "bit-field is not consulted, so a run that the C compiler starts later is accessed at the wrong bytes", cg.loc(c))
            continue
        for r in reads:
            # the bit-field whose offset is read: must be element 0 of the unit's bitfields
            chain = []
            e = _strip(r["recv"])
            src = e
            for _ in range(10):
                if e.get("k") == "Local":
                    d = cg.local_def.get(e["id"])
                    if d and d[0][0] == "cparam":
                        # closure parameter: look at the adaptor the closure is handed to
                        clo = d[0][1]
                        par = cg.parent[clo["_i"]]
                        while par is not None and par["k"] not in ("MCall", "Call"):
                            par = cg.parent[par["_i"]]
                        if par is None:
                            break
                        chain.append(par.get("name") or "?")
                        e = _strip(par["recv"]) if par["k"] == "MCall" else {}
                        continue
                    init = cg.local_init(e["id"])
                    if init is None:
                        break
                    e = _strip(init)
                    continue
                if e.get("k") == "MCall":
                    chain.append(e["name"])
                    e = _strip(e["recv"])
                    continue
                if e.get("k") == "Index":
                    idx = _strip(e["idx"]) if "idx" in e else {}
                    chain.append("[0]" if idx.get("k") == "Lit" and idx.get("v") == 0 else "[?]")
                    e = _strip(e.get("base") or e.get("e") or {})
                    continue
                break
            first_only = {"first", "[0]", "next", "iter", "bitfields", "and_then", "map", "unwrap", "expect", "as_ref", "into_iter", "copied", "cloned"}
            ok = bool(chain) and "bitfields" in chain and all(m in first_only for m in chain) and any(m in ("first", "[0]", "next") for m in chain)
            rep.check(ok, "unit-placement:anchor-is-first-bitfield", "the anchoring offset is read from the unit's first bit-field (%s)" % "←".join(chain) if ok else
                      "the anchoring offset is read through `%s`: not (only) the first bit-field of the run, whose `offset_into_unit` is 0"
                      % "←".join(chain or ["?"]), cg.loc(r))


@RULES.rule("R3.10", "a bit-field's width is the one libclang reports for the declaration", floor=2)
def r3_10(rep):
    """`Cursor::bit_width` feeds `Bitfield::width`, which every accessor passes on.  It has to be
    `clang_getFieldDeclBitWidth(self.x)`: folding "the first expression child" instead takes the operand of `__typeof__(E)` /
    `decltype(E)` in the field's TYPE for the width (`__typeof__(sizeof(0)) off:3` gets width 4)."""
    prog = rep.prog
    b = rep.need(prog.fn("clang::Cursor::bit_width"), "clang::Cursor::bit_width")
    somes = [c for c in b.calls(lambda n: n["k"] == "Call" and (n.get("ctor") or n.get("callee") or "").endswith("::Some"))]
    rets = [n for n in b.nodes if n["k"] in ("Ret",)]
    src_ok = 0
    for c in somes:
        srcs = b.canon(c["args"][0], 8)
        ok = "clang_getFieldDeclBitWidth(param:self.clang::Cursor::x)" in srcs
        src_ok += ok
        rep.check(ok, "width:from-libclang", "`Some(%s)`" % srcs[:90] if ok else
                  "`Some(%s)`: the width does not come from clang_getFieldDeclBitWidth(self.x)" % srcs[:90], b.loc(c))
    other = [c for c in b.calls() if (c.get("name") in ("evaluate", "as_int", "parse") or "EvalResult" in str(c.get("callee") or ""))]
    tail = b.root.get("tail")
    tsrc = b.canon(tail, 8) if tail is not None else ""
    rep.check(bool(somes) and not other and ("clang_getFieldDeclBitWidth" in tsrc or src_ok == len(somes)), "width:no-reevaluation",
              "the width expression is only inspected for template dependence, never evaluated" if not other else
              "the width is recomputed (`%s`) instead of being read from the declaration" % (other[0].get("name") or other[0].get("callee")), b.loc(b.root))
    if not somes:
        rep.bad("width:from-libclang", "no result of Cursor::bit_width is `Some(clang_getFieldDeclBitWidth(self.x) ..)`: %s" % tsrc[:100], b.loc(b.root))


@RULES.rule("R3.11", "a type's layout is the one libclang recorded for that very type; anything derived is only a fall-back", floor=2)
def r3_11(rep):
    """`typedef unsigned short __attribute__((aligned(1))) u16_unaligned;` has its own alignment (1), recorded on the typedef.  The
    bit-field allocator asks `Type::layout` of the DECLARED type to decide whether a field straddles its storage unit; answering
    with the aliased type's layout first (align 2) makes it move a field that C leaves in place, while later fields keep libclang's
    offsets: `kind` becomes bits 8..20 instead of 0..12 and overlaps its neighbours, with every size assertion still passing."""
    prog = rep.prog
    b = rep.need(prog.fn("ir::ty::Type::layout"), "Type::layout")
    # every way out: the recorded layout first
    early = [n for n in b.nodes if n["k"] == "Ret" and not any(a["k"] == "Closure" for a in b.ancestors(n))]
    rep.check(not early, "layout:no-exit-before-recorded", "nothing is returned before the recorded layout is consulted" if not early else
              "`return %s` comes before `self.layout`: a typedef or reference with its own alignment answers with its target's" %
              b.canon(early[0].get("e", {}), 3)[:60], b.loc(early[0]) if early else b.loc(b.root))
    tail = strip(b.root.get("tail") or {})
    first = tail
    while first.get("k") == "MCall" and first.get("name") in ("or_else", "or", "map", "and_then", "filter"):
        first = strip(first["recv"])
    d = b.local_def.get(strip(first.get("base", {})).get("id")) if first.get("k") == "Field" else None
    ok = first.get("k") == "Field" and first.get("f") == "layout" and bool(d) and d[0][0] == "param" and d[0][1] == 0
    rep.check(ok, "layout:recorded-first", "`self.layout` is the first alternative" if ok else
              "the result starts from `%s`, not from the layout recorded for this type" % b.canon(first, 3)[:60], b.loc(b.root))


@RULES.rule("R3.12", "the layout tracker hears about a base class exactly when a `_base` field is emitted for it", floor=1)
def r3_12(rep):
    """The tracker's running offset decides how much explicit padding goes in front of a bit-field unit (R3.9).  Counting an empty or
    virtual base that gets no field (`saw_base` hoisted above the `requires_storage` test) makes the offset one byte too large:
    `struct Rec : Tagged { char kind; unsigned long long serial:60; .. }` gets 6 bytes of padding instead of 7 and every accessor of
    the run is one byte off, with size and alignment unchanged."""
    prog = rep.prog
    b = rep.need(prog.impl_fn("codegen::CodeGenerator", "ir::comp::CompInfo", "codegen"), "<CompInfo as CodeGenerator>::codegen")
    loops = [n for n in b.nodes if n["k"] == "For" and "CompInfo::base_members" in b.canon(n["iter"], 4)]
    loops = [l for l in loops if any(x["k"] == "MCall" and x.get("name") == "saw_base" for x in b.walk(l["body"]))]
    rep.need(loops, "the loop over base_members that calls saw_base")
    for l in loops:
        sb = [x for x in b.walk(l["body"]) if x["k"] == "MCall" and x.get("name") == "saw_base"]
        pushes = [x for x in b.walk(l["body"]) if x["k"] == "MCall" and x.get("name") == "push" and
                  any(y["k"] == "Local" and "TokenStream" in (b.ty(y) or "") or (b.macro_name(y) or "") == "quote" for y in b.walk(x))]
        rep.need(pushes, "the push of the `_base` field in that loop")

        def cond_key(n):
            out = []
            for pol, kind, g in b.guards(n, nested=True):
                if any(a is l for a in b.ancestors(g if kind == "cond" else (g[0] if kind in ("arm", "notarm") else l))) or kind != "cond":
                    if kind == "cond":
                        out.append(("" if pol else "!") + b.canon(g, 5))
                    elif kind in ("arm", "notarm"):
                        out.append("%s:%s#%d" % (kind, b.canon(g[0]["scrut"], 4), g[1]))
            return sorted(set(out))
        for x in sb:
            kx = cond_key(x)
            kp = cond_key(pushes[0])
            rep.check(kx == kp, "saw_base-iff-field", "saw_base and the field push run under the same conditions (%d)" % len(kx) if kx == kp else
                      "saw_base runs under %s, the `_base` field is pushed under %s: bases without storage are counted in the running offset"
                      % (kx or ["no condition"], kp), b.loc(x))


@RULES.rule("R3.13", "an allocation unit is large enough for every bit-field put into it", floor=1)
def r3_13(rep):
    """`bitfields_to_allocation_units` tracks the unit's size as "end of the field just added".  That is the maximum only while
    offsets increase.  In a union every bit-field starts at bit 0, so the size ends up being the width of the LAST one:
    `union U { unsigned wide:20; int narrow:3; }` gets `__BindgenBitfieldUnit<[u8; 1]>` and `wide`'s accessors run out of bounds."""
    prog = rep.prog
    b = rep.need(prog.fn("ir::comp::bitfields_to_allocation_units"), "ir::comp::bitfields_to_allocation_units")
    # the size variable: the one handed to flush_allocation_unit after the loop
    fl = [c for c in b.calls(lambda n: n["k"] == "Call" and str(n.get("callee") or "").endswith("flush_allocation_unit"))]
    rep.need(fl, "flush_allocation_unit calls")
    size_ids = {strip(c["args"][2]).get("id") for c in fl if len(c["args"]) > 2 and strip(c["args"][2]).get("k") == "Local"}
    asg = [n for n in b.nodes if n["k"] == "Assign" and strip(n["l"]).get("k") == "Local" and strip(n["l"])["id"] in size_ids and
           not (strip(n["r"]).get("k") == "Lit")]
    rep.need(asg, "the update of the unit size inside the loop")
    for a in asg:
        r = strip(a["r"])
        monotone = r.get("k") in ("Call", "MCall") and str(r.get("resolved") or r.get("callee") or "").endswith("::max") and \
            any(x["k"] == "Local" and x["id"] in size_ids for x in b.walk(r))
        per_union = any(kind == "cond" and "is_union" in b.canon(g, 5) for pol, kind, g in b.guards(a))
        rep.check(monotone or per_union, "unit-size-covers-every-field", "the unit size only grows (`max(size, end of field)`)" if monotone or per_union else
                  "`unit_size = %s`: the size is the end of the LAST field, which is not the largest when fields overlap (unions)" % b.canon(r, 3)[:60],
                  b.loc(a))


@RULES.rule("R3.14", "the gap in front of a bit-field unit is filled in packed records too (shared with C02 R2.10)", floor=1)
def r3_14(rep):
    """A zero-width bit-field pushes the following run to the next boundary of its type even under `packed`; the unit is a byte array
    that no `repr` moves.  Skipping the padding for packed records puts the unit (and every accessor) at the wrong bytes while the size
    assertion still passes, because `pad_struct` fills the tail (seeded independently for C02 and C03)."""
    import c02
    c02.r2_10(rep)


@RULES.rule("R3.15", "only the record's own `packed` attribute makes the record packed", floor=1)
def r3_15(rep):
    """`CompInfo::packed_attr` switches the layout tracker to packed mode (no explicit padding for plain members) and puts
    `repr(packed)` on the struct.  It is set when the record cursor has a `CXCursor_PackedAttr` child.  A `packed` attribute on ONE
    member (`unsigned kind:4 __attribute__((packed))`) is a child of that member's cursor; taking it for the record's attribute drops
    the padding in front of a later over-aligned member and moves every bit-field unit behind it (seeded change)."""
    from hir import pat_variants as _pv
    prog = rep.prog
    b = rep.need(prog.fn("ir::comp::CompInfo::from_ty"), "CompInfo::from_ty")
    asg = [n for n in b.nodes if n["k"] == "Assign" and strip(n["l"]).get("k") == "Field" and strip(n["l"]).get("f") == "packed_attr"]
    rep.need(asg, "assignments to CompInfo::packed_attr in from_ty")
    for k, n in enumerate(asg):
        clos = [a for a in b.ancestors(n) if a["k"] == "Closure"]
        arms = []
        for pol, kind, g in b.guards(n):
            if kind == "arm":
                arms.append({v.split("::")[-1] for v in _pv(g[0]["arms"][g[1]]["pat"])})
        in_member_arm = any(any(v in ("CXCursor_FieldDecl", "CXCursor_VarDecl", "CXCursor_CXXMethod") for v in a) for a in arms)
        own = len(clos) == 1 and not in_member_arm and any(a == {"CXCursor_PackedAttr"} for a in arms)
        rep.check(own, "packed-attr-from-record%s" % ("" if k == 0 else "#%d" % k),
                  "set for a `CXCursor_PackedAttr` child of the record cursor" if own else
                  "`packed_attr` is set inside %s: an attribute of a member is taken for an attribute of the record"
                  % ("the visitor of a member's children" if len(clos) > 1 or in_member_arm else "an arm that is not `CXCursor_PackedAttr`"), b.loc(n))


@RULES.rule("R3.16", "the origin of an allocation unit is fixed by its first bit-field and never moves afterwards", floor=1)
def r3_16(rep):
    """`offset_into_unit` of every bit-field is `offset_in_struct - start_offset_in_struct`, and codegen places the unit at the offset of
    its first bit-field (R3.9).  Both agree only if the origin is the first bit-field's offset.  A test like `unit_size_in_bits == 0`
    is not "the unit is empty": a zero-width separator that opens the unit leaves the size at 0, the next bit-field moves the origin,
    and `struct ZW { short s; char :0; long d:60; }` reads `d` at bytes 2..10 instead of 8..16 (before the fix).  In
    `bitfields_to_allocation_units`: every assignment of the origin after its declaration is guarded by emptiness of the very vector
    the unit's bit-fields are pushed to."""
    import qq
    from hir import strip as _strip
    prog = rep.prog
    b = rep.need(prog.fn("ir::comp::bitfields_to_allocation_units"), "ir::comp::bitfields_to_allocation_units")
    news = [c for c in b.calls(lambda n: n["k"] == "Call" and (n.get("callee") or "").endswith("Bitfield::new"))]
    rep.need(news, "Bitfield::new(offset - origin, ..) in bitfields_to_allocation_units")
    origin = None
    for c in news:
        a = _strip(c["args"][0])
        if a.get("k") == "Binary" and a["op"] == "-" and _strip(a["r"]).get("k") == "Local":
            origin = _strip(a["r"])
    rep.need(origin, "the origin local subtracted from a bit-field's offset")
    # the vector the Bitfield values go to
    vec = None
    for c in b.calls(lambda n: n["k"] == "MCall" and n["name"] == "push"):
        if any(x is n_ for n_ in news for x in b.walk(c["args"][0])):
            vec = _strip(c["recv"])
    rep.need(vec is not None and vec.get("k") == "Local", "the vector the unit's bit-fields are pushed to")
    assigns = [n for n in b.walk() if n["k"] == "Assign" and _strip(n["l"]).get("k") == "Local" and _strip(n["l"])["id"] == origin["id"]]
    rep.need(assigns, "assignments of the origin")
    for n in assigns:
        atoms = qq.guard_atoms(b, n)
        # loop membership is not a guard; what remains must be exactly "the vector is empty"
        def is_vec_empty(g):
            g = _strip(g) if isinstance(g, dict) else {}
            if g.get("k") == "Binary" and g.get("op") == "==":
                l, r = _strip(g["l"]), _strip(g["r"])
                if r.get("k") == "MCall":
                    l, r = r, l
                return l.get("k") == "MCall" and l.get("name") == "len" and _strip(l["recv"]).get("k") == "Local" and \
                    _strip(l["recv"])["id"] == vec["id"] and r.get("k") == "Lit" and r.get("v") == 0
            return g.get("k") == "MCall" and g.get("name") == "is_empty" and _strip(g["recv"]).get("k") == "Local" and \
                _strip(g["recv"])["id"] == vec["id"]
        # tests that do not read anything the loop changes (the `assert!` on the context at the top) are not about the unit
        def about_unit(g):
            return isinstance(g, dict) and any(x["k"] == "Local" and x["id"] in b.local_assigned for x in b.walk(g)) or is_vec_empty(g)
        atoms = [(a, pol, g) for a, pol, g in atoms if about_unit(g)]
        empt = [a for a, pol, g in atoms if pol and is_vec_empty(g)]
        other = [a for a, pol, g in atoms if not (pol and is_vec_empty(g))]
        ok = bool(empt) and not other
        rep.check(ok, "unit-origin-fixed-by-first-bitfield", "the origin is (re)assigned only while no bit-field has been put into the unit" if ok else
                  "the origin is reassigned under `%s`: that can still hold after a (zero-width) bit-field was put into the unit, whose "
                  "successors are then measured from another origin than the one the unit is placed at" % "; ".join(x[:80] for x in (other or ["no test"])), b.loc(n))
