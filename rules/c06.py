"""C06 — embedded layout assertions are complete and state the C compiler's numbers.

Everything is decided on the type-checked HIR.  `quote!` bodies are not read as text: the expansion of
`quote!` is a resolved tree of `quote::__private::push_*` / `ToTokens::to_tokens` calls, so the token
stream a site emits *and the locals it interpolates* are recovered from the facts (`qparse`).

Vocabulary
  wrapper   a `quote!` site emitting `const _: () = {..}` (compile-time form) or `#[test] fn ..` (test form)
  check     one assertion statement inside a wrapper (after the interpolated TokenStream locals have been
            expanded): `[err][MEASURE - #n];` or `assert_eq!(MEASURE, #n, err);`
  LT        the atom `BindgenOptions::layout_tests`
"""
import itertools
import re

from engine import RuleSet
from hir import strip, pat_variants

RULES = RuleSet("C06", "§3 C06",
                not_decided=["equality of `Layout::size/align` and `FieldData::offset` with what the C compiler computes "
                             "for any target (the numbers are libclang's; no compiler is run)",
                             "that `Type::layout` of non-composite kinds (pointers, arrays, enums) is the target's number",
                             "that the emitted assertion items compile and pass (needs rustc on the output)"])

CODEGEN_TRAIT = "codegen::CodeGenerator"
COMP = "ir::comp::CompInfo"
INST = "ir::template::TemplateInstantiation"
SHORT = {COMP: "Comp", INST: "Inst"}
LT_ADT, LT_FIELD = "options::BindgenOptions", "layout_tests"
MEASURE_IDENTS = {"size_of": "size", "align_of": "align", "offset_of": "offset", "addr_of": "offset"}
ARITH = {"add", "sub", "star", "div", "rem", "shl", "shr", "and", "or", "caret", "add_eq", "sub_eq"}


# =====================================================================================================
# propositional view of guard chains
# =====================================================================================================
class Ctx:
    """Per-body helper: role-normalised canon strings, formulas of guards, implication by truth table."""

    def __init__(self, prog, b):
        self.prog = prog
        self.b = b
        self.roles = {}
        for i, p in enumerate(b.params):
            if p.get("k") != "Bind":
                continue
            t = prog.types[p["t"]] if p.get("t") is not None else ""
            if p["name"] == "self":
                self.roles[p["name"]] = "SELF"
            elif t == "&ir::context::BindgenContext":
                self.roles[p["name"]] = "CTX"
            elif t == "&ir::item::Item":
                self.roles[p["name"]] = "ITEM"
            elif t.startswith("&mut codegen::CodegenResult"):
                self.roles[p["name"]] = "RESULT"
        self._form = {}

    def canon(self, n, depth=8):
        s = self.b.canon(n, depth)
        for nm, role in self.roles.items():
            s = re.sub(r"param:%s\b" % re.escape(nm), role, s)
        return s

    # ---- formulas -------------------------------------------------------------------------------
    def formula(self, n):
        n = strip(n)
        k = n.get("k")
        if k == "Local" and self.b.ty(n) == "bool":
            init = self.b.local_init(n["id"])
            if init is not None:
                return self.formula(init)
        if k == "Binary" and n["op"] in ("&&", "||"):
            return (n["op"], self.formula(n["l"]), self.formula(n["r"]))
        if k == "Unary" and n["op"] == "!":
            return ("!", self.formula(n["e"]))
        if k == "Lit" and isinstance(n.get("v"), bool):
            return ("const", n["v"])
        if k == "LetCond":
            return ("atom", "is(%s|%s)" % (self.canon(n["init"]), ",".join(sorted(pat_variants(n["pat"])))))
        if k == "Field" and n.get("adt") == LT_ADT and n["f"] == LT_FIELD:
            return ("atom", "LT")
        return ("atom", self.canon(n))

    def guard_formulas(self, n):
        """list of formulas whose conjunction is the condition under which n executes."""
        out = []
        for pol, kind, g in self.b.guards(n, nested=True):
            if kind == "cond":
                f = self.formula(g)
            elif kind == "notarm":
                m, i = g
                f = ("atom", "is(%s|%s)" % (self.canon(m["scrut"]), ",".join(sorted(pat_variants(m["arms"][i]["pat"])))))
            elif kind == "notall":
                # path to a nested `return`: an opaque conjunction (negated by pol == False)
                parts = []
                for p2, k2, g2 in g:
                    parts.append(("" if p2 else "!") + (self.canon(g2) if k2 == "cond" else k2))
                f = ("atom", "path(" + " && ".join(parts) + ")")
            elif kind == "arm":
                m, i = g
                vs = pat_variants(m["arms"][i]["pat"])
                if vs == {"_"}:
                    # catch-all arm: negation of the union of the other arms
                    others = set()
                    for j, a in enumerate(m["arms"]):
                        if j != i:
                            others |= pat_variants(a["pat"])
                    f = ("!", ("atom", "is(%s|%s)" % (self.canon(m["scrut"]), ",".join(sorted(others)))))
                else:
                    f = ("atom", "is(%s|%s)" % (self.canon(m["scrut"]), ",".join(sorted(vs))))
            else:  # letelse
                f = ("atom", "is(%s|%s)" % (self.canon(g["init"]), ",".join(sorted(pat_variants(g["pat"])))))
            out.append(f if pol else ("!", f))
        return out


def atoms_of(f, acc=None):
    acc = set() if acc is None else acc
    if f[0] == "atom":
        acc.add(f[1])
    elif f[0] in ("&&", "||"):
        atoms_of(f[1], acc)
        atoms_of(f[2], acc)
    elif f[0] == "!":
        atoms_of(f[1], acc)
    return acc


def ev(f, env):
    if f[0] == "atom":
        return env[f[1]]
    if f[0] == "const":
        return f[1]
    if f[0] == "!":
        return not ev(f[1], env)
    if f[0] == "&&":
        return ev(f[1], env) and ev(f[2], env)
    return ev(f[1], env) or ev(f[2], env)


def satisfiable(fs):
    atoms = set()
    for f in fs:
        atoms_of(f, atoms)
    atoms = sorted(atoms)
    if len(atoms) > 16:  # keep only what can interact: never happens on this tree
        raise ValueError("too many atoms")
    for bits in itertools.product((False, True), repeat=len(atoms)):
        env = dict(zip(atoms, bits))
        if all(ev(f, env) for f in fs):
            return True
    return False


def implies(fs, f):
    return not satisfiable(list(fs) + [("!", f)])


def mentions(fs, atom):
    return any(atom in atoms_of(f) for f in fs)


def literals(fs):
    """The conjunction `fs` as a set of (atom, polarity); non-conjunctive parts become one opaque literal."""
    out = set()

    def go(f, pol):
        if f[0] == "atom":
            out.add((f[1], pol))
        elif f[0] == "const":
            if f[1] != pol:
                out.add(("<false>", True))
        elif f[0] == "!":
            go(f[1], not pol)
        elif (f[0] == "&&" and pol) or (f[0] == "||" and not pol):
            go(f[1], pol)
            go(f[2], pol)
        else:
            out.add(("<disjunction>" + show(f), pol))
    for f in fs:
        go(f, True)
    return out


def show(f):
    if f[0] == "atom":
        return f[1]
    if f[0] == "const":
        return str(f[1]).lower()
    if f[0] == "!":
        return "!" + show(f[1])
    return "(%s %s %s)" % (show(f[1]), f[0], show(f[2]))


def short_atom(a):
    """Stable, readable key fragment for an atom: the last path segment of each call / field it names."""
    if "::" not in a:
        return a
    segs = re.findall(r"::([A-Za-z_][A-Za-z0-9_]*)(?=[(|),.]|$)", a)
    return "/".join(segs[-3:]) or a[:40]


# =====================================================================================================
# quote! expansions
# =====================================================================================================
def callee_of(n):
    return n.get("callee") or n.get("resolved") or n.get("ctor") or ""


def qparse(b, blk):
    """Token items of one `quote!` expansion (node = the expansion's block).

    ("id", name) ("p", punct) ("lit", text) ("g", delimiter, [items]) ("i", interpolated expr node)
    ("rep", [iterated expr nodes], [items]) ("?", callee)"""
    if blk["k"] == "Call" and callee_of(blk) == "proc_macro2::TokenStream::new":
        return []
    if blk["k"] != "Block":
        return [("?", blk["k"])]
    out = []
    for st in blk["stmts"]:
        if st["k"] == "Let":
            continue
        e = st.get("e")
        if e is None:
            continue
        if e["k"] == "Call":
            c = callee_of(e)
            if c == "quote::__private::push_ident":
                out.append(("id", strip(e["args"][1]).get("v")))
            elif c == "quote::__private::push_group":
                out.append(("g", strip(e["args"][1]).get("def", "?").split("::")[-1], qparse(b, e["args"][2])))
            elif c == "quote::__private::parse":
                out.append(("lit", strip(e["args"][1]).get("v")))
            elif c == "quote::__private::push_lifetime":
                out.append(("lit", strip(e["args"][1]).get("v")))
            elif c.startswith("quote::__private::push_"):
                out.append(("p", c.rsplit("push_", 1)[1]))
            elif c == "quote::ToTokens::to_tokens":
                out.append(("i", strip(e["args"][0])))
            else:
                out.append(("?", c))
        elif e["k"] == "Block":
            # `#( ... )*` : { let has_iter; let (mut x, i) = x.quote_into_iter(); ...; while true { let x = match x.next() {..}; <tokens> } }
            srcs = [strip(c["recv"]) for c in b.calls(lambda c: c["k"] == "MCall" and c["name"] == "quote_into_iter", e)]
            loops = [w for w in b.walk(e) if w["k"] in ("While", "Loop")]
            inner = qparse(b, loops[0]["body"]) if loops else [("?", "rep")]
            # inner interpolations are RepInterp locals; resolve them to the iterated collection
            out.append(("rep", srcs, inner))
        else:
            out.append(("?", e["k"]))
    return out


def flat(items):
    for it in items:
        yield it
        if it[0] == "g":
            yield from flat(it[2])
        elif it[0] == "rep":
            yield from flat(it[2])


def idents(items):
    return [it[1] for it in flat(items) if it[0] == "id"]


def wrapper_form(items):
    """'const' for `const _ : () = {..}`, 'test' for `#[test] fn ..`, else None (top level only)."""
    sig = []
    for it in items:
        if it[0] == "g":
            sig.append("g" + it[1][0] + ":" + " ".join(x[1] for x in it[2] if x[0] == "id"))
        elif it[0] in ("id", "p"):
            sig.append(it[1])
        else:
            sig.append(it[0])
    s = " ".join(sig)
    if re.search(r"\bconst underscore colon gP: eq gB", s):
        return "const"
    if re.search(r"pound gB:test fn\b", s):
        return "test"
    return None


def quote_roots(b, within=None):
    """(node) of every quote!/parse_quote! expansion root (optionally inside the subtree `within`)."""
    roots = [n for _, _, n in b.macro_roots({"quote", "parse_quote"}) if n["k"] in ("Block", "Call")]
    if within is None:
        return roots
    inside = {x["_i"] for x in b.walk(within)}
    return [n for n in roots if n["_i"] in inside]


def value_alts(cx, e, conds=()):
    """Alternatives a TokenStream-valued expression can evaluate to: [(extra formulas, quote root | None=empty)].
    Returns None when the expression is not built from quote!/if/match/Some/None only."""
    b = cx.b
    e = strip(e)
    k = e["k"]
    if k == "Block" and b.macro_name(e) in ("quote", "parse_quote"):
        return [(list(conds), e)]
    if k == "Call" and callee_of(e) == "proc_macro2::TokenStream::new":
        return [(list(conds), None)]
    if k == "Path" and e.get("def", "").endswith("::None"):
        return [(list(conds), None)]
    if k == "Call" and e.get("ctor", "").endswith("::Some"):
        return value_alts(cx, e["args"][0], conds)
    if k == "Local":
        init = b.local_init(e["id"])
        return value_alts(cx, init, conds) if init is not None else None
    if k == "Block":
        return value_alts(cx, e["tail"], conds) if e.get("tail") is not None else None
    if k == "If" and "else" in e:
        f = cx.formula(e["cond"])
        a = value_alts(cx, e["then"], tuple(conds) + (f,))
        c = value_alts(cx, e["else"], tuple(conds) + (("!", f),))
        return None if a is None or c is None else a + c
    if k == "Match":
        out = []
        for i, arm in enumerate(e["arms"]):
            f = ("atom", "is(%s|%s)" % (cx.canon(e["scrut"]), ",".join(sorted(pat_variants(arm["pat"])))))
            r = value_alts(cx, arm["body"], tuple(conds) + (f,))
            if r is None:
                return None
            out += r
        return out
    return None


def expand(cx, root, fs):
    """All fully expanded token trees of quote site `root` under the assumptions `fs` (list of formulas).
    Interpolated TokenStream locals are replaced by the consistent alternatives of their definition."""
    def go(items, fs):
        results = [[]]
        for it in items:
            if it[0] == "g":
                subs = go(it[2], fs)
                results = [r + [("g", it[1], s)] for r in results for s in subs]
                continue
            if it[0] == "i":
                ty = cx.b.ty(it[1]) or ""
                if "proc_macro2::TokenStream" in ty and it[1]["k"] == "Local":
                    alts = value_alts(cx, it[1])
                    if alts is not None:
                        subs = []
                        for conds, r in alts:
                            if not satisfiable(fs + conds):
                                continue
                            if r is None:
                                subs.append([])
                            else:
                                subs += go(qparse(cx.b, r), fs + conds)
                        results = [r + s for r in results for s in subs]
                        continue
            results = [r + [it] for r in results]
        return results
    return go(qparse(cx.b, root), list(fs))


def split_top(items, punct):
    parts, cur = [], []
    for it in items:
        if it == ("p", punct):
            parts.append(cur)
            cur = []
        else:
            cur.append(it)
    parts.append(cur)
    return parts


def find_checks(items):
    """Assertion statements anywhere in an expanded token tree.
    -> [{"form", "kind", "measure", "num" (list of items), "ty" (node|None), "field" (node|None), "clean" (bool)}]"""
    out = []

    def classify(form, measure, num):
        ids = idents(measure)
        kinds = {MEASURE_IDENTS[i] for i in ids if i in MEASURE_IDENTS}
        kind = sorted(kinds)[0] if len(kinds) == 1 else ("none" if not kinds else "mixed")
        interps = [it[1] for it in flat(measure) if it[0] == "i"]
        ty = field = None
        if kind in ("size", "align"):
            # `:: #prefix :: mem :: size_of :: < #T > ( )`
            for i, it in enumerate(measure):
                if it == ("p", "lt") and i + 1 < len(measure) and measure[i + 1][0] == "i":
                    ty = measure[i + 1][1]
        elif kind == "offset":
            if "offset_of" in ids:
                grp = [it for it in flat(measure) if it[0] == "g" and it[1] == "Parenthesis"]
                inner = [x[1] for x in (grp[0][2] if grp else []) if x[0] == "i"]
                if len(inner) == 2:
                    ty, field = inner
            else:
                fl = list(flat(measure))
                for i, it in enumerate(fl):
                    if it == ("p", "dot") and i + 1 < len(fl) and fl[i + 1][0] == "i":
                        field = fl[i + 1][1]
        # no arithmetic on the measured side (top level), the number is exactly one interpolation
        clean = not any(it[0] == "p" and it[1] in ARITH for it in measure) and not any(it[0] == "lit" for it in measure) \
            and len(num) == 1 and num[0][0] == "i"
        out.append({"form": form, "kind": kind, "measure": measure, "num": num, "ty": ty, "field": field, "clean": clean,
                    "interps": interps})

    def scan(items):
        n = len(items)
        for i, it in enumerate(items):
            if it[0] == "g" and it[1] == "Bracket" and i + 2 < n and items[i + 1][0] == "g" and items[i + 1][1] == "Bracket" \
                    and items[i + 2] == ("p", "semi"):
                y = items[i + 1][2]
                idx = max([j for j, t in enumerate(y) if t == ("p", "sub")], default=None)
                if idx is None:
                    classify("const", y, [])
                else:
                    classify("const", y[:idx], y[idx + 1:])
            if it == ("id", "assert_eq") and i + 2 < n and items[i + 1] == ("p", "bang") and items[i + 2][0] == "g":
                parts = split_top(items[i + 2][2], "comma")
                classify("test", parts[0], parts[1] if len(parts) > 1 else [])
            if it[0] == "g":
                scan(it[2])
            elif it[0] == "rep":
                scan(it[2])
    scan(items)
    return out


# =====================================================================================================
# anchors
# =====================================================================================================
def gen_fn(rep, self_ty):
    return rep.need(rep.prog.impl_fn(CODEGEN_TRAIT, self_ty, "codegen"), "impl CodeGenerator for %s" % self_ty)


def wrappers(cx):
    """{form: (root, items)} of the wrapper quote sites of one generator function."""
    out = {}
    dup = []
    for r in quote_roots(cx.b):
        items = qparse(cx.b, r)
        w = wrapper_form(items)
        if w:
            if w in out:
                dup.append(w)
            out.setdefault(w, (r, items))
    return out, dup


def own_layout_ok(s):
    """`s` (role-normalised canon) is the layout of the generated item's own type."""
    return s in ("ir::ty::Type::layout(ir::item_kind::ItemKind::expect_type(ITEM.ir::item::Item::kind), CTX)",
                 "ir::ty::Type::layout(ir::item::Item::expect_type(ITEM), CTX)")


def is_lt_read(n):
    return n["k"] == "Field" and n.get("adt") == LT_ADT and n["f"] == LT_FIELD


def root_local(n):
    """The local at the root of a place expression (through fields, indexing, derefs, refs), else None."""
    while True:
        n = strip(n)
        if n["k"] in ("Field", "Index"):
            n = n["base"]
        elif n["k"] == "Local":
            return n
        else:
            return None


def def_node(b, lid):
    d = b.local_def.get(lid)
    if d is None:
        return None
    origin = d[0]
    if origin[0] == "param":
        return None
    return origin[1]


# =====================================================================================================
# R6.1
# =====================================================================================================
READONLY = {"len", "is_empty", "iter", "contains", "get", "first", "last", "as_ref", "clone", "to_string", "as_str",
            "to_owned", "as_slice", "contains_key", "is_some", "is_none"}


def assertion_sites(cx):
    """Every quote site of a body that takes part in an assertion: wrappers, everything they interpolate
    (transitively), and every site naming size_of / align_of / offset_of.  -> {root index: (root, label)}"""
    b = cx.b
    sites = {}
    work = []
    for r in quote_roots(b):
        items = qparse(b, r)
        w = wrapper_form(items)
        ids = set(idents(items))
        m = sorted(ids & {"size_of", "align_of", "offset_of"})
        if w:
            sites[r["_i"]] = (r, w + "-block")
            work.append(items)
        elif m:
            sites[r["_i"]] = (r, m[0] + "-expr")
            work.append(items)
    seen_locals = set()
    while work:
        items = work.pop()
        for it in flat(items):
            srcs = [it[1]] if it[0] == "i" else (it[1] if it[0] == "rep" else [])
            for s in srcs:
                if s["k"] != "Local" or s["id"] in seen_locals:
                    continue
                seen_locals.add(s["id"])
                if "TokenStream" not in (b.ty(s) or ""):
                    continue
                init = b.local_init(s["id"])
                if init is None:
                    continue
                for r in quote_roots(b, init):
                    if r["_i"] not in sites:
                        sub = qparse(b, r)
                        sites[r["_i"]] = (r, "aux-tokens")
                        work.append(sub)
    # label check statements by what they measure (after expanding the interpolated measure)
    for i, (r, lab) in list(sites.items()):
        if lab.endswith("-block"):
            continue
        kinds = {c["kind"] for ex in expand(cx, r, cx.guard_formulas(r)) for c in find_checks(ex)}
        if len(kinds) == 1 and "none" not in kinds:
            sites[i] = (r, kinds.pop() + "-check")
    return sites


def form_suffix(cx, fs):
    a = None
    for f in fs:
        for x in atoms_of(f):
            if x.endswith("features::RustFeatures::offset_of"):
                a = x
    if a is None:
        return ""
    if implies(fs, ("atom", a)):
        return ":const"
    if implies(fs, ("!", ("atom", a))):
        return ":test"
    return ""


@RULES.rule("R6.1", "assertions are emitted iff layout_tests is on, and layout_tests guards nothing else", floor=24)
def r6_1(rep):
    """Necessary: with `--no-layout-tests` no assertion may be emitted and nothing else may change.
    Breaks on e.g. dropping `ctx.options().layout_tests &&` in CompInfo::codegen (assertions appear although
    disabled) or on `if ctx.options().layout_tests { fields.push(..) }` (the struct itself changes with the flag)."""
    prog = rep.prog
    gens = {COMP: gen_fn(rep, COMP), INST: gen_fn(rep, INST)}
    # ---- (a) every assertion site, crate wide, is guarded by LT -----------------------------------------
    n_sites = 0
    for path, b in prog.bodies.items():
        # cheap pre-filter: only bodies with quote expansions that push a measuring ident / a wrapper
        if not any(n["k"] == "Lit" and n.get("v") in ("size_of", "align_of", "offset_of", "test", "const") and b.macro_name(n) in ("quote", "parse_quote")
                   for n in b.nodes):
            continue
        cx = Ctx(prog, b)
        sites = assertion_sites(cx)
        if not sites:
            continue
        owner = SHORT.get(b.fact.get("impl_self"), path) if b.fact.get("impl_trait") == CODEGEN_TRAIT else path
        used = {}
        for _, (r, label) in sorted(sites.items(), key=lambda kv: b.loc(kv[1][0])):
            fs = cx.guard_formulas(r)
            key = "guarded:%s:%s%s" % (owner, label, form_suffix(cx, fs))
            used[key] = used.get(key, 0) + 1
            if used[key] > 1:
                key += "#%d" % used[key]
            n_sites += 1
            rep.check(implies(fs, ("atom", "LT")), key,
                      "assertion emission site must execute only under `options().layout_tests` (guards: %s)"
                      % " & ".join(show(f) for f in fs), b.loc(r))
        # test-function names are assertion emission too
        for n in b.nodes:
            if n["k"] == "Lit" and isinstance(n.get("v"), str) and "bindgen_test_layout" in n["v"] and b.macro_name(n) == "format":
                fs = cx.guard_formulas(n)
                rep.check(implies(fs, ("atom", "LT")), "guarded:%s:test-fn-name" % owner,
                          "`*bindgen_test_layout_*` name is built only under layout_tests", b.loc(n))
    rep.note("assertion_sites", n_sites)

    # ---- (b) every consumer read of the option guards assertion emission only -----------------------------
    reads = []
    for path, b in prog.bodies.items():
        if path.startswith("options::") or path.startswith("<options::"):
            continue  # builder setter, as_args writer, derives, CLI
        for n in b.nodes:
            if is_lt_read(n):
                reads.append((b, n))
    rep.need(reads, "a read of BindgenOptions::layout_tests outside options::")
    by_body = {}
    for b, n in reads:
        by_body.setdefault(b.path, (b, []))[1].append(n)
    for path, (b, ns) in sorted(by_body.items()):
        owner = SHORT.get(b.fact.get("impl_self"), path) if b.fact.get("impl_trait") == CODEGEN_TRAIT else path
        cx = Ctx(prog, b)
        sites = assertion_sites(cx)
        if not rep.check(bool(sites) and b.path in (g.path for g in gens.values()), "lt-read-in-generator:" + owner,
                         "`layout_tests` is consulted only by the two assertion generators", b.loc(ns[0])):
            continue
        wrapper_roots = {i for i, (r, lab) in sites.items() if lab.endswith("-block")}
        region_effects(rep, cx, owner, wrapper_roots)


def region_effects(rep, cx, owner, wrapper_roots):
    """Everything whose execution depends on LT must be assertion emission."""
    b = cx.b
    cache = {}

    def fs_of(n):
        i = n["_i"]
        if i not in cache:
            fs = cx.guard_formulas(n)
            dep = mentions(fs, "LT")
            cache[i] = (dep, dep and implies(fs, ("atom", "LT")))
        return cache[i]

    def inside(n):
        return fs_of(n)[1]

    def outer_mutable(n):
        """root local of place `n` if it is defined outside the LT region and can be mutated through."""
        l = root_local(n)
        if l is None:
            return None
        d = def_node(b, l["id"])
        if d is not None and inside(d):
            return None
        t = b.ty(l) or ""
        if t.startswith("&mut") or l["id"] in b.local_mut:
            return l
        return None

    n_eff = 0
    for n in b.nodes:
        k = n["k"]
        if k not in ("Assign", "AssignOp", "MCall", "Call", "Ret", "Break", "Continue"):
            continue
        dep, ins = fs_of(n)
        if not dep:
            continue
        if b.macro_name(n) in ("quote", "parse_quote", "format", "write", "vec"):
            # token pushes on the expansion's own `_s`, fmt plumbing
            continue
        loc = b.loc(n)
        if k in ("Break", "Continue"):
            loops = [a for a in b.ancestors(n) if a["k"] in ("For", "While", "Loop")]
            rep.check(ins and loops and inside(loops[0]), "lt-region:%s:loop-exit" % owner,
                      "`%s` depending on layout_tests leaves a loop that runs regardless of it" % k.lower(), loc)
            n_eff += 1
            continue
        if k == "Ret":
            if any(a["k"] == "Closure" for a in b.ancestors(n)):
                continue  # returns from a closure; the closure itself is judged where it is used
            skipped = []
            child = n
            for a in b.ancestors(n):
                if a["k"] == "Block":
                    role = b.role[child["_i"]]
                    if isinstance(role, tuple) and role[0] == "stmts":
                        skipped += a["stmts"][role[1] + 1:] + ([a["tail"]] if a.get("tail") is not None else [])
                elif a["k"] in ("For", "While", "Loop"):
                    skipped.append(a)
                child = a
            leak = None
            for s in skipped:
                for x in b.walk(s):
                    if x["k"] in ("Assign", "AssignOp", "MCall", "Call") and not inside(x) and \
                            b.macro_name(x) not in ("debug", "trace", "debug_assert", "warn"):
                        leak = x
                        break
                if leak:
                    break
            iff = next((a for a in b.ancestors(n) if a["k"] == "If"), None)
            what = "/".join(sorted(short_atom(a) for a in atoms_of(cx.formula(iff["cond"])))) if iff is not None else "unconditional"
            rep.check(leak is None, "lt-region:%s:early-return:%s" % (owner, what),
                      "a `return` that depends on layout_tests skips code that is not assertion emission%s"
                      % (" (e.g. %s at %s)" % (callee_of(leak) or leak["k"], b.loc(leak)) if leak else ""), loc)
            n_eff += 1
            continue
        if not ins:
            # executes depending on LT without being implied by it (e.g. under `!layout_tests`, or `lt || x`)
            rep.bad("lt-region:%s:depends-not-implied:%s" % (owner, (callee_of(n) or k).split("::")[-1]),
                    "`%s` runs depending on layout_tests but not only when it is on: something other than assertion "
                    "emission changes with the flag" % (callee_of(n) or k), loc)
            n_eff += 1
            continue
        if k in ("Assign", "AssignOp"):
            l = root_local(n["l"])
            d = def_node(b, l["id"]) if l is not None else None
            if l is None or d is None or not inside(d):
                rep.bad("lt-region:%s:assign:%s" % (owner, l["name"] if l else "?"),
                        "state defined outside the layout_tests block is assigned inside it", loc)
                n_eff += 1
            continue
        # calls
        touched = []
        if k == "MCall":
            l = outer_mutable(n["recv"])
            if l is not None and n["name"] not in READONLY:
                touched.append(("recv", l))
        for a in n["args"]:
            t = b.ty(a) or ""
            if t.startswith("&mut"):
                l = outer_mutable(a)
                if l is not None:
                    touched.append(("arg", l))
        if not touched:
            continue
        n_eff += 1
        name = n.get("name") or callee_of(n).split("::")[-1]
        roles = {cx.roles.get(l["name"]) for _, l in touched}
        if roles == {"RESULT"} and k == "MCall" and touched[0][0] == "recv":
            if callee_of(n).startswith("std::vec::Vec::") and name == "push":
                a0 = strip(n["args"][0])
                rep.check(a0["_i"] in wrapper_roots, "lt-region:%s:result.push%s" % (owner, form_suffix(cx, cx.guard_formulas(n))),
                          "the only thing pushed to the output under layout_tests is an assertion block", loc)
                continue
            if callee_of(n).endswith("CodegenResult::<'a>::overload_number") or callee_of(n).endswith("CodegenResult::overload_number"):
                arg = cx.canon(n["args"][0], 12)
                fmt = [x.get("v") for x in b.walk(b.local_init(root_local(n["args"][0])["id"]) or n) if x["k"] == "Lit"] \
                    if root_local(n["args"][0]) is not None else []
                rep.check(any(isinstance(v, str) and "bindgen_test_layout" in v for v in fmt),
                          "lt-region:%s:result.overload_number" % owner,
                          "overload counter is bumped only for the test function's own name (%s)" % arg[:60], loc)
                continue
        rep.bad("lt-region:%s:mutates:%s.%s" % (owner, "/".join(sorted(l["name"] for _, l in touched)), name),
                "`%s` mutates `%s` (defined outside) under layout_tests: more than assertion emission depends on the flag"
                % (callee_of(n), ", ".join(sorted(l["name"] for _, l in touched))), loc)
    rep.note("lt_region_effects:" + owner, n_eff)


# =====================================================================================================
# R6.2
# =====================================================================================================
def role_atoms(self_ty):
    """expected skip literals of the whole assertion block: {name: (predicate on atom, polarity)}"""
    if self_ty == COMP:
        return {
            "layout_tests": (lambda a: a == "LT", True),
            "no-non-type-template-params": (lambda a: a == "SELF.ir::comp::CompInfo::has_non_type_template_params", False),
            "no-template-params": (lambda a: a == "std::vec::Vec::<T, A>::is_empty(ir::template::TemplateParameters::all_template_params(ITEM, CTX))", True),
            "not-forward-declaration": (lambda a: a == "SELF.ir::comp::CompInfo::is_forward_declaration", False),
            "has-layout": (lambda a: a.startswith("is(") and a.endswith("|std::prelude::v1::Some)") and own_layout_ok(a[3:a.rindex("|")]), True),
        }
    return {
        "layout_tests": (lambda a: a == "LT", True),
        "not-opaque": (lambda a: a == "<ir::template::TemplateInstantiation as ir::item::IsOpaque>::is_opaque(SELF, CTX, ITEM)", False),
        "no-template-params": (lambda a: a == "ir::context::BindgenContext::uses_any_template_parameters(CTX, ITEM.ir::item::Item::id)", False),
        "has-layout": (lambda a: a.startswith("is(") and a.endswith("|std::prelude::v1::Some)") and own_layout_ok(a[3:a.rindex("|")]), True),
    }


def is_offset_of_atom(a):
    return a.endswith(".options::BindgenOptions::rust_features.features::RustFeatures::offset_of") and a.startswith("CTX.")


OPAQUE_ITEM = "<ir::item::Item as ir::item::IsOpaque>::is_opaque(ITEM, CTX, ())"


def per_field(cx, wrapper_items, wfs):
    """Resolve the `#( #list )*` of a wrapper to its builder.
    -> dict(list_local, alts=[(literals-extra, 'empty'|'chain'|'other', expr)], closure, chain_ok, detail)"""
    b = cx.b
    reps = [it for it in flat(wrapper_items) if it[0] == "rep"]
    out = []
    for it in reps:
        for src in it[1]:
            if src["k"] != "Local":
                out.append({"src": src, "error": "repetition over a non-local"})
                continue
            init = b.local_init(src["id"])
            if init is None:
                out.append({"src": src, "error": "per-field list `%s` is mutable or not let-bound" % src["name"]})
                continue
            alts = []

            def go(e, conds):
                e = strip(e)
                if e["k"] == "If" and "else" in e:
                    f = cx.formula(e["cond"])
                    go(e["then"], conds + [f])
                    go(e["else"], conds + [("!", f)])
                elif e["k"] == "Block" and e.get("tail") is not None and not e["stmts"]:
                    go(e["tail"], conds)
                else:
                    alts.append((conds, e))
            go(init, [])
            out.append({"src": src, "alts": [(c, e) for c, e in alts if satisfiable(wfs + c)]})
    return out


def chain_of(b, e):
    """[names of the adaptor calls] from the collection down to the source, and the source node."""
    names = []
    clos = []
    n = e
    while n["k"] == "MCall":
        names.append(n["name"])
        for a in n["args"]:
            if strip(a)["k"] == "Closure":
                clos.append((n["name"], strip(a)))
        if callee_of(n).startswith("ir::"):
            break
        n = n["recv"]
        while n["k"] in ("AddrOf",) or (n["k"] == "Unary" and n.get("op") == "*"):
            n = n["e"]
    return names, clos, n


@RULES.rule("R6.2", "both assertion forms are complete; skip conditions are exactly the documented ones", floor=81)
def r6_2(rep):
    """Necessary: every concrete struct/union with a layout gets size + align + one offset check per named
    data member, in both the `const _` and the `#[test]` form; instantiations get size + align.
    Breaks on e.g. deleting `#check_struct_align` from one form, adding `.filter(|f| f.is_public())` or
    `.skip(1)` to the field iteration, or adding `&& !self.is_union()` to the block's condition
    (unions silently lose their assertions; no golden file changes unless the class is in the corpus)."""
    prog = rep.prog
    for self_ty in (COMP, INST):
        b = gen_fn(rep, self_ty)
        cx = Ctx(prog, b)
        who = SHORT[self_ty]
        ws, dup = wrappers(cx)
        for w in dup:
            rep.bad("form:%s:%s:unique" % (who, w), "more than one `%s` wrapper in %s" % (w, b.path), b.loc(b.root))
        wlits = {}
        for form in ("const", "test"):
            if not rep.check(form in ws, "form:%s:%s" % (who, form), "the %s form of the assertion block exists" % form, b.loc(b.root)):
                continue
            root, items = ws[form]
            loc = b.loc(root)
            fs = cx.guard_formulas(root)
            # --- emitted: handed to result.push
            par = b.parent[root["_i"]]
            emitted = par is not None and par["k"] == "MCall" and par["name"] == "push" and \
                root_local(par["recv"]) is not None and cx.roles.get(root_local(par["recv"])["name"]) == "RESULT"
            rep.check(emitted, "emitted:%s:%s" % (who, form), "the assertion block is pushed to the codegen result", loc)
            # --- skip conditions
            lits = literals(fs)
            wlits[form] = lits
            expected = role_atoms(self_ty)
            matched = set()
            for name, (pred, pol) in sorted(expected.items()):
                hit = [l for l in lits if pred(l[0])]
                ok = bool(hit) and all(l[1] == pol for l in hit)
                matched |= set(hit)
                rep.check(ok, "skip:%s:%s:%s" % (who, form, name),
                          "block is emitted only when `%s` (%s)" % (name, "found" if hit else "condition missing"), loc)
            feat = [l for l in lits if is_offset_of_atom(l[0])]
            matched |= set(feat)
            want = (form == "const")
            rep.check(len(feat) >= 1 and all(l[1] == want for l in feat), "skip:%s:%s:offset_of-feature" % (who, form),
                      "%s form is chosen iff rust_features().offset_of is %s" % (form, want), loc)
            for a, pol in sorted(lits - matched):
                rep.bad("skip-extra:%s:%s:%s%s" % (who, form, "" if pol else "!", short_atom(a)),
                        "assertion block is additionally skipped unless %s%s — a class of types silently loses its assertions"
                        % ("" if pol else "!", a), loc)
            # --- content
            exps = expand(cx, root, fs)
            rep.check(len(exps) >= 1, "expand:%s:%s" % (who, form), "%d consistent expansion(s)" % len(exps), loc)
            need = ("size", "align")
            for kind in need:
                ok = bool(exps)
                for ex in exps:
                    # top-level checks only (not those of the per-field repetition)
                    cs = [c for c in find_checks([t for t in ex if t[0] != "rep"] if False else strip_reps(ex))
                          if c["kind"] == kind and c["form"] == form]
                    ok = ok and len(cs) == 1
                rep.check(ok, "has:%s:%s:%s" % (who, form, kind),
                          "the %s form contains exactly one %s check in every expansion" % (form, kind), loc)
            for ex in exps:
                stray = [c for c in find_checks(strip_reps(ex)) if c["kind"] not in need or c["form"] != form]
                for c in stray:
                    rep.bad("has:%s:%s:stray-%s" % (who, form, c["kind"]),
                            "a check that measures nothing recognisable / of the other form (%s, %s form) — vacuous assertion"
                            % (c["kind"], c["form"]), loc)
            if self_ty != COMP:
                continue
            # --- per-field list
            pfs = per_field(cx, items, fs)
            if not rep.check(len(pfs) == 1 and "error" not in pfs[0], "fields:%s:%s:list" % (who, form),
                             "the block interpolates one per-field list `#( #x )*`%s" %
                             ("" if not pfs or "error" not in pfs[0] else ": " + pfs[0]["error"]), loc):
                continue
            pf = pfs[0]
            chains = []
            for conds, e in pf["alts"]:
                extra = literals(conds) - lits
                is_empty = e["k"] == "Call" and callee_of(e) in ("std::vec::Vec::<T>::new", "std::vec::Vec::new")
                if is_empty:
                    rep.check(extra == {(OPAQUE_ITEM, True)}, "fields:%s:%s:empty-iff-opaque" % (who, form),
                              "the per-field list is empty only for opaque items (here: %s)"
                              % (" & ".join(("" if p else "!") + a for a, p in sorted(extra)) or "unconditionally"), b.loc(e))
                else:
                    chains.append((conds, e, extra))
            if not rep.check(len(chains) == 1, "fields:%s:%s:builder" % (who, form), "one non-empty builder of the per-field list", loc):
                continue
            conds, e, extra = chains[0]
            rep.check(extra <= {(OPAQUE_ITEM, False)}, "fields:%s:%s:built-unless-opaque" % (who, form),
                      "the per-field list is built for every non-opaque item (extra conditions: %s)"
                      % (" & ".join(("" if p else "!") + a for a, p in sorted(extra - {(OPAQUE_ITEM, False)})) or "none"), b.loc(e))
            names, clos, src = chain_of(b, e)
            src_ok = src["k"] == "MCall" and callee_of(src) == "ir::comp::CompInfo::fields" and cx.canon(src["recv"]) == "SELF"
            rep.check(src_ok, "fields:%s:%s:source" % (who, form), "the list is built from `self.fields()` (got %s)" % cx.canon(src)[:80], b.loc(e))
            rep.check(names in (["collect", "filter_map", "iter", "fields"],), "fields:%s:%s:all-fields" % (who, form),
                      "every field is visited: fields().iter().filter_map(..).collect() with no other adaptor (chain: %s)"
                      % ".".join(reversed(names)), b.loc(e))
            fm = [c for nm, c in clos if nm == "filter_map"]
            if not rep.check(len(fm) == 1, "fields:%s:%s:closure" % (who, form), "one filter_map closure", b.loc(e)):
                continue
            clo = fm[0]
            field_filter(rep, cx, who, form, clo, fs + conds)
        early_exits(rep, cx, who)
        dispatch(rep, prog, b, who)
        # the two forms differ only in the polarity of the offset_of feature
        if "const" in wlits and "test" in wlits:
            a = {l for l in wlits["const"] if not is_offset_of_atom(l[0])}
            t = {l for l in wlits["test"] if not is_offset_of_atom(l[0])}
            rep.check(a == t, "forms-exhaustive:%s" % who,
                      "exactly one of the two forms is emitted whenever the block is not skipped (difference: %s)"
                      % sorted(x[0][:60] for x in a ^ t), b.loc(b.root))


def early_exits(rep, cx, who):
    """Every `return` of the generator (outside closures) is a statement-level `if c { return }` / let-else, i.e. it is
    part of the guard chains judged above; anything else (`match k { Union => return, .. }`) would skip the block unseen."""
    b = cx.b
    n = 0
    for r in b.nodes:
        if r["k"] != "Ret" or any(a["k"] == "Closure" for a in b.ancestors(r)):
            continue
        n += 1
        modelled = False
        child = r
        for a in b.ancestors(r):
            if a["k"] == "If":
                role = b.role[child["_i"]]
                par = b.parent[a["_i"]]
                gp = b.parent[par["_i"]] if par is not None else None
                at_stmt = par is not None and par["k"] in ("Semi", "ExprStmt") and gp is not None and gp["k"] == "Block"
                if role in ("then", "else") and b.diverges(child) and at_stmt:
                    modelled = True
                break
            if a["k"] == "Let" and b.role[child["_i"]] == "els":
                modelled = True
                break
            if a["k"] not in ("Block", "Semi", "ExprStmt"):
                break
            child = a
        iff = next((a for a in b.ancestors(r) if a["k"] in ("If", "Match", "Let")), None)
        what = "unconditional"
        if iff is not None and iff["k"] == "If":
            what = "/".join(sorted(short_atom(a) for a in atoms_of(cx.formula(iff["cond"]))))
        elif iff is not None and iff["k"] == "Match":
            what = "match:" + short_atom(cx.canon(iff["scrut"]))
        rep.check(modelled, "exit:%s:%s" % (who, what),
                  "early `return` is a plain `if c { return }` whose condition is part of the judged skip conditions", b.loc(r))
    return n


def dispatch(rep, prog, gen, who):
    """The generator is invoked for every item of its kind, with the item's own `Item`."""
    calls = []
    for path, b in prog.bodies.items():
        for c in b.calls(lambda c: c["k"] == "MCall" and c.get("resolved") == gen.path):
            calls.append((b, c))
    if not rep.check(len(calls) >= 1, "dispatch:%s" % who, "`%s` is called (%d call sites)" % (gen.path, len(calls)), gen.loc(gen.root)):
        return
    variant = {"Comp": "ir::ty::TypeKind::Comp", "Inst": "ir::ty::TypeKind::TemplateInstantiation"}[who]
    good = False
    for b, c in calls:
        cx = Ctx(prog, b)
        lits = literals(cx.guard_formulas(c))
        args = [cx.canon(a) for a in c["args"]]
        if b.fact.get("impl_self") == "ir::ty::Type" and b.fact.get("impl_trait") == CODEGEN_TRAIT and \
                lits == {("is(SELF.ir::ty::Type::kind|%s)" % variant, True)} and args == ["CTX", "RESULT", "ITEM"] and \
                cx.canon(c["recv"]) == "match(SELF.ir::ty::Type::kind)~%s.0" % variant:
            good = True
    rep.check(good, "dispatch:%s:unconditional" % who,
              "`<Type as CodeGenerator>::codegen` hands every `%s` type, with its own item and the real result sink, to the "
              "generator without further conditions" % variant.split("::")[-1], calls[0][0].loc(calls[0][1]))


def strip_reps(items):
    out = []
    for it in items:
        if it[0] == "rep":
            continue
        if it[0] == "g":
            out.append(("g", it[1], strip_reps(it[2])))
        else:
            out.append(it)
    return out


def closure_param(clo, i=0):
    p = clo["params"][i] if len(clo["params"]) > i else {}
    while p.get("k") == "PRef":
        p = p["p"]
    return p if p.get("k") == "Bind" else None


def norm_field(s, pname):
    """canon of something derived from the filter_map closure's parameter, with the parameter written FIELD and the
    three spellings of `Field::DataMember(x)` destructuring (let-else / if-let / match) unified."""
    s = s.replace("match(cparam:%s)" % pname, "cparam:%s" % pname)
    return s.replace("cparam:%s~ir::comp::Field::DataMember.0" % pname, "FIELD")


def field_filter(rep, cx, who, form, clo, fs):
    """The per-field closure yields one offset check for every DataMember with a name and an offset — no other filter."""
    b = cx.b
    p = closure_param(clo)
    if not rep.check(p is not None, "fields:%s:%s:param" % (who, form), "closure takes the field by a simple binding", b.loc(clo)):
        return
    pname = p["name"]
    sites = []
    for r in quote_roots(b, clo["body"]):
        rfs = cx.guard_formulas(r)
        if satisfiable(fs + rfs):
            sites.append((r, rfs))
    if not rep.check(len(sites) == 1, "fields:%s:%s:offset-site" % (who, form),
                     "one offset-check quote of the %s form inside the per-field closure (found %d)" % (form, len(sites)), b.loc(clo)):
        return
    site, sfs = sites[0]
    cs = [c for ex in expand(cx, site, fs + sfs) for c in find_checks(ex)]
    rep.check(len(cs) == 1 and cs[0]["kind"] == "offset" and cs[0]["form"] == form, "has:%s:%s:offset" % (who, form),
              "per-field quote is one offset check of the %s form (found %s)" % (form, [(c["kind"], c["form"]) for c in cs]), b.loc(site))
    # ---- conditions inside the closure
    clo_fs = cx.guard_formulas(clo)
    inner = [l for l in literals(sfs) - literals(clo_fs)]
    conds = set()
    for a, pol in inner:
        if is_offset_of_atom(a):
            continue
        conds.add((norm_field(a, pname), pol))
    # implicit: Option::map / and_then closures between the site and the filter_map closure, `?` in the closure
    child = site
    flow_ok = True
    why = ""
    for a in b.ancestors(site):
        if a is clo:
            break
        k = a["k"]
        if k == "Closure":
            m = b.parent[a["_i"]]
            if m is not None and m["k"] == "MCall" and m["name"] in ("map", "and_then") and (b.ty(m["recv"]) or "").startswith("std::option::Option<"):
                conds.add(("is(%s|std::prelude::v1::Some)" % norm_field(cx.canon(m["recv"]), pname), True))
            else:
                flow_ok, why = False, "closure passed to `%s`" % (callee_of(m) if m else "?")
        elif k == "Block":
            if b.role[child["_i"]] != "tail":
                flow_ok, why = False, "the check is not the value of its block"
        elif k == "MCall":
            if not (a["name"] in ("map", "and_then") and b.role[child["_i"]] != "recv"):
                flow_ok, why = False, "value passes through `.%s(..)`" % a["name"]
        elif k == "Call":
            if not a.get("ctor", "").endswith("::Some"):
                flow_ok, why = False, "value passes through `%s(..)`" % callee_of(a)
        elif k not in ("If", "Match"):
            flow_ok, why = False, "value passes through a %s" % k
        child = a
    inside_site = {x["_i"] for x in b.walk(site)}
    for x in b.walk(clo["body"]):
        if x["k"] == "Try" and x["_i"] not in inside_site:
            conds.add(("is(%s|std::prelude::v1::Some)" % norm_field(cx.canon(x["e"]), pname), True))
    rep.check(flow_ok, "fields:%s:%s:value-flow" % (who, form),
              "the offset check is the closure's result for a qualifying field%s" % (": " + why if why else ""), b.loc(site))
    # the closure's result is the filter_map verdict itself
    tail = strip(clo["body"])
    while tail["k"] == "Block" and tail.get("tail") is not None:
        tail = strip(tail["tail"])
    rep.check(any(a is tail or x is tail for x in [site] for a in b.ancestors(site)) or tail is site,
              "fields:%s:%s:result-is-check" % (who, form), "the closure's tail expression carries the check", b.loc(clo))
    dm = "is(cparam:%s|ir::comp::Field::DataMember)" % pname
    expected = {
        "data-member": (dm, True),
        "named": ("is(FIELD.ir::comp::FieldData::name|std::prelude::v1::Some)", True),
        "has-offset": ("is(FIELD.ir::comp::FieldData::offset|std::prelude::v1::Some)", True),
    }
    # `FIELD` only normalises once the DataMember destructuring is spelled in one of the three known ways
    for name, lit in sorted(expected.items()):
        rep.check(lit in conds, "fields:%s:%s:cond:%s" % (who, form, name), "per-field check requires `%s`" % name, b.loc(site))
    for a, pol in sorted(conds - set(expected.values())):
        rep.bad("fields:%s:%s:extra-filter:%s%s" % (who, form, "" if pol else "!", short_atom(a)),
                "fields are additionally filtered by %s%s — named data members with an offset lose their offset assertion"
                % ("" if pol else "!", a), b.loc(site))


# =====================================================================================================
# R6.3
# =====================================================================================================
@RULES.rule("R6.3", "asserted numbers are the item's own layout.size / layout.align / field offset / 8", floor=32)
def r6_3(rep):
    """Necessary: the asserted numbers are clang's for this very item.
    Breaks on e.g. `let size = layout.size.max(1)`, `let field_offset = offset / 8 + 1`, swapping `#size` and `#align`
    in one form, measuring `size_of::<#other>()`, or taking the layout of a different item (`ctx.resolve_item(..)`)."""
    prog = rep.prog
    for self_ty in (COMP, INST):
        b = gen_fn(rep, self_ty)
        cx = Ctx(prog, b)
        who = SHORT[self_ty]
        ws, _ = wrappers(cx)
        for form in ("const", "test"):
            if form not in ws:
                rep.bad("prov:%s:%s" % (who, form), "wrapper missing", b.loc(b.root))
                continue
            root, items = ws[form]
            fs = cx.guard_formulas(root)
            checks = []
            for ex in expand(cx, root, fs):
                checks += [(c, None, None) for c in find_checks(strip_reps(ex))]
            if self_ty == COMP:
                for pf in per_field(cx, items, fs):
                    for conds, e in pf.get("alts", []):
                        _, clos, _ = chain_of(b, strip(e))
                        for nm, clo in clos:
                            if nm != "filter_map":
                                continue
                            for r in quote_roots(b, clo["body"]):
                                rfs = cx.guard_formulas(r)
                                if satisfiable(fs + conds + rfs):
                                    for ex in expand(cx, r, fs + conds + rfs):
                                        checks += [(c, clo, r) for c in find_checks(ex)]
            seen = {}
            uniq = set()
            for c, clo, site in checks:
                ident = (c["kind"], c["form"], tuple(x.get("_i") for x in c["interps"]), tuple(t[1].get("_i") if t[0] == "i" else t[1] for t in c["num"]))
                if ident in uniq:
                    continue  # the same statement seen in another expansion alternative
                uniq.add(ident)
                kind = c["kind"]
                seen[kind] = seen.get(kind, 0) + 1
                key = "prov:%s:%s:%s%s" % (who, form, kind, "" if seen[kind] == 1 else "#%d" % seen[kind])
                loc = b.loc(site if site is not None else root)
                rep.check(c["clean"], key + ":shape",
                          "check is exactly `<measure> %s #n` with no further arithmetic in the emitted tokens"
                          % ("-" if form == "const" else ","), loc)
                num = c["num"][0][1] if len(c["num"]) == 1 and c["num"][0][0] == "i" else None
                if num is None:
                    rep.bad(key + ":number", "the expected value is not a single interpolated number", loc)
                elif kind in ("size", "align"):
                    s = cx.canon(num, 10)
                    suffix = "~std::prelude::v1::Some.0.ir::layout::Layout::" + kind
                    ok = s.endswith(suffix) and own_layout_ok(s[:-len(suffix)])
                    rep.check(ok, key + ":number", "%s_of is compared with `layout.%s` of the item's own `Type::layout(ctx)` (got %s)"
                              % (kind, kind, s[:160]), loc)
                elif kind == "offset":
                    offset_number(rep, cx, key, num, clo, loc)
                else:
                    rep.bad(key + ":number", "unrecognised check", loc)
                # measured type / field
                if c["ty"] is not None:
                    t = cx.canon(c["ty"], 10)
                    own = "ITEM" in t and not re.search(r"resolve_item|resolve_type|cparam:|elem\(|local:", t)
                    rep.check(own, key + ":measured-type", "the measured Rust type is derived from this item only (%s)" % t[:120], loc)
                elif not (kind == "offset" and form == "test"):
                    rep.bad(key + ":measured-type", "cannot find the measured type in the check", loc)
                if kind == "offset" and clo is not None and closure_param(clo) is not None:
                    pname = closure_param(clo)["name"]
                    f = norm_field(cx.canon(c["field"], 10), pname) if c["field"] is not None else "?"
                    rep.check(f == "ir::context::BindgenContext::rust_ident(CTX, FIELD.ir::comp::FieldData::name?)" or
                              f == "ir::context::BindgenContext::rust_ident(CTX, FIELD.ir::comp::FieldData::name~std::prelude::v1::Some.0)",
                              key + ":measured-field", "the measured member is the same field's name (%s)" % f[:120], loc)
    # the getter the offsets come from is the stored number
    g = prog.getters().get("<ir::comp::FieldData as ir::comp::FieldMethods>::offset")
    rep.check(g == ("ir::comp::FieldData", "offset"), "prov:FieldData::offset-getter",
              "`FieldData::offset()` returns the stored `offset` unchanged")


def offset_number(rep, cx, key, num, clo, loc):
    b = cx.b
    pname = closure_param(clo)["name"] if clo is not None and closure_param(clo) is not None else "?"
    e = num
    if e["k"] == "Local":
        init = b.local_init(e["id"])
        e = strip(init) if init is not None else e
    ok = e["k"] == "Binary" and e["op"] == "/" and strip(e["r"]).get("k") == "Lit" and strip(e["r"]).get("v") == 8
    src = "?"
    if ok:
        l = strip(e["l"])
        ok = False
        if l["k"] == "Local":
            d = b.local_def.get(l["id"])
            if d and d[0][0] == "cparam" and not d[1]:
                m = b.parent[d[0][1]["_i"]]
                if m is not None and m["k"] == "MCall" and m["name"] == "map" and (b.ty(m["recv"]) or "") == "std::option::Option<usize>":
                    src = norm_field(cx.canon(m["recv"]), pname)
            else:
                src = norm_field(cx.canon(l), pname)
                src = re.sub(r"(\?|~std::prelude::v1::Some\.0)$", "", src)
            ok = src == "FIELD.ir::comp::FieldData::offset"
    rep.check(ok, key + ":number", "offset is compared with `offset / 8` of the same field's `FieldData::offset()` (got %s; source %s)"
              % (cx.canon(num)[:100], src[:100]), loc)


# =====================================================================================================
# R6.4 (added): the stored offset is libclang's number
# =====================================================================================================
@RULES.rule("R6.4", "FieldData::offset is clang_Cursor_getOffsetOfField of the member, stored unmodified", floor=6)
def r6_4(rep):
    """Necessary: the number divided by 8 in the offset assertion is the one libclang reported.
    Breaks on e.g. `let offset = cur.offset_of_field().ok().map(|o| o & !7)` in CompInfo::from_ty, an assignment to
    `field.offset` in a later pass, or `Ok(offset as usize / 8)` in Cursor::offset_of_field."""
    prog = rep.prog
    FD = "ir::comp::FieldData"
    lits = []
    news = []
    for path, b in prog.bodies.items():
        for n in b.nodes:
            k = n["k"]
            if k == "Struct" and n.get("adt") == FD:
                lits.append((b, n))
            elif k == "Call" and callee_of(n) == "ir::comp::RawField::new":
                news.append((b, n))
            elif k in ("Assign", "AssignOp"):
                l = strip(n["l"])
                if l["k"] == "Field" and l.get("adt") == FD and l["f"] == "offset":
                    rep.bad("stored-offset:assigned@" + path, "`FieldData::offset` is overwritten after construction", b.loc(n))
    rep.need(lits, "a struct literal of ir::comp::FieldData")
    rep.need(news, "a call of ir::comp::RawField::new")
    ctor = None
    for b, n in lits:
        fe = [f["e"] for f in n["fs"] if f["f"] == "offset"]
        fn = b.path.split("::")[-2] + "::" + b.path.split("::")[-1]
        if b.fact.get("impl_trait") == "std::clone::Clone":
            continue
        s = b.canon(fe[0]) if fe else "<missing>"
        ok = s.startswith("param:")
        if ok:
            ctor = (b, [i for i, p in enumerate(b.params) if p.get("name") == s[6:]])
        rep.check(ok, "stored-offset:ctor@" + fn, "constructor stores its `offset` argument unchanged (%s)" % s, b.loc(n))
    if not ctor or not ctor[1] or ctor[0].path != "ir::comp::RawField::new":
        rep.bad("stored-offset:ctor-is-RawField::new", "FieldData is constructed somewhere else than RawField::new")
        return
    idx = ctor[1][0]
    GOOD = re.compile(r"^std::result::Result::<T, E>::ok\(clang::Cursor::offset_of_field\((cparam|param|local):[A-Za-z_0-9]+\)\)$")
    seen = {}
    for b, n in news:
        fn = b.path.split("::")[-1]
        seen[fn] = seen.get(fn, 0) + 1
        key = "stored-offset:RawField::new@%s#%d" % (fn, seen[fn])
        a = n["args"][idx]
        srcs = value_sources(b, a)
        bad = [s for s in srcs if not GOOD.match(s) and s != "std::prelude::v1::None"]
        rep.check(bool(srcs) and not bad, key, "offset argument is `cur.offset_of_field().ok()` (sources: %s)"
                  % ", ".join(sorted(set(x[:90] for x in srcs))), b.loc(n))
    # Cursor::offset_of_field returns the FFI value
    ob = rep.need(prog.fn("clang::Cursor::offset_of_field"), "clang::Cursor::offset_of_field")
    oks = [n for n in ob.nodes if n["k"] == "Call" and n.get("ctor", "").endswith("::Ok")]
    rep.check(len(oks) >= 1 and all(ob.canon(n["args"][0]) == "clang_sys::clang_Cursor_getOffsetOfField(param:self.clang::Cursor::x)" for n in oks),
              "stored-offset:offset_of_field-is-ffi", "Ok(..) carries clang_Cursor_getOffsetOfField(self.x) unchanged (%s)"
              % ", ".join(ob.canon(n["args"][0])[:80] for n in oks), ob.loc(ob.root))


def value_sources(b, e, depth=0):
    """canon strings of everything expression `e` can evaluate to, following immutable locals, tuple/Some pattern
    projections out of a mutable local (all its initialiser/assignments) and `.take()`."""
    e = strip(e)
    if e["k"] != "Local" or depth > 4:
        return [b.canon(e, 10)]
    d = b.local_def.get(e["id"])
    if d is None:
        return [b.canon(e, 10)]
    origin, path, pat = d
    if origin[0] == "let" and not path and e["id"] not in b.local_assigned and origin[1].get("init") is not None:
        return value_sources(b, origin[1]["init"], depth + 1)
    if not path:
        return [b.canon(e, 10)]
    # pattern projection: find the scrutinee
    scrut = {"let": lambda o: o[1].get("init"), "letcond": lambda o: o[1]["init"], "arm": lambda o: o[1]["scrut"]}.get(origin[0], lambda o: None)(origin)
    if scrut is None:
        return [b.canon(e, 10)]
    s = strip(scrut)
    while s["k"] == "MCall" and s["name"] in ("take", "as_ref", "clone"):
        s = strip(s["recv"])
    if s["k"] != "Local":
        return [b.canon(e, 10)]
    # every value ever stored in that local
    stored = []
    sd = b.local_def.get(s["id"])
    if sd and sd[0][0] == "let" and sd[0][1].get("init") is not None:
        stored.append(sd[0][1]["init"])
    for n in b.nodes:
        if n["k"] == "Assign" and strip(n["l"]).get("k") == "Local" and strip(n["l"])["id"] == s["id"]:
            stored.append(n["r"])
    out = []
    for v in stored:
        v = strip(v)
        # project along the pattern path
        ok = True
        for adt, f in path:
            if v["k"] == "Path" and v.get("def", "").endswith("::None"):
                v = None
                break
            if v["k"] == "Call" and v.get("ctor") and adt and v["ctor"] == adt:
                v = strip(v["args"][int(f)])
            elif v["k"] == "Tup" and adt == "tuple":
                v = strip(v["es"][int(f)])
            else:
                ok = False
                break
        if v is None:
            out.append("std::prelude::v1::None")
        elif not ok:
            out.append("<unprojectable>" + b.canon(v, 6))
        else:
            out += value_sources(b, v, depth + 1)
    return out or [b.canon(e, 10)]


# ---------------------------------------------------------------------------------------------------------
# R6.5  the numbers are the selected target's: libclang's default target is used only for the host triple itself
# ---------------------------------------------------------------------------------------------------------
@RULES.rule("R6.5", "clang lays records out for the selected target: `--target=` is forced unless the triple IS the host's", floor=2)
def r6_5(rep):
    """Necessary: every asserted number comes from libclang, which computes it for the target it was given.  `Bindings::generate`
    leaves the target to libclang's default only for a host build; that test has to compare whole triples — comparing the
    architecture only (`x86_64-unknown-linux-gnu` vs `TARGET=x86_64-pc-windows-msvc`) asserts size 48 / offsets 8,16,32 for
    `struct S { char c; long l; long double ld; void *p; }` where the selected target has 24 / 4,8,16."""
    from hir import strip as _strip
    prog = rep.prog
    g = rep.need(prog.fn("Bindings::generate"), "Bindings::generate")
    # the insertion of `--target=<effective target>`
    ins = []
    for c in g.calls(lambda n: n["k"] == "MCall" and n["name"] in ("insert", "push")):
        txt = " ".join(str(x.get("v")) for x in g.walk(c) if x["k"] == "Lit" and isinstance(x.get("v"), str))
        if "--target=" in txt:
            ins.append(c)
    rep.need(ins, "insertion of `--target=..` into the clang arguments in Bindings::generate")
    eff = [n for n in g.nodes if n["k"] == "Let" and _strip(n.get("init") or {}).get("k") == "Call" and
           (_strip(n["init"]).get("callee") or "").endswith("find_effective_target")]
    rep.need(eff, "`find_effective_target(&options.clang_args)` in Bindings::generate")
    for c in ins:
        conds = [(pol, gg) for pol, kind, gg in g.guards(c) if kind == "cond"]
        host = []
        for pol, gg in conds:
            for x in g.walk(gg):
                if x["k"] == "Local":
                    init = g.local_init(x["id"])
                    if init is not None and any(y["k"] == "Path" and y.get("def") == "HOST_TARGET" for y in g.walk(init)):
                        host.append((x, _strip(init)))
                elif x["k"] == "Path" and x.get("def") == "HOST_TARGET":
                    host.append((x, _strip(gg)))
        rep.check(bool(host), "target-forced-unless-host", "the insertion is guarded by a comparison with HOST_TARGET", g.loc(c))
        for x, e in host:
            while e.get("k") == "Unary" and e.get("op") == "!":
                e = _strip(e["e"])
            ok = e.get("k") == "Binary" and e["op"] in ("==", "!=")
            detail = g.canon(e, 4)[:140]
            if ok:
                def whole(side):
                    side = _strip(side)
                    if side.get("k") == "Local":
                        d = g.local_def.get(side["id"])
                        return bool(d) and d[0][0] == "let" and d[0][1] in eff        # a component of find_effective_target's result
                    if side.get("k") == "Call" and (side.get("callee") or "").endswith("rust_to_clang_target"):
                        a = _strip(side["args"][0])
                        return a.get("k") == "Path" and a.get("def") == "HOST_TARGET"
                    return False
                ok = (whole(e["l"]) and whole(e["r"]))
            rep.check(ok, "host-test-compares-whole-triples", "`%s`%s" % (detail, "" if ok else
                      ": not an (in)equality of the whole host triple and the whole effective triple — a target that differs from the host "
                      "only in OS / environment / vendor is laid out with the host's data model"), g.loc(x))


# ---------------------------------------------------------------------------------------------------------
# R6.6  what makes an instantiation "not concrete" in non-recursive mode: its own parameters only
# ---------------------------------------------------------------------------------------------------------
@RULES.rule("R6.6", "non-recursive allowlisting: an item is only said to use its own template parameters", floor=2)
def r6_6(rep):
    """Necessary: `TemplateInstantiation::codegen` skips the size/alignment assertion when the instantiation uses a template
    parameter (`uses_any_template_parameters`).  Without recursive allowlisting the usage map is filled by hand; filling it with
    every parameter in scope (`all_template_params`) says that `Foo<int>`, a member of `template<class U> struct Outer`, uses `U`:
    `Foo<c_int>` appears in the bindings without its assertion."""
    prog = rep.prog
    f = rep.need(prog.fn("ir::context::BindgenContext::find_used_template_parameters"), "BindgenContext::find_used_template_parameters")
    ent = [c for c in f.calls(lambda n: n["k"] == "MCall" and n["name"] in ("or_insert_with", "or_insert", "insert"))
           if not (f.ty(c["recv"]) or "").startswith("std::collections::BTreeSet")]
    hand = [c for c in ent if any(pol is False and kind == "cond" and "allowlist_recursively" in f.canon(gg) for pol, kind, gg in f.guards(c))]
    rep.need(hand, "the hand-filled usage map of the `!allowlist_recursively` branch")
    for c in hand:
        key = None
        r = strip(c["recv"])
        if c["name"] == "insert":
            key = strip(c["args"][0])
            val = c["args"][1]
        else:
            key = strip(r["args"][0]) if r.get("k") == "MCall" and r.get("name") == "entry" else None
            val = c["args"][0]
        srcs = [x for x in f.walk(val) if x["k"] == "MCall" and "TemplateParameters" in (x.get("callee") or x.get("resolved") or "")]
        names = sorted({x["name"] for x in srcs})
        same = bool(srcs) and key is not None and all(f.canon(x["recv"]) == f.canon(key) for x in srcs)
        rep.check(names == ["self_template_params"] and same, "fallback-usage-is-own-params",
                  "usage[id] = id.self_template_params()" if names == ["self_template_params"] and same else
                  "usage[%s] is filled from %s of %s: parameters of enclosing templates count as used by everything declared inside them"
                  % (f.canon(key) if key else "?", names or "?", sorted({f.canon(x["recv"]) for x in srcs})), f.loc(c))
    # the gate itself
    ti = [b for p, b in prog.bodies.items() if "TemplateInstantiation" in p and p.endswith("::codegen")]
    rep.need(ti, "TemplateInstantiation::codegen")
    gate = [c for b in ti for c in b.calls(lambda n: n["k"] == "MCall" and n["name"] == "uses_any_template_parameters")]
    rep.check(bool(gate), "instantiation-gate-present", "the assertion is skipped through BindgenContext::uses_any_template_parameters", ti[0].loc(ti[0].root))


@RULES.rule("R6.7", "the \"uses a template parameter\" sets only ever receive template parameters", floor=4)
def r6_7(rep):
    """`TemplateInstantiation::codegen` skips the size/alignment assertion when `uses_any_template_parameters(item)`, i.e. when the
    item's set in the used-template-parameters analysis is not empty.  The sets therefore have to hold template PARAMETERS only:
    every insertion is either the item itself under the `TypeKind::TypeParam` arm or elements of another item's set.  Inserting a
    template ARGUMENT as such (`Some(a).into_iter().chain(..)` for a blocklisted template) puts `int` into the set of
    `Holder<Vec<int>>`, which then counts as non-concrete and silently loses its assertion."""
    from hir import pat_variants as _pv
    prog = rep.prog
    bodies = [b for p, b in prog.bodies.items() if "ir::analysis::template_params::UsedTemplateParameters" in p and
              (b.fact.get("impl_self") or "").startswith("ir::analysis::template_params::UsedTemplateParameters")]
    rep.need(bodies, "methods of UsedTemplateParameters")
    n = 0
    for b in sorted(bodies, key=lambda x: x.path):
        for c in b.nodes:
            if c["k"] != "MCall" or c.get("name") not in ("insert", "extend"):
                continue
            rty = (b.ty(c["recv"]) or "").replace("&mut ", "").replace("&", "")
            if not (rty.endswith("ItemSet") or rty == "std::collections::BTreeSet<ir::context::ItemId>"):
                continue
            if b.path.endswith("::new") or "take_this_id_usage_set" in b.path:
                continue
            # the usage sets are handled by `constrain` and its `constrain_*` helpers only; other ItemSets of the analysis (the node
            # set computed for `new` / `initial_worklist`) are not usage sets.  The floor below fails closed if that ever changes.
            if not b.path.split("::")[-1].startswith("constrain"):
                continue
            n += 1
            fn = b.path.split("::")[-1]
            arg = c["args"][0]
            # everything the inserted value is made of
            srcs, todo, seen = [], [arg], set()
            while todo:
                e = todo.pop()
                srcs.append(e)
                for x in b.walk(e):
                    if x["k"] == "Local" and x["id"] not in seen:
                        seen.add(x["id"])
                        d = b.local_def.get(x["id"])
                        if d and d[0][0] in ("let", "letcond") and d[0][1].get("init") is not None:
                            todo.append(d[0][1]["init"])
            text = " ".join(b.canon(e, 10) for e in srcs) + " " + " ".join(b.canon(x, 6) for e in srcs for x in b.walk(e) if x["k"] in ("MCall", "Field"))
            if c["name"] == "insert":
                from hir import pat_str as _ps
                under_tp = any(kind == "arm" and "TypeKind::TypeParam" in _ps(g[0]["arms"][g[1]]["pat"]) and "|" not in _ps(g[0]["arms"][g[1]]["pat"])
                               for pol, kind, g in b.guards(c))
                ok = under_tp
                how = "the item itself, under the TypeKind::TypeParam arm" if ok else "`%s` outside a TypeParam arm" % b.canon(arg, 3)[:50]
            else:
                from_sets = "UsedTemplateParameters::used" in text and ("::get(" in text or "get(" in text)
                # anything chained in front of / beside the other set's elements
                foreign = [x for e in srcs for x in b.walk(e) if x["k"] == "MCall" and x.get("name") in ("chain", "once", "push") or
                           (x["k"] == "Call" and str(x.get("ctor") or x.get("callee") or "").endswith("::Some") and
                            any(a["k"] == "MCall" and a.get("name") in ("into_iter", "chain") for a in b.ancestors(x)))]
                ok = from_sets and not foreign
                how = "elements of other items' sets" if ok else ("elements of other sets plus `%s`" % b.canon(foreign[0], 3)[:50] if foreign and from_sets
                                                                  else "`%s`" % b.canon(arg, 3)[:60])
            rep.check(ok, "used-set-insert:%s#%d" % (fn, n), "inserts %s" % how if ok else
                      "inserts %s: something that is not a template parameter enters a set whose non-emptiness means \"not concrete\"" % how, b.loc(c))
    rep.need(n >= 4, "insertions into used-template-parameter sets (constrain_* and constrain)")


# ---------------------------------------------------------------------------------------------------------
# R6.8 / R6.9  the numbers that end up in the assertions are libclang's, for that very type
# ---------------------------------------------------------------------------------------------------------
@RULES.rule("R6.8", "the layout stored with a type is libclang's answer for it, never withdrawn or replaced", floor=1)
def r6_8(rep):
    """Size and alignment assertions are emitted for every type that carries a layout (R6.2) and use exactly that layout (R6.3).
    `Type::from_clang_ty` obtains it once, from `ty.fallible_layout(ctx)`, and passes it to `Type::new`.  Clearing it for some kinds of
    type ("we do not know the layout of an explicit specialization") silently removes the assertion of an instantiation that is still
    named in the bindings (seeded change); replacing it would assert something else than clang computed."""
    prog = rep.prog
    b = rep.need(prog.fn("ir::ty::Type::from_clang_ty"), "Type::from_clang_ty")
    news = [c for c in b.calls(lambda x: x["k"] == "Call" and (x.get("callee") or "") == "ir::ty::Type::new" and len(x["args"]) == 4)]
    rep.need(news, "Type::new(name, layout, kind, is_const)")
    for k, c in enumerate(news):
        a = strip(c["args"][1])
        ok = False
        why = b.canon(a, 4)[:80]
        if a.get("k") == "Local":
            init = b.local_init(a["id"])
            assigned = a["id"] in b.local_assigned
            from_clang = init is not None and "clang::Type::fallible_layout" in b.canon(init, 6)
            ok = from_clang and not assigned
            why = "`%s`%s" % (b.canon(init, 4)[:70] if init is not None else "?", ", later reassigned" if assigned else "")
        rep.check(ok, "layout-from-clang%s" % ("" if k == 0 else "#%d" % k), "the layout is " + why if ok else
                  "the layout handed to Type::new is %s: the type keeps being named in the bindings but its size/alignment assertion "
                  "disappears or checks other numbers" % why, b.loc(c))


@RULES.rule("R6.9", "`fallible_layout` asks libclang about the type at hand, every time", floor=3)
def r6_9(rep):
    """`clang::Type::fallible_layout` is `Layout::new(self.fallible_size(ctx)?, self.fallible_align(ctx)?)`.  Remembering the answer
    under a key needs a key that identifies the type; unnamed records share their USR, and records produced by one macro expansion also
    share their location, so a cache keyed that way hands the first record's size to the second (seeded change: `struct { long w[2]; }`
    asserted as size 3).  The two numbers must come from `self`, and the computation must not be handed to another function of the
    crate as a closure."""
    prog = rep.prog
    b = rep.need(prog.fn("clang::Type::fallible_layout"), "clang::Type::fallible_layout")
    mk = [c for c in b.calls(lambda x: x["k"] == "Call" and (x.get("callee") or "").endswith("layout::Layout::new"))]
    rep.need(mk, "Layout::new in fallible_layout")
    for c in mk:
        s0, s1 = b.canon(c["args"][0], 8), b.canon(c["args"][1], 8)
        ok = "clang::Type::fallible_size(param:self" in s0 and "clang::Type::fallible_align(param:self" in s1
        rep.check(ok, "numbers-of-self", "Layout::new(self.fallible_size(..)?, self.fallible_align(..)?)" if ok else
                  "size / alignment come from `%s` / `%s`" % (s0[:60], s1[:60]), b.loc(c))
        clo = [a for a in b.ancestors(c) if a["k"] == "Closure"]
        bad = None
        for cl in clo:
            p = b.parent[cl["_i"]]
            while p is not None and p["k"] not in ("Call", "MCall"):
                p = b.parent[p["_i"]]
            cal = (p.get("resolved") or p.get("callee") or "") if p is not None else ""
            if not cal.startswith(("std::", "core::", "alloc::")):
                bad = cal or "?"
        rep.check(bad is None, "asked-every-time", "computed in place" if bad is None else
                  "the query is a closure given to `%s`, which decides whether libclang is asked at all: two types that share its key share "
                  "one layout" % bad, b.loc(c))
    tail = strip(b.root.get("tail") or {})
    direct = tail.get("k") == "Call" and (tail.get("callee") or tail.get("ctor_of") or "").endswith("Ok") and \
        any(x is mk[0] for x in b.walk(tail))
    rep.check(direct, "result-is-the-query", "the result is `Ok(Layout::new(..))`" if direct else
              "the function's result is `%s`, not the layout it just computed" % b.canon(tail, 3)[:80], b.loc(b.root))


FALLBACK_LAYOUT_ARMS = {
    # kind -> what the fallback may be computed from when libclang recorded nothing
    "Comp": "the record's own members (CompInfo::layout)",
    "Array": "a zero-length array: size 0, the element's alignment",
    "Pointer": "the target's pointer size",
    "ResolvedTypeRef": "the very type the reference resolves to",
}


@RULES.rule("R6.10", "a type without a recorded layout never borrows the layout of a different type", floor=4)
def r6_10(rep):
    """`Type::layout` returns libclang's numbers when they were recorded; otherwise a few kinds have a fallback computed from the type
    itself.  Every instantiation gets a size / alignment assertion from whatever this accessor returns (R6.2, R6.3).  A fallback that
    forwards an instantiation to its template DEFINITION asserts numbers that are not libclang's and not the instantiation's
    (`CompInfo::layout` of a union template skips members of type `T`): `Slot<Big>` was asserted as size 1 in a seeded change.  The set
    of kinds with a fallback is frozen with the reason for each."""
    from hir import pat_variants as _pv
    prog = rep.prog
    b = rep.need(prog.fn("ir::ty::Type::layout"), "ir::ty::Type::layout")
    ms = [m for m in b.walk() if m["k"] == "Match" and "Type::kind" in b.canon(m["scrut"], 3)]
    rep.need(ms, "the match over the kind in Type::layout")
    for a in ms[0]["arms"]:
        vs = {v.split("::")[-1] for v in _pv(a["pat"])}
        body = b.canon(a["body"], 3)
        is_none = body.split("::")[-1] == "None"
        for k in sorted(vs):
            if k == "_":
                rep.check(is_none, "layout-fallback:catch-all", "every other kind has no layout unless libclang recorded one", b.loc(a["body"]))
                continue
            ok = k in FALLBACK_LAYOUT_ARMS or is_none
            rep.check(ok, "layout-fallback:" + k, FALLBACK_LAYOUT_ARMS.get(k, "no fallback") if ok else
                      "`TypeKind::%s` gets a fallback layout `%s` although libclang recorded none for it: assertions for such types then check "
                      "numbers that belong to another type" % (k, body[:80]), b.loc(a["body"]))


@RULES.rule("R6.11", "a type item made for a use is located where it is used", floor=1)
def r6_11(rep):
    """`--blocklist-file` / `--allowlist-file` match the location stored with an item.  The items `Item::from_ty_with_id` makes for
    template instantiations exist so that the instantiation's layout assertion can be emitted; they carry the location of the cursor
    that USES the type.  Giving them the location of the type's declaration (the implicit specialisation sits in the template's header)
    makes `--blocklist-file '.*tmpl\\.hpp'` swallow the assertions of `Pair<int>` while `Pair<c_int>` is still named (seeded change)."""
    prog = rep.prog
    b = rep.need(prog.fn("ir::item::Item::from_ty_with_id"), "Item::from_ty_with_id")
    locp = next((p_ for p_ in b.params if p_.get("name") == "location" or "clang::Cursor" in (prog.types[p_["t"]] if p_.get("t") is not None else "")), None)
    rep.need(locp, "the cursor parameter of Item::from_ty_with_id")
    news = [c for c in b.calls(lambda x: x["k"] == "Call" and (x.get("callee") or "").endswith("item::Item::new"))]
    rep.need(news, "Item::new in from_ty_with_id")
    n = 0
    for c in news:
        for a in c["args"]:
            if "SourceLocation" not in (b.ty(a) or ""):
                continue
            n += 1
            src = b.canon(a, 8)
            for x in b.walk(a):
                if x["k"] == "Local" and b.local_init(x["id"]) is not None and x["id"] != locp.get("id"):
                    src += " " + b.canon(b.local_init(x["id"]), 8)
            ok = "clang::Cursor::location(param:%s)" % locp.get("name") in src and "declaration" not in src
            rep.check(ok, "item-located-at-use", "`Some(location.location())`" if ok else
                      "the item's location is `%s`: file-based block/allowlisting then treats the use like the declaration" % src[:90], b.loc(a))
    rep.need(n >= 1, "the SourceLocation argument of Item::new")
