"""Shared model of bindgen's IR edge enumeration (`Trace` impls) for C07 / C09 / C10.

* storage *sites*: where an item id lives (`ir::comp::Base.ty`, `ir::ty::TypeKind::Alias.0`,
  `ir::template::TemplateInstantiation.args[]`, `call:<fn>[]` for computed collections);
* *emissions*: every `Tracer::visit_kind/visit` call with its site(s) and EdgeKind;
* *world evaluation*: which emissions are reached from a starting call under an assumption
  about the traced item (opaque or not, which `TypeKind` variant), following `Trace::trace`
  calls and local helper functions through the resolved call graph and evaluating the guard
  chains (`is_opaque`, `should_be_traced_unconditionally`, matches on the type kind) on the way.
"""
from hir import strip, pat_variants

TRACER = "ir::traversal::Tracer"
TRACE_TRAIT = "ir::traversal::Trace"
EDGEKIND = "ir::traversal::EdgeKind::"
TYPEKIND = "ir::ty::TypeKind::"
ADAPTORS = {"iter", "iter_mut", "into_iter", "any", "all", "map", "filter", "filter_map", "for_each", "find", "flat_map",
            "copied", "cloned", "zip", "enumerate", "chain", "rev", "skip", "take", "position", "fold", "find_map", "by_ref", "peekable"}


PASSTHRU = {"iter", "iter_mut", "into_iter", "copied", "cloned", "filter", "rev", "skip", "take", "by_ref", "peekable",
            "chain", "skip_while", "take_while"}


def callee_of(n):
    return n.get("resolved") or n.get("callee") or ""


def is_range_index(body, n):
    t = body.ty(n["idx"]) or ""
    return t.startswith("std::ops::Range") or t.startswith("core::ops::Range")


def accessor_site(prog, callee, depth=3):
    """site returned by a trivial accessor method (`fn ty(&self) -> TypeId { self.data.ty() }`), else None."""
    b = prog.fn(callee)
    if b is None or depth <= 0 or len(b.params) != 1:
        return None
    r = b.root
    if r["k"] != "Block" or r["stmts"] or r.get("tail") is None:
        return None
    s = sites(b, r["tail"], depth - 1, accessor=True)
    if s and all(not x.startswith(("param:", "call:", "?")) for x in s):
        return s
    return None


def sites(body, n, depth=6, accessor=False):
    """List of storage sites (alternatives) an id-valued expression reads."""
    prog = body.prog
    n = strip(n)
    k = n.get("k")
    if depth <= 0:
        return ["?"]
    if k == "Field":
        if "adt" in n:
            return ["%s.%s" % (n["adt"], n["f"])]
        # tuple field
        return [s + "." + n["f"] for s in sites(body, n["base"], depth - 1, accessor)]
    if k == "Index":
        base = sites(body, n["base"], depth - 1, accessor)
        return base if is_range_index(body, n) else [s + "[]" for s in base]
    if k in ("MCall", "Call"):
        callee = callee_of(n)
        if k == "MCall" and not n["args"]:
            a = accessor_site(prog, callee)
            if a:
                rs = sites(body, n["recv"], depth - 1, accessor)
                if rs and all(r.startswith(("call:", "?")) for r in rs):
                    return ["call:" + callee]  # a field of a computed value is not a storage site of this item
                return a
            if n["name"] in ("unwrap", "expect", "unwrap_or_default", "as_ref", "get"):
                return sites(body, n["recv"], depth - 1, accessor)
        if k == "MCall" and n["name"] in ("unwrap", "expect") and len(n["args"]) <= 1:
            return sites(body, n["recv"], depth - 1, accessor)
        return ["call:" + callee]
    if k == "Local":
        d = body.local_def.get(n["id"])
        if d is None:
            return ["?"]
        origin, path, pat = d
        alts = body.local_alts.get(n["id"], [path])
        o = origin[0]

        def with_path(base_sites):
            out = []
            for p in alts:
                if not p:
                    out += base_sites
                    continue
                res, f = p[-1]
                if res == "tuple":
                    out += [s + "." + f for s in base_sites]
                elif res in ("std::prelude::v1::Some", "std::option::Option::Some", "std::prelude::v1::Ok"):
                    # Some(x): the site is that of the scrutinee (plus preceding path)
                    if len(p) >= 2 and p[-2][0] not in ("tuple",):
                        out.append("%s.%s" % p[-2])
                    else:
                        out += base_sites
                else:
                    out.append("%s.%s" % (res, f))
            return out

        if o == "let":
            init = origin[1].get("init")
            if init is None or n["id"] in body.local_assigned:
                return ["?"]
            return with_path(sites(body, init, depth - 1, accessor))
        if o == "param":
            if not path:
                return ["param:" + pat["name"]]
            return with_path(["param:%d" % origin[1]])
        if o == "arm":
            return with_path(sites(body, origin[1]["scrut"], depth - 1, accessor))
        if o == "letcond":
            return with_path(sites(body, origin[1]["init"], depth - 1, accessor))
        if o == "for":
            return with_path([s + "[]" for s in sites(body, origin[1]["iter"], depth - 1, accessor)])
        if o == "cparam":
            clo = origin[1]
            p = body.parent[clo["_i"]]
            if p is not None and p["k"] == "MCall" and p["name"] in ADAPTORS:
                r = p["recv"]
                while True:
                    r = strip(r)
                    if r["k"] == "MCall" and r["name"] in PASSTHRU:
                        r = r["recv"]
                    elif r["k"] == "MCall" and r["name"] in ADAPTORS:
                        # a transforming adaptor (map, filter_map, zip, ...): the element is computed
                        return ["call:" + r["name"]]
                    else:
                        break
                return with_path([s + "[]" for s in sites(body, r, depth - 1, accessor)])
            return with_path(["cparam:" + pat["name"]])
        return ["?"]
    if k == "Path":
        return ["path:" + n["def"]]
    return ["?"]


class Emission:
    __slots__ = ("body", "node", "sites", "kind")

    def __init__(self, body, node, sites_, kind):
        self.body = body
        self.node = node
        self.sites = sites_
        self.kind = kind


class TraceGraph:
    def __init__(self, prog):
        self.prog = prog
        self.emissions = {}  # body path -> [Emission]
        for p, b in prog.bodies.items():
            for c in b.calls(lambda n: n["k"] == "MCall" and n.get("trait") == TRACER and n["name"] in ("visit", "visit_kind")):
                if b.fact.get("in_trait") == TRACER or b.fact.get("impl_trait") == TRACER:
                    continue  # the default `visit` and the forwarding impls
                if c["name"] == "visit":
                    kind = "Generic"
                else:
                    a = strip(c["args"][1])
                    kind = a["def"][len(EDGEKIND):] if a["k"] == "Path" and a["def"].startswith(EDGEKIND) else "?"
                self.emissions.setdefault(p, []).append(Emission(b, c, sites(b, c["args"][0]), kind))
        # bodies through which a tracer is threaded: the `Trace::trace` impls, and helpers that take a
        # generic `&mut T` tracer and emit / forward it (e.g. CompInfo::trace_bases_and_fields)
        self.emitters = set()
        for p, b in prog.bodies.items():
            if b.fact.get("impl_trait") == TRACE_TRAIT:
                self.emitters.add(p)
                continue
            takes_tracer = any(prog.types[t] == "&mut T" for t in b.fact.get("inputs", []))
            if not takes_tracer:
                continue
            direct = p in self.emissions or any(c.get("trait") == TRACE_TRAIT for c in b.calls())
            if direct:
                self.emitters.add(p)
        self.uncond = self._uncond_set()

    def _uncond_set(self):
        b = self.prog.fn("ir::ty::Type::should_be_traced_unconditionally")
        if b is None:
            return None
        out = set()
        for n in b.walk():
            if n["k"] == "Match":
                for a in n["arms"]:
                    body = strip(a["body"])
                    if body.get("k") == "Lit" and body.get("v") is True:
                        out |= {v[len(TYPEKIND):] for v in pat_variants(a["pat"]) if v.startswith(TYPEKIND)}
        return out

    # ---- guard evaluation under a world ----------------------------------------------------
    def eval_cond(self, body, e, world):
        e = strip(e)
        k = e["k"]
        if k == "Unary" and e["op"] == "!":
            v = self.eval_cond(body, e["e"], world)
            return None if v is None else not v
        if k == "Binary" and e["op"] in ("&&", "||"):
            l = self.eval_cond(body, e["l"], world)
            r = self.eval_cond(body, e["r"], world)
            if e["op"] == "&&":
                if l is False or r is False:
                    return False
                return True if (l is True and r is True) else None
            if l is True or r is True:
                return True
            return False if (l is False and r is False) else None
        if k in ("MCall", "Call"):
            c = callee_of(e)
            if e.get("trait") == "ir::item::IsOpaque" or c.endswith("IsOpaque>::is_opaque") or c.endswith("IsOpaque::is_opaque"):
                # `Item::is_opaque` (also reached through ItemId / TypeId) is the user-visible notion: --opaque-type, the annotation,
                # or a type bindgen cannot represent.  The impls for Type / CompInfo / TemplateInstantiation only know the last one.
                op = world.get("opaque")
                res = str(e.get("resolved") or c)
                rt = (body.ty(e["recv"]) if e.get("k") == "MCall" else "") or ""
                type_level = any(("<%s as" % t) in res or rt.replace("&", "") == t
                                 for t in ("ir::ty::Type", "ir::comp::CompInfo", "ir::template::TemplateInstantiation"))
                if op in (True, False, None):
                    return op
                return (op == "type") if type_level else True
            if c.endswith("Type::should_be_traced_unconditionally") and self.uncond is not None and world.get("kind"):
                return world["kind"] in self.uncond
            return None
        if k == "LetCond":
            vs = {v for v in pat_variants(e["pat"])}
            tk = {v[len(TYPEKIND):] for v in vs if v.startswith(TYPEKIND)}
            if tk and world.get("kind"):
                return world["kind"] in tk
            return None
        if k == "Lit" and e.get("lk") == "bool":
            return e["v"]
        if k == "Local":
            init = body.local_init(e["id"])
            if init is not None:
                return self.eval_cond(body, init, world)
        return None

    def arm_possible(self, body, m, i, world):
        """Can arm i of match m be taken when the traced type has world['kind']?"""
        kind = world.get("kind")
        if not kind:
            return True
        full = TYPEKIND + kind
        arms = m["arms"]
        mentions = any(any(v.startswith(TYPEKIND) for v in pat_variants(a["pat"])) for a in arms)
        if not mentions:
            return True
        vs = pat_variants(arms[i]["pat"])
        if full in vs:
            return True
        if "_" in vs or "?" in vs:
            # catch-all: possible unless an earlier unguarded arm takes the variant
            for a in arms[:i]:
                if full in pat_variants(a["pat"]) and "guard" not in a:
                    return False
            return True
        if any(v.startswith(TYPEKIND) for v in vs):
            return False
        # `Some(TypeKind::X)` style patterns nest the variant: look one level down
        return self._nested_variant(arms[i]["pat"], full)

    def _nested_variant(self, p, full):
        k = p.get("k")
        if k in ("PStruct",):
            return any(self._pat_has(f["p"], full) for f in p["fs"])
        if k in ("PTupleStruct", "PTuple", "POr"):
            return any(self._pat_has(q, full) for q in p["ps"])
        if k in ("PRef",):
            return self._pat_has(p["p"], full)
        return False

    def _pat_has(self, p, full):
        vs = pat_variants(p)
        return full in vs or "_" in vs or self._nested_variant(p, full)

    def reachable_under(self, body, n, world):
        for pol, kind, payload in body.guards(n):
            if kind == "cond":
                v = self.eval_cond(body, payload, world)
                if v is not None and v != pol:
                    return False
            elif kind == "arm":
                m, i = payload
                if not self.arm_possible(body, m, i, world):
                    return False
        return True

    def emitted(self, body, world, within=None, _depth=0, _seen=None):
        """Emissions reached from the calls below `within` (default: whole body) under `world`.
        Returns list of (Emission, call path)."""
        out = []
        if _seen is None:
            _seen = set()
        if _depth > 8:
            return out
        for e in self.emissions.get(body.path, []):
            if within is not None and not self._below(body, e.node, within):
                continue
            if self.reachable_under(body, e.node, world):
                out.append(e)
        for c in body.calls(None, within):
            tgt = callee_of(c)
            if tgt in self.emitters and tgt in self.prog.bodies and tgt != body.path:
                if (tgt, _depth) in _seen:
                    continue
                if not self.reachable_under(body, c, world):
                    continue
                _seen.add((tgt, _depth))
                out += self.emitted(self.prog.bodies[tgt], world, None, _depth + 1, _seen)
        return out

    def _below(self, body, n, root):
        if n is root:
            return True
        return any(a is root for a in body.ancestors(n))


def edge_predicate(prog, body, expr, depth=3):
    """Evaluate an `fn(EdgeKind) -> bool` value (path to a fn, closure, or a call returning one of them
    per DeriveTrait variant) to {label: set of EdgeKind names accepted}."""
    e = strip(expr)
    k = e.get("k")
    if k == "Path" and e.get("dk") in ("Fn", "AssocFn"):
        b = prog.fn(e["def"])
        if b is None:
            return None
        return {"": _pred_body(prog, b, b.root, b.params[0] if b.params else None)}
    if k == "Closure":
        return {"": _pred_body(prog, body, e["body"], e["params"][0] if e["params"] else None)}
    if k in ("MCall", "Call") and depth > 0:
        b = prog.fn(callee_of(e))
        if b is None:
            return None
        # a selector: match self { Variant => pred, _ => pred }
        out = {}
        for n in b.walk():
            if n["k"] == "Match":
                for a in n["arms"]:
                    sub = edge_predicate(prog, b, a["body"], depth - 1)
                    if sub is None:
                        return None
                    for lab, s in sub.items():
                        out["/".join(sorted(v.split("::")[-1] for v in pat_variants(a["pat"]))) + lab] = s
                return out
        t = b.root.get("tail")
        return edge_predicate(prog, b, t, depth - 1) if t else None
    if k == "Local":
        init = body.local_init(e["id"])
        if init is not None:
            return edge_predicate(prog, body, init, depth)
    return None


ALL_EDGE_KINDS = None


def all_edge_kinds(prog):
    a = prog.adts.get("ir::traversal::EdgeKind")
    return [v["name"] for v in a["variants"]] if a else []


def _pred_body(prog, body, root, param):
    """Set of EdgeKind variants for which the predicate body yields true."""
    kinds = all_edge_kinds(prog)
    acc = set()
    r = strip(root)
    if r["k"] == "Block" and not r["stmts"] and r.get("tail"):
        r = strip(r["tail"])
    if r["k"] == "Match":
        taken = set()
        for a in r["arms"]:
            vs = pat_variants(a["pat"])
            names = {v[len(EDGEKIND):] for v in vs if v.startswith(EDGEKIND)}
            if "_" in vs:
                names = set(kinds) - taken
            val = strip(a["body"])
            if val.get("k") == "Lit" and val.get("v") is True:
                acc |= (names - taken)
            elif val.get("k") != "Lit":
                return None
            taken |= names
        return acc
    if r["k"] == "Binary" and r["op"] == "==":
        for x in (strip(r["l"]), strip(r["r"])):
            if x["k"] == "Path" and x["def"].startswith(EDGEKIND):
                return {x["def"][len(EDGEKIND):]}
    if r["k"] == "Binary" and r["op"] == "||":
        l = _pred_body(prog, body, r["l"], param)
        rr = _pred_body(prog, body, r["r"], param)
        return None if l is None or rr is None else l | rr
    if r["k"] == "Lit" and r.get("lk") == "bool":
        return set(kinds) if r["v"] else set()
    return None
