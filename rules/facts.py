"""E1 front end: build (or load from cache) the fact files of /repo's current tree.

Facts are produced by /verif/driver (rustc_private HIR/typeck dump) injected through
RUSTC_WORKSPACE_WRAPPER under `cargo +nightly check --offline` with a FRESH target
directory (cargo's freshness cache would otherwise skip the wrapper).  They are
cached under /verif/.cache/facts/<tree-hash>/<config>.json; the hash covers every
source file that the build of bindgen / bindgen-cli reads, so an edited tree is
always re-analysed.
"""
import fcntl
import hashlib
import json
import os
import shutil
import subprocess
import sys
import tempfile
import time

REPO = os.environ.get("BGV_REPO", "/repo")
VERIF = os.path.dirname(os.path.dirname(os.path.abspath(__file__)))
DRIVER = os.path.join(VERIF, "driver", "target", "release", "bgv-driver")
# facts of scratch copies (BGV_REPO) are cached next to the copy and disappear with it
CACHE = os.path.join(VERIF, ".cache", "facts") if REPO == "/repo" else os.path.join(os.path.dirname(os.path.abspath(REPO)), ".bgv-facts")

# feature configurations (DESIGN.md §2 E1)
CONFIGS = {
    # what the golden tests and the CLI use
    "cli": ["-p", "bindgen-cli"],
    # the library with default features
    "lib": ["-p", "bindgen"],
    # minimal feature set (no logging, no prettyplease); `static` cannot be analysed here:
    # clang-sys' build script needs libclang.a, which this sandbox does not have
    "min": ["-p", "bindgen", "--no-default-features", "--features", "runtime"],
}

MIN_BODIES = {"cli": 1700, "lib": 1650, "min": 1600}


class ToolError(Exception):
    pass


def _source_files():
    out = []
    for top in ("bindgen", "bindgen-cli"):
        for root, dirs, files in os.walk(os.path.join(REPO, top)):
            dirs[:] = [d for d in dirs if d not in ("target", ".git")]
            for f in files:
                if f.endswith(".rs") or f in ("Cargo.toml", "Cargo.lock") or f.endswith(".toml"):
                    out.append(os.path.join(root, f))
    for f in ("Cargo.toml", "Cargo.lock"):
        p = os.path.join(REPO, f)
        if os.path.exists(p):
            out.append(p)
    return sorted(out)


def tree_hash():
    h = hashlib.sha256()
    for p in _source_files():
        h.update(p.encode())
        h.update(b"\0")
        with open(p, "rb") as fh:
            h.update(fh.read())
        h.update(b"\0")
    # the driver itself is part of the key
    try:
        with open(DRIVER, "rb") as fh:
            h.update(hashlib.sha256(fh.read()).digest())
    except OSError:
        pass
    return h.hexdigest()[:24]


def _nightly_sysroot():
    return subprocess.check_output(["rustc", "+nightly", "--print", "sysroot"], text=True).strip()


def ensure_driver():
    if os.path.exists(DRIVER):
        return
    env = dict(os.environ, CARGO_NET_OFFLINE="true")
    r = subprocess.run(["cargo", "build", "--release", "--offline"], cwd=os.path.join(VERIF, "driver"), env=env,
                       stdout=subprocess.PIPE, stderr=subprocess.STDOUT, text=True)
    if r.returncode != 0 or not os.path.exists(DRIVER):
        raise ToolError("driver build failed:\n" + r.stdout[-4000:])


def _base_key(config):
    h = hashlib.sha256()
    for f in ("Cargo.lock", "Cargo.toml"):
        try:
            with open(os.path.join(REPO, f), "rb") as fh:
                h.update(fh.read())
        except OSError:
            pass
    h.update(subprocess.check_output(["rustc", "+nightly", "--version"]))
    return "%s-%s" % (config, h.hexdigest()[:16])


def _forget_workspace_members(target):
    """Remove everything cargo knows about the workspace members so that they are re-checked
    (through the wrapper) while third-party dependencies stay compiled."""
    dbg = os.path.join(target, "debug")
    for sub in (".fingerprint", "deps", "incremental", "build"):
        d = os.path.join(dbg, sub)
        if not os.path.isdir(d):
            continue
        for e in os.listdir(d):
            name = e[3:] if e.startswith("lib") else e
            if name.startswith("bindgen-") or name.startswith("bindgen_cli-") or name.startswith("bindgen."):
                p = os.path.join(d, e)
                shutil.rmtree(p, ignore_errors=True) if os.path.isdir(p) else os.unlink(p)


def _run_driver(config, outfile):
    ensure_driver()
    scratch_root = os.environ.get("BGV_SCRATCH", tempfile.gettempdir())
    scratch = tempfile.mkdtemp(prefix="bgv-facts-", dir=scratch_root)
    base = os.path.join(VERIF, ".cache", "target-base", _base_key(config))
    try:
        out = os.path.join(scratch, "out")
        os.mkdir(out)
        target = os.path.join(scratch, "target")
        if os.path.isdir(base):
            # third-party dependencies compiled once; workspace members are always re-checked
            subprocess.check_call(["cp", "-a", base, target])
            _forget_workspace_members(target)
        env = dict(os.environ)
        env.update({
            "LD_LIBRARY_PATH": _nightly_sysroot() + "/lib:" + env.get("LD_LIBRARY_PATH", ""),
            "RUSTFLAGS": "-Awarnings",
            "RUSTC_WORKSPACE_WRAPPER": DRIVER,
            "CARGO_TARGET_DIR": target,
            "CARGO_NET_OFFLINE": "true",
            "BGV_OUT": out,
            "BGV_CRATES": "bindgen",
        })
        env.pop("RUSTC_WRAPPER", None)
        cmd = ["cargo", "+nightly", "check", "--offline"] + CONFIGS[config]
        r = subprocess.run(cmd, cwd=REPO, env=env, stdout=subprocess.PIPE, stderr=subprocess.STDOUT, text=True)
        if r.returncode != 0:
            raise ToolError("cargo check (%s) failed; the tree does not compile:\n%s" % (config, r.stdout[-6000:]))
        libs = []
        bins = []
        for f in os.listdir(out):
            with open(os.path.join(out, f)) as fh:
                d = json.load(fh)
            if "Rlib" in d.get("crate_types", "") or "Lib" in d.get("crate_types", ""):
                libs.append(d)
            elif "Executable" in d.get("crate_types", ""):
                bins.append(d)
        if len(libs) != 1:
            raise ToolError("expected exactly one fact file for the bindgen library, got %d (the wrapper did not run?)" % len(libs))
        d = libs[0]
        if config == "cli":
            # the `bindgen` executable of package bindgen-cli (main.rs): kept beside the library facts
            if len(bins) != 1:
                raise ToolError("expected exactly one fact file for the bindgen-cli executable, got %d" % len(bins))
            tmpb = _bin_path(outfile) + ".tmp%d" % os.getpid()
            os.makedirs(os.path.dirname(tmpb), exist_ok=True)
            with open(tmpb, "w") as fh:
                json.dump(bins[0], fh)
            os.replace(tmpb, _bin_path(outfile))
        if len(d["fns"]) < MIN_BODIES[config]:
            raise ToolError("fact file holds %d bodies, floor is %d" % (len(d["fns"]), MIN_BODIES[config]))
        tmp = outfile + ".tmp%d" % os.getpid()
        os.makedirs(os.path.dirname(tmp), exist_ok=True)
        with open(tmp, "w") as fh:
            json.dump(d, fh)
        os.replace(tmp, outfile)
        if not os.path.isdir(base) and REPO == "/repo":
            _forget_workspace_members(target)
            os.makedirs(os.path.dirname(base), exist_ok=True)
            tmpb = base + ".tmp%d" % os.getpid()
            shutil.rmtree(tmpb, ignore_errors=True)
            shutil.move(target, tmpb)
            try:
                os.rename(tmpb, base)
            except OSError:
                shutil.rmtree(tmpb, ignore_errors=True)
    finally:
        shutil.rmtree(scratch, ignore_errors=True)


def _bin_path(outfile):
    return outfile[:-len(".json")] + "-bin.json"


def _prune(keep):
    try:
        ents = [(os.path.getmtime(os.path.join(CACHE, e)), e) for e in os.listdir(CACHE)
                if os.path.isdir(os.path.join(CACHE, e))]
    except OSError:
        return
    ents.sort(reverse=True)
    now = time.time()
    for mt, e in ents[12:]:
        if e != keep and now - mt > 3600:
            shutil.rmtree(os.path.join(CACHE, e), ignore_errors=True)


def load(config="cli"):
    """Return (facts dict, info dict) for /repo's current working tree."""
    os.makedirs(CACHE, exist_ok=True)
    th = tree_hash()
    d = os.path.join(CACHE, th)
    os.makedirs(d, exist_ok=True)
    path = os.path.join(d, config + ".json")
    t0 = time.time()
    built = False
    with open(os.path.join(CACHE, ".lock-" + config), "w") as lock:
        fcntl.flock(lock, fcntl.LOCK_EX)
        if not os.path.exists(path) or (config == "cli" and not os.path.exists(_bin_path(path))):
            _run_driver(config, path)
            built = True
            _prune(th)
        else:
            os.utime(d)
    with open(path) as fh:
        facts = json.load(fh)
    info = {"config": config, "cargo_args": CONFIGS[config], "tree_hash": th, "rebuilt": built,
            "bodies": len(facts["fns"]), "adts": len(facts["adts"]), "impls": len(facts["impls"]),
            "facts_wall_s": round(time.time() - t0, 2)}
    return facts, info


def load_bin():
    """Facts of the `bindgen` executable (bindgen-cli/main.rs), produced by the same `cli` run as the library facts."""
    _, info = load("cli")
    path = os.path.join(CACHE, info["tree_hash"], "cli-bin.json")
    with open(path) as fh:
        facts = json.load(fh)
    return facts, {"config": "cli-bin", "crate": "bindgen-cli", "tree_hash": info["tree_hash"], "bodies": len(facts["fns"])}


def load_file(relpath, crate_name, edition="2021"):
    """Facts of ONE source file compiled as its own crate (for files bindgen ships as text, such as
    codegen/bitfield_unit.rs, which the library itself only compiles under cfg(test))."""
    ensure_driver()
    src = os.path.join(REPO, relpath)
    with open(src, "rb") as fh:
        h = hashlib.sha256(fh.read())
    try:
        with open(DRIVER, "rb") as fh:
            h.update(hashlib.sha256(fh.read()).digest())
    except OSError:
        pass
    os.makedirs(CACHE, exist_ok=True)
    path = os.path.join(CACHE, "file-%s-%s.json" % (crate_name, h.hexdigest()[:20]))
    if not os.path.exists(path):
        scratch = tempfile.mkdtemp(prefix="bgv-file-", dir=os.environ.get("BGV_SCRATCH", tempfile.gettempdir()))
        try:
            env = dict(os.environ, LD_LIBRARY_PATH=_nightly_sysroot() + "/lib:" + os.environ.get("LD_LIBRARY_PATH", ""),
                       BGV_OUT=scratch, BGV_CRATES=crate_name)
            nightly_rustc = subprocess.check_output(["rustup", "which", "--toolchain", "nightly", "rustc"], text=True).strip()
            r = subprocess.run([DRIVER, nightly_rustc, "--edition", edition, "--crate-type", "lib", "--crate-name", crate_name,
                                "--emit=metadata", "-Awarnings", "-o", os.path.join(scratch, "out.rmeta"), src],
                               env=env, stdout=subprocess.PIPE, stderr=subprocess.STDOUT, text=True)
            outs = [f for f in os.listdir(scratch) if f.startswith(crate_name + "-") and f.endswith(".json")]
            if r.returncode != 0 or len(outs) != 1:
                raise ToolError("%s does not compile as a stand-alone crate:\n%s" % (relpath, r.stdout[-4000:]))
            os.replace(os.path.join(scratch, outs[0]), path + ".tmp%d" % os.getpid())
            os.replace(path + ".tmp%d" % os.getpid(), path)
        finally:
            shutil.rmtree(scratch, ignore_errors=True)
    with open(path) as fh:
        facts = json.load(fh)
    return facts, {"config": "file:" + relpath, "crate": crate_name, "bodies": len(facts["fns"])}


if __name__ == "__main__":
    for c in sys.argv[1:] or ["cli"]:
        f, i = load(c)
        print(i)
